#!/bin/bash
# Builds the verification machinery from files on disk only (offline).
set -e
cd /verif
export GOFLAGS=-mod=mod GOPROXY=off GOSUMDB=off GOTOOLCHAIN=local GOCACHE=/verif/.cache/go-build
mkdir -p bin work evidence replays
(cd tools/simweave && go1.26.8 build -o /verif/bin/simweave .)
go1.26.8 build -o bin/verifctl ./cmd/verifctl
# warm the build cache (standard library for go1.26.8, naza, lal woven) so that the first check is not slow
./bin/verifctl build >/dev/null
echo "setup ok"

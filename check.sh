#!/bin/bash
# usage: check.sh <property> <quick|thorough>
cd /verif
[ -x bin/verifctl ] || ./setup.sh >/dev/null 2>&1 || { echo "setup failed" >&2; exit 2; }
if [ "$1" = "C20" ]; then
  # two phases: lock-aware deterministic mode (deadlock-freedom, bounded completion), then the parallel-burst mode
  # under the race detector (data races); the second phase folds the first one's evidence into evidence/C20.json
  ./bin/verifctl check C20 --tier "${2:-quick}"; rc1=$?
  ./bin/verifctl check C20 --tier "${2:-quick}" --race --merge; rc2=$?
  if [ $rc1 -eq 1 ] || [ $rc2 -eq 1 ]; then exit 1; fi
  if [ $rc1 -ne 0 ]; then exit $rc1; fi
  exit $rc2
fi
exec ./bin/verifctl check "$1" --tier "${2:-quick}"

#!/bin/bash
# usage: check.sh <property> <quick|thorough>
cd /verif
[ -x bin/verifctl ] || ./setup.sh >/dev/null 2>&1 || { echo "setup failed" >&2; exit 2; }
exec ./bin/verifctl check "$1" --tier "${2:-quick}"

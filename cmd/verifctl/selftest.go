package main

import (
	"flag"
	"fmt"
	"os"
	"path/filepath"
	"strings"
	"sync"
)

// cmdSelftest: determinism self-test. Runs the same run indices several times in separate processes at
// GOMAXPROCS 1, 4 and 16 and compares the canonical digests. Exit 0 = identical everywhere.
func cmdSelftest(args []string) int {
	fs := flag.NewFlagSet("selftest", flag.ExitOnError)
	props := fs.String("props", "C01", "comma separated properties")
	n := fs.Int("n", 64, "run indices per property")
	seed := fs.Uint64("seed", 7, "VERIF_SEED")
	race := fs.Bool("race", false, "also with the race detector build")
	_ = fs.Parse(args)
	workDir := filepath.Join(verifDir, "work", "selftest")
	_ = os.RemoveAll(workDir)
	bins := []string{}
	b, _ := build(workDir, false)
	bins = append(bins, b)
	if *race {
		b2, _ := build(filepath.Join(workDir, "race"), true)
		bins = append(bins, b2)
	}
	bad := 0
	for _, prop := range strings.Split(*props, ",") {
		type key struct{ idx int }
		digests := map[int]map[string]int{}
		var mu sync.Mutex
		var wg sync.WaitGroup
		procs := 0
		sem := make(chan struct{}, 8)
		for bi, bin := range bins {
			for _, gmp := range []string{"1", "4", "16"} {
				for rep := 0; rep < 2; rep++ {
					// several processes per configuration, each a slice of the indices
					for part := 0; part < 3; part++ {
						wg.Add(1)
						procs++
						go func(bin, gmp string, bi, rep, part int) {
							defer wg.Done()
							sem <- struct{}{}
							defer func() { <-sem }()
							os.Setenv("GOMAXPROCS", gmp)
							out := filepath.Join(workDir, fmt.Sprintf("%s-b%d-g%s-r%d-p%d.jsonl", prop, bi, gmp, rep, part))
							wo := runWorkerEnv(bin, prop, "quick", *seed, part, 3, (*n+2)/3, out, []string{"GOMAXPROCS=" + gmp})
							mu.Lock()
							for _, r := range wo.recs {
								if digests[r.Idx] == nil {
									digests[r.Idx] = map[string]int{}
								}
								d := r.Result.Digest
								if r.Result.Violation != nil {
									d += "/" + r.Result.Violation.Rule
								}
								if r.Result.Aborted != "" {
									d += "/aborted"
								}
								digests[r.Idx][d]++
							}
							mu.Unlock()
						}(bin, gmp, bi, rep, part)
					}
				}
			}
		}
		wg.Wait()
		div := 0
		for idx, m := range digests {
			if len(m) != 1 {
				div++
				fmt.Printf("selftest: %s idx=%d diverged: %v\n", prop, idx, m)
			}
		}
		fmt.Printf("selftest: property=%s indices=%d processes=%d divergent=%d\n", prop, len(digests), procs, div)
		bad += div
		if len(digests) == 0 {
			bad++
		}
	}
	if bad > 0 {
		return 1
	}
	return 0
}

func runWorkerEnv(bin, prop, tier string, seed uint64, from, stride, n int, out string, env []string) workerOut {
	old := os.Environ()
	_ = old
	for _, e := range env {
		kv := strings.SplitN(e, "=", 2)
		os.Setenv(kv[0], kv[1])
	}
	return runWorker(bin, prop, tier, seed, from, stride, n, 0, out, 0)
}

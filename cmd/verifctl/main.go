// verifctl orchestrates the deterministic-simulation checks: weave + build from /repo's working tree,
// run seeded batches in worker processes, minimise and write replay files, match known findings,
// write evidence. Exit codes: 0 property held on everything explored (KNOWN-FINDING lines allowed),
// 1 VIOLATION, 2 harness / build / watchdog trouble (never a verdict).
package main

import (
	"bufio"
	"bytes"
	"encoding/json"
	"flag"
	"fmt"
	"os"
	"os/exec"
	"path/filepath"
	"regexp"
	"runtime"
	"sort"
	"strconv"
	"strings"
	"sync"
	"syscall"
	"time"
)

const verifDir = "/verif"

// repoDir is the tree lal is built from. VERIF_REPO (used only for screening seeded changes in scratch
// worktrees, never by the registered commands) points it elsewhere; outDir then receives work files,
// evidence and replays instead of /verif.
var repoDir = "/repo"
var outDir = verifDir

func init() {
	if v := os.Getenv("VERIF_REPO"); v != "" {
		repoDir = v
		if os.Getenv("VERIF_OUT") == "" {
			fmt.Fprintln(os.Stderr, "VERIF_REPO needs VERIF_OUT")
			os.Exit(2)
		}
	}
	if v := os.Getenv("VERIF_OUT"); v != "" {
		outDir = v
		_ = os.MkdirAll(outDir, 0o755)
	}
}

const goBin = "go1.26.8"

func goEnv() []string {
	env := os.Environ()
	env = append(env, "GOFLAGS=-mod=mod", "GOPROXY=off", "GOSUMDB=off", "GOTOOLCHAIN=local",
		"GOCACHE="+filepath.Join(verifDir, ".cache", "go-build"))
	return env
}

func fatal2(format string, a ...interface{}) {
	fmt.Fprintf(os.Stderr, "verifctl: "+format+"\n", a...)
	os.Exit(2)
}

func run(dir string, env []string, name string, args ...string) (string, error) {
	cmd := exec.Command(name, args...)
	cmd.Dir = dir
	cmd.Env = env
	var buf bytes.Buffer
	cmd.Stdout = &buf
	cmd.Stderr = &buf
	err := cmd.Run()
	return buf.String(), err
}

// ensureTools builds simweave if missing (setup normally did it).
func ensureTools() {
	bi, err := os.Stat(filepath.Join(verifDir, "bin", "simweave"))
	si, _ := os.Stat(filepath.Join(verifDir, "tools", "simweave", "main.go"))
	if err != nil || (si != nil && si.ModTime().After(bi.ModTime())) {
		out, err := run(filepath.Join(verifDir, "tools", "simweave"), goEnv(), goBin, "build", "-o", filepath.Join(verifDir, "bin", "simweave"), ".")
		if err != nil {
			fatal2("building simweave failed: %v\n%s", err, out)
		}
	}
}

// build weaves /repo's working tree and builds the worker binary; returns its path.
func build(workDir string, race bool) (bin string, weaveStats json.RawMessage) {
	ensureTools()
	if err := os.MkdirAll(workDir, 0o755); err != nil {
		fatal2("%v", err)
	}
	scratch, err := os.MkdirTemp("", "simweave-")
	if err != nil {
		fatal2("%v", err)
	}
	defer os.RemoveAll(scratch)
	out, err := run(verifDir, goEnv(), filepath.Join(verifDir, "bin", "simweave"), "-repo", repoDir,
		"-zzsim", filepath.Join(verifDir, "zzsim"), "-shims", filepath.Join(verifDir, "shims"), "-out", scratch)
	if err != nil {
		fatal2("simweave failed (the tree under /repo may not type-check): %v\n%s", err, out)
	}
	weaveStats, _ = os.ReadFile(filepath.Join(scratch, "weave_stats.json"))
	bin = filepath.Join(workDir, "sim.test")
	args := []string{"test", "-c", "-vet=off", "-overlay", filepath.Join(scratch, "overlay.json"), "-o", bin}
	if race {
		args = append(args, "-race")
	}
	if repoDir != "/repo" {
		gm, _ := os.ReadFile(filepath.Join(verifDir, "go.mod"))
		alt := strings.Replace(string(gm), "=> /repo", "=> "+repoDir, 1)
		alt = strings.Replace(alt, "=> ./third_party/naza", "=> "+filepath.Join(verifDir, "third_party", "naza"), 1)
		_ = os.WriteFile(filepath.Join(scratch, "go.mod"), []byte(alt), 0o644)
		gs, _ := os.ReadFile(filepath.Join(verifDir, "go.sum"))
		_ = os.WriteFile(filepath.Join(scratch, "go.sum"), gs, 0o644)
		args = append(args, "-modfile="+filepath.Join(scratch, "go.mod"))
	}
	args = append(args, "./simtest/")
	out, err = run(verifDir, goEnv(), goBin, args...)
	if err != nil {
		fatal2("building the simulation binary failed: %v\n%s", err, out)
	}
	return bin, weaveStats
}

// ---- records ---------------------------------------------------------------------------------------------------------------

type Violation struct {
	Rule   string `json:"rule"`
	Detail string `json:"detail"`
	Step   int    `json:"step"`
	SimMs  int64  `json:"sim_ms"`
}

type Stats struct {
	Steps       int            `json:"steps"`
	Grants      int            `json:"grants"`
	Deliveries  int            `json:"deliveries"`
	Writes      int            `json:"writes"`
	BytesIn     int64          `json:"bytes_in"`
	BytesOut    int64          `json:"bytes_out"`
	Preemptions int            `json:"preemptions"`
	ChaosPicks  int            `json:"chaos_picks"`
	MapPerms    int            `json:"map_perms"`
	SimMs       int64          `json:"sim_ms"`
	Faults      map[string]int `json:"faults"`
	Probes      map[string]int `json:"probes"`
}

type Result struct {
	Seed      uint64     `json:"seed"`
	Violation *Violation `json:"violation,omitempty"`
	Aborted   string     `json:"aborted,omitempty"`
	Digest    string     `json:"digest"`
	SchedHash string     `json:"sched_hash"`
	Stats     Stats      `json:"stats"`
}

type RunRecord struct {
	Prop    string          `json:"prop"`
	Idx     int             `json:"idx"`
	RunSeed uint64          `json:"run_seed"`
	Result  Result          `json:"result"`
	Shape   string          `json:"shape"`
	Plan    json.RawMessage `json:"plan,omitempty"`
	Brief   json.RawMessage `json:"brief,omitempty"`
	WallMs  float64         `json:"wall_ms"`
}

type ReplayFile struct {
	Property  string          `json:"property"`
	Rule      string          `json:"rule"`
	Detail    string          `json:"detail"`
	VerifSeed uint64          `json:"verif_seed"`
	Idx       int             `json:"idx"`
	RunSeed   uint64          `json:"run_seed"`
	Tier      string          `json:"tier"`
	Minimised bool            `json:"minimised"`
	MinSteps  int             `json:"minimise_candidates_tried"`
	Digest    string          `json:"digest"`
	SchedHash string          `json:"sched_hash"`
	Toolchain string          `json:"toolchain"`
	Crash     string          `json:"crash,omitempty"`
	Plan      json.RawMessage `json:"plan"`
}

type KnownFinding struct {
	Property    string `json:"property"`
	Status      string `json:"status"` // known | fixed
	Rule        string `json:"rule"`
	Match       string `json:"match"` // regexp on the violation detail
	Commit      string `json:"commit,omitempty"`
	Description string `json:"description"`
}

func loadKnown() []KnownFinding {
	b, err := os.ReadFile(filepath.Join(verifDir, "known_findings.json"))
	if err != nil {
		return nil
	}
	var k struct {
		Findings []KnownFinding `json:"findings"`
	}
	if err := json.Unmarshal(b, &k); err != nil {
		fatal2("known_findings.json: %v", err)
	}
	return k.Findings
}

func matchKnown(known []KnownFinding, prop string, v *Violation) *KnownFinding {
	for i := range known {
		k := &known[i]
		if k.Status != "known" || k.Property != prop || k.Rule != v.Rule {
			continue
		}
		if k.Match == "" {
			return k
		}
		if ok, _ := regexp.MatchString(k.Match, v.Detail); ok {
			return k
		}
	}
	return nil
}

// ---- worker management -----------------------------------------------------------------------------------------------------

type crashRec struct {
	idx     int
	log     string
	stalled bool
}

type workerOut struct {
	crashes  []crashRec
	recs     []RunRecord
	crashed  bool
	crashIdx int
	crashLog string
	stalled  bool
	exitErr  error
	// recycled: the worker handed over after this many of its runs (memory), -1 otherwise
	recycled int
}

func runWorker(bin, prop, tier string, seed uint64, from, stride, n int, budget time.Duration, outFile string, stallAfter time.Duration, extra ...string) workerOut {
	var wo workerOut
	wo.recycled = -1
	args := []string{"-test.run", "^TestWorker$", "-test.timeout", "0",
		"-sim.prop", prop, "-sim.seed", strconv.FormatUint(seed, 10), "-sim.from", strconv.Itoa(from), "-sim.stride", strconv.Itoa(stride),
		"-sim.n", strconv.Itoa(n), "-sim.tier", tier, "-sim.out", outFile}
	if budget > 0 {
		args = append(args, "-sim.budget", budget.String())
	}
	args = append(args, extra...)
	// address-space cap so that an unbounded allocation terminates the worker instead of the machine
	sh := fmt.Sprintf("ulimit -v %d; exec \"$0\" \"$@\"", 24*1024*1024)
	cmd := exec.Command("/bin/sh", append([]string{"-c", sh, bin}, args...)...)
	cmd.Dir = verifDir
	// the worker's scratch space (the real directories behind the os.* seams of a run) lives next to the binary and is
	// removed when the worker has exited, however it exited (a crashed run cannot clean up after itself)
	tmpDir := filepath.Join(filepath.Dir(bin), fmt.Sprintf("tmp-w%d-%d", from, time.Now().UnixNano()))
	_ = os.MkdirAll(tmpDir, 0o755)
	defer os.RemoveAll(tmpDir)
	cmd.Env = append(os.Environ(), "GOTRACEBACK=all", "GORACE=halt_on_error=1 exitcode=66", "TMPDIR="+tmpDir)
	stdout, _ := cmd.StdoutPipe()
	var stderr bytes.Buffer
	cmd.Stderr = &stderr
	if err := cmd.Start(); err != nil {
		wo.exitErr = err
		return wo
	}
	var mu sync.Mutex
	lastProgress := time.Now()
	curIdx, curDone := -1, true
	doneCh := make(chan struct{})
	go func() {
		sc := bufio.NewScanner(stdout)
		sc.Buffer(make([]byte, 1<<20), 1<<24)
		for sc.Scan() {
			line := sc.Text()
			mu.Lock()
			lastProgress = time.Now()
			if strings.HasPrefix(line, "RUN ") {
				if i := strings.Index(line, "idx="); i >= 0 {
					f := strings.Fields(line[i+4:])
					curIdx, _ = strconv.Atoi(f[0])
					curDone = false
				}
			} else if strings.HasPrefix(line, "DONE ") {
				curDone = true
			} else if strings.HasPrefix(line, "RECYCLE next=") {
				wo.recycled, _ = strconv.Atoi(strings.TrimPrefix(line, "RECYCLE next="))
			}
			mu.Unlock()
		}
		close(doneCh)
	}()
	waitCh := make(chan error, 1)
	go func() { waitCh <- cmd.Wait() }()
	tick := time.NewTicker(500 * time.Millisecond)
	defer tick.Stop()
	var err error
loop:
	for {
		select {
		case err = <-waitCh:
			break loop
		case <-tick.C:
			mu.Lock()
			idle := time.Since(lastProgress)
			mu.Unlock()
			if stallAfter > 0 && idle > stallAfter {
				if !wo.stalled {
					wo.stalled = true
					// ask the Go runtime for all goroutine stacks first, then make sure it dies
					_ = cmd.Process.Signal(syscall.SIGQUIT)
					go func() {
						time.Sleep(5 * time.Second)
						_ = cmd.Process.Kill()
					}()
				}
			}
		}
	}
	<-doneCh
	wo.exitErr = err
	mu.Lock()
	if err != nil && !curDone {
		wo.crashed = true
		wo.crashIdx = curIdx
		s := stderr.String()
		if wo.stalled {
			// put the goroutines that were running (the ones that never reached quiescence) first
			var run []string
			for _, blk := range strings.Split(s, "\n\n") {
				if strings.HasPrefix(blk, "goroutine ") && (strings.Contains(strings.SplitN(blk, "\n", 2)[0], "[running") || strings.Contains(strings.SplitN(blk, "\n", 2)[0], "[runnable")) {
					if len(blk) > 2500 {
						blk = blk[:2500]
					}
					run = append(run, blk)
				}
			}
			s = strings.Join(run, "\n\n") + "\n\n" + s
		}
		if len(s) > 6000 {
			s = s[:3000] + "\n...\n" + s[len(s)-3000:]
		}
		wo.crashLog = s
	}
	mu.Unlock()
	wo.recs = readRecords(outFile)
	return wo
}

func readRecords(file string) []RunRecord {
	f, err := os.Open(file)
	if err != nil {
		return nil
	}
	defer f.Close()
	var recs []RunRecord
	sc := bufio.NewScanner(f)
	sc.Buffer(make([]byte, 1<<20), 1<<28)
	for sc.Scan() {
		var r RunRecord
		if json.Unmarshal(sc.Bytes(), &r) == nil {
			recs = append(recs, r)
		}
	}
	return recs
}

// ---- check -----------------------------------------------------------------------------------------------------------------

type tierParams struct {
	budget  time.Duration // per worker wall budget
	maxRuns int           // per worker
	stall   time.Duration
}

func tierOf(tier string) tierParams {
	if tier == "thorough" {
		return tierParams{budget: 12 * time.Minute, maxRuns: 1 << 30, stall: 180 * time.Second}
	}
	return tierParams{budget: 50 * time.Second, maxRuns: 1 << 30, stall: 90 * time.Second}
}

var crashProps = map[string]bool{"C04": true, "C05": true, "C13": true, "C20": true}

func cmdCheck(args []string) int {
	fs := flag.NewFlagSet("check", flag.ExitOnError)
	tier := fs.String("tier", envOr("VERIF_TIER", "quick"), "quick|thorough")
	seedS := fs.String("seed", envOr("VERIF_SEED", "1"), "VERIF_SEED")
	workers := fs.Int("workers", runtime.NumCPU(), "worker processes")
	budget := fs.Duration("budget", 0, "override per-worker wall budget")
	maxRuns := fs.Int("runs", 0, "override total number of runs")
	race := fs.Bool("race", false, "build with the race detector")
	merge := fs.Bool("merge", false, "with --race: keep the evidence of the preceding non-race phase inside the evidence file")
	if len(args) < 1 {
		fatal2("usage: verifctl check <property> [--tier quick|thorough]")
	}
	prop := args[0]
	_ = fs.Parse(args[1:])
	seed, err := strconv.ParseUint(*seedS, 10, 64)
	if err != nil {
		// VERIF_SEED may be any integer; fold negatives
		s, err2 := strconv.ParseInt(*seedS, 10, 64)
		if err2 != nil {
			fatal2("bad seed %q", *seedS)
		}
		seed = uint64(s)
	}
	if *tier != "quick" && *tier != "thorough" {
		fatal2("bad tier %q", *tier)
	}
	t0 := time.Now()
	workDir := filepath.Join(outDir, "work", prop+"-"+*tier)
	_ = os.RemoveAll(workDir)
	evidenceRace, evidenceMerge = *race, *merge
	if *race {
		workDir += "-race"
	}
	bin, weaveStats := build(workDir, *race)
	buildS := time.Since(t0).Seconds()
	tp := tierOf(*tier)
	if *budget > 0 {
		tp.budget = *budget
	}
	perWorker := tp.maxRuns
	if *maxRuns > 0 {
		perWorker = (*maxRuns + *workers - 1) / *workers
	}
	fmt.Printf("verifctl: property=%s tier=%s seed=%d workers=%d build=%.1fs\n", prop, *tier, seed, *workers, buildS)

	outs := make([]workerOut, *workers)
	var wg sync.WaitGroup
	for w := 0; w < *workers; w++ {
		wg.Add(1)
		go func(w int) {
			defer wg.Done()
			// a worker that dies (lal panicked) is restarted after the fatal run index until the budget is used up
			started := time.Now()
			from := w
			done := 0
			var all workerOut
			idleStalls := 0
			for part := 0; part < 20000; part++ {
				remaining := tp.budget - time.Since(started)
				if tp.budget > 0 && remaining <= time.Second {
					break
				}
				if perWorker-done <= 0 {
					break
				}
				o := runWorker(bin, prop, *tier, seed, from, *workers, perWorker-done, remaining, filepath.Join(workDir, fmt.Sprintf("w%d.%d.jsonl", w, part)), tp.stall)
				all.recs = append(all.recs, o.recs...)
				if o.crashed {
					all.crashes = append(all.crashes, crashRec{o.crashIdx, o.crashLog, o.stalled})
					done += (o.crashIdx-from) / *workers + 1
					from = o.crashIdx + *workers
					continue
				}
				if o.stalled {
					// no progress while no run was in flight (process start-up, hand-over, exit): the machine, not a run. The
					// worker was killed; carry on after the last completed run, and give up only if it keeps happening
					idleStalls++
					fmt.Fprintf(os.Stderr, "verifctl: note: worker %d made no progress for %v between runs (busy machine); restarted\n", w, tp.stall)
					if idleStalls < 3 {
						done += len(o.recs)
						from += len(o.recs) * *workers
						continue
					}
					all.stalled = true
				}
				if o.recycled > 0 && o.exitErr == nil {
					done += o.recycled
					from += o.recycled * *workers
					continue
				}
				all.exitErr = o.exitErr
				break
			}
			outs[w] = all
		}(w)
	}
	wg.Wait()

	var recs []RunRecord
	harnessTrouble := []string{}
	type crash struct {
		idx int
		log string
	}
	var crashes []crash
	for w, o := range outs {
		recs = append(recs, o.recs...)
		for _, c := range o.crashes {
			if c.stalled {
				// judged below: a stall only counts when it reproduces with that run executed alone
				crashes = append(crashes, crash{c.idx, "STALL: a step did not reach quiescence within the wall-clock budget\n" + c.log})
				continue
			}
			crashes = append(crashes, crash{c.idx, c.log})
		}
		if o.stalled {
			harnessTrouble = append(harnessTrouble, fmt.Sprintf("worker %d stalled (no progress for %v)", w, tp.stall))
		} else if o.exitErr != nil && len(o.crashes) == 0 {
			harnessTrouble = append(harnessTrouble, fmt.Sprintf("worker %d: %v", w, o.exitErr))
		}
	}
	sort.Slice(recs, func(i, j int) bool { return recs[i].Idx < recs[j].Idx })

	known := loadKnown()
	exit := 0
	nViol := 0
	knownHits := map[string]int{}
	reported := map[string]bool{}
	// 1. worker crashes: lal (or the harness) died. Re-run that index alone to confirm.
	for _, c := range crashes {
		sig := crashSignature(c.log)
		v := &Violation{Rule: "process-terminated", Detail: sig}
		if strings.Contains(c.log, "WARNING: DATA RACE") {
			// the race detector (parallel-burst mode of C20) stopped the worker at the first report
			sig = raceSignature(c.log)
			v = &Violation{Rule: "data-race", Detail: sig}
			if !strings.Contains(sig, "q191201771/lal/") && !strings.Contains(sig, "q191201771/naza/pkg/connection") {
				harnessTrouble = append(harnessTrouble, fmt.Sprintf("data race inside the harness at idx %d:\n%s", c.idx, c.log))
				continue
			}
		} else if strings.Contains(c.log, "ThreadSanitizer: CHECK failed") {
			// an internal assertion of the race detector's runtime (seen rarely with tens of thousands of goroutines
			// parked in finished bubbles): says nothing about lal; the worker was restarted after that run
			fmt.Fprintf(os.Stderr, "verifctl: note: the race detector runtime aborted at idx %d (ThreadSanitizer CHECK failed); run skipped\n", c.idx)
			continue
		} else if runtimeSignalAbort(c.log) {
			// the Go runtime itself took a fatal signal on a system stack (seen rarely in the -race build inside
			// runtime.(*timer).modify of a synctest bubble); a nil dereference in lal is a Go panic, not this. It says
			// nothing about lal; the worker was restarted after that run
			fmt.Fprintf(os.Stderr, "verifctl: note: the Go runtime aborted with a fatal signal at idx %d (raw signal inside the runtime, not a Go panic); run skipped\n", c.idx)
			continue
		} else if !strings.Contains(c.log, "panic") && !strings.Contains(c.log, "fatal error") && !strings.HasPrefix(c.log, "STALL") {
			harnessTrouble = append(harnessTrouble, fmt.Sprintf("worker died at idx %d without a Go panic:\n%s", c.idx, c.log))
			continue
		}
		if !strings.HasPrefix(c.log, "STALL") && harnessPanic(c.log) {
			harnessTrouble = append(harnessTrouble, fmt.Sprintf("harness panic at idx %d:\n%s", c.idx, c.log))
			continue
		}
		if k := matchKnown(known, prop, v); k != nil {
			knownHits[k.Description]++
			continue
		}
		if reported[v.Rule+sig] {
			continue
		}
		if strings.Contains(c.log, "fatal error: out of memory") || strings.Contains(c.log, "cannot allocate memory") {
			// a worker process only grows (goroutines of finished bubbles stay parked with what they reference), so running
			// out of memory says something about lal only if that run does it on its own, in a fresh process
			o := runWorker(bin, prop, *tier, seed, c.idx, 1, 1, 0, filepath.Join(workDir, "oomconfirm.jsonl"), 4*tp.stall)
			if !o.crashed && !o.stalled {
				fmt.Fprintf(os.Stderr, "verifctl: note: a worker ran out of memory at idx %d after many runs, but that run completes in a fresh process; not a verdict\n", c.idx)
				continue
			}
		}
		if strings.HasPrefix(c.log, "STALL") {
			// a stall counts only if it reproduces when that run index is executed alone with a generous watchdog
			o := runWorker(bin, prop, *tier, seed, c.idx, 1, 1, 0, filepath.Join(workDir, "stallconfirm.jsonl"), 4*tp.stall)
			if !o.stalled {
				fmt.Fprintf(os.Stderr, "verifctl: note: run idx %d made no progress for %v in the batch but completes when run alone (busy machine); not a stall\n", c.idx, tp.stall)
				continue
			}
		}
		reported[v.Rule+sig] = true
		nViol++
		path := writeCrashReplay(bin, prop, *tier, seed, c.idx, v, c.log)
		fmt.Printf("VIOLATION property=%s replay=%s\n", prop, path)
		fmt.Printf("  rule=%s %s\n", v.Rule, sig)
		exit = 1
	}
	// 2. oracle violations
	for i := range recs {
		r := &recs[i]
		if r.Result.Violation == nil {
			continue
		}
		v := r.Result.Violation
		if k := matchKnown(known, prop, v); k != nil {
			knownHits[k.Description]++
			continue
		}
		nViol++
		key := v.Rule
		if reported[key] {
			continue // one replay per rule per batch; the count is in the evidence
		}
		reported[key] = true
		path := minimiseAndWrite(bin, workDir, prop, *tier, seed, r)
		fmt.Printf("VIOLATION property=%s replay=%s\n", prop, path)
		fmt.Printf("  rule=%s idx=%d %s\n", v.Rule, r.Idx, v.Detail)
		exit = 1
	}
	var kh []string
	for d := range knownHits {
		kh = append(kh, d)
	}
	sort.Strings(kh)
	for _, d := range kh {
		fmt.Printf("KNOWN-FINDING: property=%s %s (seen in %d runs)\n", prop, d, knownHits[d])
	}
	aborted := 0
	for _, r := range recs {
		if r.Result.Aborted != "" {
			aborted++
		}
	}
	wall := time.Since(t0).Seconds()
	writeEvidence(prop, *tier, seed, recs, nViol, aborted, wall, buildS, weaveStats, kh, harnessTrouble, len(crashes))
	fmt.Printf("verifctl: runs=%d violations=%d known=%d aborted=%d crashes=%d wall=%.1fs\n", len(recs), nViol, len(kh), aborted, len(crashes), wall)
	if len(recs) == 0 {
		fatal2("no run completed: %v", harnessTrouble)
	}
	if exit == 0 && len(harnessTrouble) > 0 {
		for _, h := range harnessTrouble {
			fmt.Fprintf(os.Stderr, "verifctl: harness trouble: %s\n", h)
		}
		return 2
	}
	if exit == 0 && aborted*5 > len(recs) {
		fmt.Fprintf(os.Stderr, "verifctl: %d of %d runs exhausted their budget without a verdict\n", aborted, len(recs))
		return 2
	}
	return exit
}

// runtimeSignalAbort: the crash log is a raw fatal signal of the Go runtime ("SIGSEGV: segmentation violation" followed
// by "PC=... m=... sigcode=...", not a Go panic and not a "fatal error:") and the faulting goroutine's stack holds no lal
// or naza frame.
func runtimeSignalAbort(log string) bool {
	i := strings.Index(log, "SIGSEGV: segmentation violation\nPC=")
	if i < 0 || strings.Contains(log[:i], "panic:") || strings.Contains(log[:i], "fatal error:") {
		return false
	}
	rest := log[i:]
	// the faulting goroutine is the first one printed with "[running"; its stack ends at the next blank line
	j := strings.Index(rest, "[running")
	if j < 0 {
		return false
	}
	stack := rest[j:]
	if e := strings.Index(stack, "\n\n"); e >= 0 {
		stack = stack[:e]
	}
	if !strings.Contains(stack, "q191201771/lal/") && !strings.Contains(stack, "q191201771/naza/") {
		return true
	}
	// lal frames further up do not matter when the innermost frames are the runtime's own on a system stack: a nil
	// dereference in Go code (lal has neither cgo nor assembly) is delivered as a Go panic, never as this raw signal dump
	lines := strings.Split(stack, "\n")
	return len(lines) > 1 && strings.HasPrefix(lines[1], "runtime.systemstack_switch(")
}

func envOr(k, d string) string {
	if v := os.Getenv(k); v != "" {
		return v
	}
	return d
}

var reGoroutineLine = regexp.MustCompile(`(?m)^(panic: .*|fatal error: .*)$`)
var reFrame = regexp.MustCompile(`(?m)^(github\.com/q191201771/[^\s(]+)\(`)
var reLalFrame = regexp.MustCompile(`(?m)^(github\.com/q191201771/lal/[^\s(]+)\(`)

// crashSignature condenses a Go crash log into "<panic message> @ <first lal frame>".
func crashSignature(log string) string {
	if strings.HasPrefix(log, "STALL") {
		return "stall"
	}
	msg := reGoroutineLine.FindString(log)
	msg = regexp.MustCompile(`0x[0-9a-f]+`).ReplaceAllString(msg, "0x?")
	msg = regexp.MustCompile(`\[recovered\].*`).ReplaceAllString(msg, "")
	msg = regexp.MustCompile(`\d+`).ReplaceAllString(msg, "N")
	// the site: the first lal frame of the panicking goroutine (the stack that follows the panic line)
	fr := ""
	rest := log
	if loc := reGoroutineLine.FindStringIndex(log); loc != nil {
		rest = log[loc[1]:]
	}
	if j := strings.Index(rest, "\n\ngoroutine "); j > 0 {
		rest = rest[:j] // only the first goroutine's stack
	}
	if m := reLalFrame.FindStringSubmatch(rest); m != nil {
		fr = m[1]
	} else if m := reFrame.FindStringSubmatch(rest); m != nil {
		fr = m[1]
	}
	return strings.TrimSpace(msg) + " @ " + fr
}

// raceSignature condenses a race detector report to the two conflicting accesses (first lal frame of each).
func raceSignature(log string) string {
	i := strings.Index(log, "WARNING: DATA RACE")
	rep := strings.TrimPrefix(log[i:], "WARNING: DATA RACE\n")
	if j := strings.Index(rep, "=================="); j > 0 {
		rep = rep[:j]
	}
	var parts []string
	for _, blk := range strings.Split(rep, "\n\n") {
		lines := strings.Split(strings.TrimSpace(blk), "\n")
		if len(lines) == 0 {
			continue
		}
		head := lines[0]
		if !(strings.HasPrefix(head, "Read at") || strings.HasPrefix(head, "Write at") || strings.HasPrefix(head, "Previous read at") || strings.HasPrefix(head, "Previous write at") || strings.HasPrefix(head, "WARNING")) {
			continue
		}
		kind := strings.Fields(strings.TrimPrefix(head, "WARNING: DATA RACE\n"))
		k := ""
		if len(kind) > 0 {
			k = strings.ToLower(kind[0])
			if k == "previous" && len(kind) > 1 {
				k = "prev-" + kind[1]
			}
		}
		// the access itself: the first frame that is not runtime / sync plumbing
		fr := ""
		for _, l := range lines[1:] {
			l = strings.TrimSpace(l)
			if l == "" || strings.HasPrefix(l, "/") || strings.HasPrefix(l, "<autogenerated>") || strings.HasPrefix(l, "runtime.") || strings.HasPrefix(l, "sync/") || strings.HasPrefix(l, "sync.") || strings.HasPrefix(l, "internal/") {
				continue
			}
			if p := strings.Index(l, "("); p > 0 {
				l = l[:p]
			}
			fr = l
			break
		}
		if k != "" && k != "warning:" {
			parts = append(parts, k+" "+fr)
		}
	}
	return "DATA RACE: " + strings.Join(parts, " / ")
}

// harnessPanic reports whether the first non-runtime frame of the panic is harness code.
func harnessPanic(log string) bool {
	if strings.Contains(log, "lal terminated the process itself") {
		return false // raised by the exit seam on lal's behalf (nazalog Fatal / Assert -> os.Exit)
	}
	i := strings.Index(log, "goroutine ")
	if i < 0 {
		return false
	}
	for _, line := range strings.Split(log[i:], "\n") {
		if strings.HasPrefix(line, "simlal/") {
			return true
		}
		if strings.HasPrefix(line, "github.com/q191201771/lal/") && !strings.Contains(line, "/zzsim.") {
			return false
		}
	}
	return false
}

func toolchain() string {
	out, _ := run(verifDir, goEnv(), goBin, "version")
	return strings.TrimSpace(out)
}

func replayPath(prop string, seed uint64, idx int, rule string) string {
	safe := regexp.MustCompile(`[^A-Za-z0-9_.-]`).ReplaceAllString(rule, "_")
	_ = os.MkdirAll(filepath.Join(outDir, "replays"), 0o755)
	return filepath.Join(outDir, "replays", fmt.Sprintf("%s-%s-seed%d-idx%d.json", prop, safe, seed, idx))
}

func writeCrashReplay(bin, prop, tier string, seed uint64, idx int, v *Violation, log string) string {
	// obtain the plan by asking the worker to dump it without running
	out, _ := run(verifDir, os.Environ(), bin, "-test.run", "^TestDumpPlan$", "-sim.prop", prop, "-sim.seed", strconv.FormatUint(seed, 10),
		"-sim.from", strconv.Itoa(idx), "-sim.tier", tier)
	var plan json.RawMessage
	var runSeed uint64
	for _, line := range strings.Split(out, "\n") {
		if strings.HasPrefix(line, "PLAN ") {
			var d struct {
				RunSeed uint64          `json:"run_seed"`
				Plan    json.RawMessage `json:"plan"`
			}
			if json.Unmarshal([]byte(line[5:]), &d) == nil {
				plan, runSeed = d.Plan, d.RunSeed
			}
		}
	}
	rf := ReplayFile{Property: prop, Rule: v.Rule, Detail: v.Detail, VerifSeed: seed, Idx: idx, RunSeed: runSeed, Tier: tier,
		Toolchain: toolchain(), Crash: log, Plan: plan}
	path := replayPath(prop, seed, idx, v.Rule)
	_ = os.MkdirAll(filepath.Dir(path), 0o755)
	b, _ := json.MarshalIndent(rf, "", " ")
	_ = os.WriteFile(path, b, 0o644)
	return path
}

// minimiseAndWrite shrinks the failing plan with the worker's in-process minimiser and writes the replay file.
func minimiseAndWrite(bin, workDir, prop, tier string, seed uint64, r *RunRecord) string {
	rf := ReplayFile{Property: prop, Rule: r.Result.Violation.Rule, Detail: r.Result.Violation.Detail, VerifSeed: seed, Idx: r.Idx,
		RunSeed: r.RunSeed, Tier: tier, Digest: r.Result.Digest, SchedHash: r.Result.SchedHash, Toolchain: toolchain(), Plan: r.Plan}
	path := replayPath(prop, seed, r.Idx, rf.Rule)
	_ = os.MkdirAll(filepath.Dir(path), 0o755)
	b, _ := json.MarshalIndent(rf, "", " ")
	_ = os.WriteFile(path, b, 0o644)
	// minimise (bounded); the worker rewrites the file on success
	minOut := filepath.Join(workDir, "min.json")
	_ = os.Remove(minOut)
	cmd := exec.Command(bin, "-test.run", "^TestMinimise$", "-test.timeout", "0", "-sim.prop", prop, "-sim.plan", path, "-sim.out", minOut, "-sim.minbudget", "120s")
	cmd.Dir = verifDir
	cmd.Env = os.Environ()
	done := make(chan error, 1)
	var buf bytes.Buffer
	cmd.Stdout, cmd.Stderr = &buf, &buf
	if cmd.Start() == nil {
		go func() { done <- cmd.Wait() }()
		select {
		case <-done:
		case <-time.After(180 * time.Second):
			_ = cmd.Process.Kill()
		}
	}
	if mb, err := os.ReadFile(minOut); err == nil {
		var m struct {
			Plan      json.RawMessage `json:"plan"`
			Tried     int             `json:"tried"`
			Detail    string          `json:"detail"`
			Digest    string          `json:"digest"`
			SchedHash string          `json:"sched_hash"`
		}
		if json.Unmarshal(mb, &m) == nil && m.Plan != nil {
			rf.Plan, rf.Minimised, rf.MinSteps, rf.Detail, rf.Digest, rf.SchedHash = m.Plan, true, m.Tried, m.Detail, m.Digest, m.SchedHash
			b, _ := json.MarshalIndent(rf, "", " ")
			_ = os.WriteFile(path, b, 0o644)
		}
	}
	return path
}

// ---- replay ----------------------------------------------------------------------------------------------------------------

func cmdReplay(args []string) int {
	if len(args) < 1 {
		fatal2("usage: verifctl replay <file>")
	}
	b, err := os.ReadFile(args[0])
	if err != nil {
		fatal2("%v", err)
	}
	var rf ReplayFile
	if err := json.Unmarshal(b, &rf); err != nil {
		fatal2("bad replay file: %v", err)
	}
	workDir := filepath.Join(verifDir, "work", "replay-"+rf.Property)
	bin, _ := build(workDir, false)
	outFile := filepath.Join(workDir, "replay.jsonl")
	abs, _ := filepath.Abs(args[0])
	wo := runWorker(bin, rf.Property, rf.Tier, rf.VerifSeed, rf.Idx, 1, 1, 0, outFile, 120*time.Second, "-sim.plan", abs)
	if wo.crashed {
		sig := crashSignature(wo.crashLog)
		fmt.Printf("replay: process terminated: %s\n", sig)
		if rf.Rule == "process-terminated" {
			fmt.Printf("VIOLATION property=%s replay=%s\n", rf.Property, abs)
			fmt.Printf("  reproduced: %s\n", sig)
			return 1
		}
		fmt.Println(wo.crashLog)
		return 2
	}
	if len(wo.recs) != 1 {
		fatal2("replay produced %d records (%v)", len(wo.recs), wo.exitErr)
	}
	r := wo.recs[0]
	if r.Result.Violation == nil {
		fmt.Printf("replay: no violation (digest %s, recorded %s)\n", r.Result.Digest, rf.Digest)
		return 0
	}
	same := r.Result.Violation.Rule == rf.Rule
	fmt.Printf("VIOLATION property=%s replay=%s\n", rf.Property, abs)
	fmt.Printf("  rule=%s (recorded %s) same_rule=%v digest=%s (recorded %s)\n  %s\n", r.Result.Violation.Rule, rf.Rule, same, r.Result.Digest, rf.Digest, r.Result.Violation.Detail)
	return 1
}

// ---- evidence --------------------------------------------------------------------------------------------------------------

var levelOf = map[string]string{"C10": "fault_enumeration"}

// evidenceRace / evidenceMerge: set by `check --race [--merge]` (C20's second phase)
var evidenceRace, evidenceMerge bool

func writeEvidence(prop, tier string, seed uint64, recs []RunRecord, nViol, aborted int, wall, buildS float64, weaveStats json.RawMessage, known []string, trouble []string, crashes int) {
	level := levelOf[prop]
	if level == "" {
		level = "exploration"
	}
	distinct := map[string]bool{}
	scheds := map[string]bool{}
	shapes := map[string]bool{}
	var steps, simMs, bytesIn, bytesOut, grants, writes, deliveries, preempts, chaos, mapPerms int64
	faults := map[string]int{}
	probes := map[string]int{}
	nontrivialRuns := 0
	for _, r := range recs {
		st := r.Result.Stats
		steps += int64(st.Steps)
		simMs += st.SimMs
		bytesIn += st.BytesIn
		bytesOut += st.BytesOut
		grants += int64(st.Grants)
		writes += int64(st.Writes)
		deliveries += int64(st.Deliveries)
		preempts += int64(st.Preemptions)
		chaos += int64(st.ChaosPicks)
		mapPerms += int64(st.MapPerms)
		for k, v := range st.Faults {
			faults[k] += v
		}
		for k, v := range st.Probes {
			probes[k] += v
		}
		scheds[r.Result.SchedHash] = true
		shapes[r.Shape] = true
		if st.Probes["nontrivial"] > 0 && r.Result.Aborted == "" {
			nontrivialRuns++
			distinct[r.Result.Digest] = true
		}
	}
	var samples []interface{}
	for i := 0; i < len(recs) && len(samples) < 3; i += 1 + len(recs)/3 {
		if recs[i].Brief != nil {
			samples = append(samples, map[string]interface{}{"idx": recs[i].Idx, "run_seed": recs[i].RunSeed, "plan": recs[i].Brief,
				"steps": recs[i].Result.Stats.Steps, "sim_ms": recs[i].Result.Stats.SimMs, "digest": recs[i].Result.Digest})
		}
	}
	if len(samples) == 0 {
		samples = append(samples, "no sample recorded")
	}
	runWall := wall - buildS
	if runWall <= 0 {
		runWall = wall
	}
	var zeroProbes []string
	for k, v := range probes {
		if v == 0 {
			zeroProbes = append(zeroProbes, k)
		}
	}
	sort.Strings(zeroProbes)
	ev := map[string]interface{}{
		"property_id": prop,
		"tier":        tier,
		"seed":        int64(seed & 0x7fffffffffffffff),
		"level":       level,
		"wall_s":      wall,
		"violations":  nViol,
		"coverage": map[string]interface{}{
			"evaluations":         len(recs),
			"distinct_nontrivial": len(distinct),
			"rule": "one evaluation = one simulated run of the real lal server (plan generated from run_seed = mix(VERIF_SEED, index)); " +
				"a run is non-trivial when its check-specific probe 'nontrivial' fired (the property's oracle had something to judge: see DESIGN.md per-property sections); " +
				"distinct = distinct canonical digests (hash of every scheduler action and every byte lal emitted per connection) among non-trivial runs",
			"samples":                samples,
			"nontrivial_runs":        nontrivialRuns,
			"runs_without_verdict":   aborted,
			"distinct_schedules":     len(scheds),
			"distinct_plan_shapes":   len(shapes),
			"runs_per_hour":          float64(len(recs)) / runWall * 3600,
			"seeds_per_hour":         float64(len(recs)) / runWall * 3600,
			"simulated_seconds":      float64(simMs) / 1000,
			"scheduler_steps":        steps,
			"lock_grants":            grants,
			"write_grants":           writes,
			"deliveries":             deliveries,
			"forced_preemptions":     preempts,
			"chaos_picks":            chaos,
			"map_order_permutations": mapPerms,
			"bytes_to_lal":           bytesIn,
			"bytes_from_lal":         bytesOut,
			"faults_fired":           faults,
			"probes":                 probes,
			"worker_crashes":         crashes,
			"known_findings_seen":    known,
			"harness_trouble":        trouble,
			"build_s":                buildS,
			"weave":                  weaveStats,
			"real_components":        realComponents,
			"stub_components":        stubComponents,
			"exhaustive":             false,
		},
		"assumptions": []string{
			"lal is built from /repo's working tree with link seams substituted by build overlay (simweave): net.Listen/Dial, os.Create/Open/MkdirAll/Exit, rand, sync.Mutex Lock/Unlock and range-over-map; everything else is the real code",
			"scheduling is decided by the driver at lock acquisitions, socket deliveries, socket writes and clock advances; code between two such points runs atomically",
			"testing/synctest (go1.26.8) provides the fake clock and quiescence detection",
			"a clean batch is evidence over the sampled runs, not a proof",
		},
	}
	if evidenceRace {
		cov := ev["coverage"].(map[string]interface{})
		cov["mode"] = "parallel-burst under the race detector: locks and socket writes are not scheduling points, every enabled delivery of a step is applied at once and lal's goroutines contend on the real mutexes on all cores; the composition of each burst is seeded, the interleaving inside a burst is the Go scheduler's (replay of a race report is best effort)"
		ev["assumptions"] = append(ev["assumptions"].([]string), "in the -race phase of C20 the simulator deliberately gives up schedule control inside a burst (see coverage.mode); a race report is sound because the detector only reports races it observed")
		if evidenceMerge {
			if pb, err := os.ReadFile(filepath.Join(outDir, "evidence", prop+".json")); err == nil {
				var prev map[string]interface{}
				if json.Unmarshal(pb, &prev) == nil {
					if pc, ok := prev["coverage"].(map[string]interface{}); ok {
						for _, k := range []string{"weave", "real_components", "stub_components"} {
							delete(pc, k)
						}
						pc["mode"] = "lock-aware deterministic: every mutex acquisition, socket write, delivery and accept is a driver decision with forced preemptions"
						cov["lock_aware_phase"] = pc
						cov["parallel_burst_phase_evaluations"] = cov["evaluations"]
						for _, k := range []string{"evaluations", "distinct_nontrivial", "nontrivial_runs"} {
							a, _ := cov[k].(int)
							bf, _ := pc[k].(float64)
							cov[k] = a + int(bf)
						}
						if pv, ok := prev["violations"].(float64); ok {
							ev["violations"] = nViol + int(pv)
						}
						if pw, ok := prev["wall_s"].(float64); ok {
							ev["wall_s"] = wall + pw
						}
					}
				}
			}
		}
	}
	b, _ := json.MarshalIndent(ev, "", " ")
	_ = os.MkdirAll(filepath.Join(outDir, "evidence"), 0o755)
	if err := os.WriteFile(filepath.Join(outDir, "evidence", prop+".json"), b, 0o644); err != nil {
		fatal2("%v", err)
	}
}

var realComponents = []string{
	"lal pkg/logic, rtmp, rtsp, httpflv, httpts, hls, remux, mpegts, rtprtcp, gb28181, sdp, avc, hevc, aac, base (from /repo's working tree)",
	"naza connection (async write queue, deadlines), taskpool, defertaskthread, nazahttp, nazabytes, bele",
	"Go net/http server, time, context (on simulated sockets and the fake clock)",
}
var stubComponents = []string{
	"TCP/UDP stack and kernel socket buffers (simnet)", "HLS file system (simfs behind IFileSystemLayer)", "recordings directory (sandbox redirect)",
	"HTTP notify sink (Option.NotifyHandler recorder)", "peers: publishers, players, origins, API clients (harness actors with independent codecs)",
}

func main() {
	if len(os.Args) < 2 {
		fatal2("usage: verifctl check|replay|selftest ...")
	}
	switch os.Args[1] {
	case "check":
		os.Exit(cmdCheck(os.Args[2:]))
	case "replay":
		os.Exit(cmdReplay(os.Args[2:]))
	case "selftest":
		os.Exit(cmdSelftest(os.Args[2:]))
	case "build":
		bin, _ := build(filepath.Join(verifDir, "work", "manual"), len(os.Args) > 2 && os.Args[2] == "-race")
		fmt.Println(bin)
	default:
		fatal2("unknown command %q", os.Args[1])
	}
}

module simlal

go 1.26.8

require (
	github.com/anishathalye/porcupine v1.3.0
	github.com/q191201771/lal v0.0.0
	github.com/q191201771/naza v0.30.49
)

replace github.com/q191201771/lal => /repo

replace github.com/q191201771/naza => ./third_party/naza

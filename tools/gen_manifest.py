#!/usr/bin/env python3
"""Regenerates /verif/MANIFEST.json from the table below (kept in one place so that claims stay consistent)."""
import json
props=[json.loads(l) for l in open('/verif/properties.jsonl')]
TECH="deterministic simulation with fault injection: real lal in a synctest bubble under a seeded driver (lock grants, socket deliveries/writes, clock), simulated transport/disk, reference-codec oracles, seeded search with minimised JSON replay"
NOTE="Trusted base: testing/synctest of go1.26.8 (fake clock, quiescence), the simweave overlay (lal's net/os/sync.Mutex/map-range/rand call sites redirected; all other code is the real code from /repo's working tree), the harness's independent codecs and oracles. Evidence over sampled seeds and schedules, not a proof."
claimed={
 'C01':('exploration',"Seeded search over simulated runs of the real server (relay family: RTMP publishers incl. re-publishing, RTMP / HTTP-FLV / WS-FLV consumers joining and leaving at seeded instants, GOP-cache / merge-write configurations, seeded lock-grant / delivery / write interleavings and map orders). Per consumer the decoded messages must equal prologue ++ one contiguous run of the publisher's units (byte-identical payload, type, timestamp), complete up to the merge-write slack, no zero-length message, no spurious disconnect.","§7 C01"),
 'C02':('exploration',"Same family with the join instant, header changes, audio-only / video-only shapes and re-publishing as primary dimensions. Oracle: sequence headers in force precede every frame with identical content, metadata before the first frame, first video frame is a key frame, replay equals a reference model of the GOP cache (most recent <= N GOPs, cut at the cap) for some admission point inside the window the event order allows, audio-only streams never hold a consumer back. HTTP-TS / WS-TS and RTSP consumers of the same runs: PAT/PMT before any elementary-stream packet, SDP before any RTP, first video frame a key frame (with parameter sets in TS; RTSP with out_wait_key_frame_flag on).","§7 C02"),
 'C06':('exploration',"RTMP ingest to HTTP-TS / WS-TS consumers and HLS on the simulated disk; an independent MPEG-TS demuxer (PAT/PMT CRC, PES, PTS/DTS, Annex-B, ADTS) recovers frames which must equal the published NAL units / AAC frames in order, exactly once from the consumer's start, with DTS/PTS = 90*(ts[+cts]) minus one constant per track and ADTS consistent with the AudioSpecificConfig. RTSP players (interleaved TCP and simulated UDP, out_wait_key_frame on/off) are depacketised by an independent RFC 6184 / 7798 / 3640 depacketiser: same NAL units (AUD dropped) and AAC frames in order exactly once from the player's start, consecutive sequence numbers, RTP timestamp = ts x clock / 1000 within one tick, SDP codec / parameter sets / AudioSpecificConfig equal to what was published.","§7 C06"),
 'C11':('exploration',"Every HTTP-FLV body, WS-FLV frame sequence and FLV recording produced in relay runs (joins, leaves, resets at any byte, timestamps across 2^24, sizes at the WebSocket 125/126/65535/65536 boundaries) is parsed by an independent FLV / WebSocket parser; recordings are additionally read back with lal's own FlvFileReader and compared tag by tag with the published messages.","§7 C11"),
 'C16':('exploration',"Relay family with every output on (HLS on simfs, FLV+TS recording, stream hook), inputs ending by FIN / RST / kick / idle timeout (simulated 245 s) / Dispose, repeated re-publishing with changing codecs. Oracles: hook stopped exactly once per input, recordings closed and complete (pending audio flushed), last live playlist finalised and every created segment listed, a later publisher's consumers receive nothing attributable to a predecessor, empty groups disappear from the stat API, sockets / file handles / goroutines return to baseline.","§7 C16"),
}
extra_note={'C06':" Scope: G.711 over RTSP is exercised by the component check C12 and by C07's ingest, not by this relay check (its publishers send AAC)."}
na={'C09':'pure function of its arguments (Frame.Pack / PackPat / PackPmt): no schedule, clock, fault or interleaving to simulate; see DESIGN.md §8 (its content is exercised incidentally by the TS demuxer of C06/C10/C16)',
    'C18':'pure function of a byte slice (AMF0 codec): not a simulation target; see DESIGN.md §8',
    'C19':'pure conversions between byte representations (sequence headers, SDP, SPS): not a simulation target; see DESIGN.md §8'}
import os
try:
    exec(open('/verif/tools/manifest_extra.py').read())
except FileNotFoundError:
    pass
checks=[]
for pid in sorted(claimed):
    lvl,text,ref=claimed[pid]
    checks.append({"property_id":pid,"quick_cmd":f"./check.sh {pid} quick","thorough_cmd":f"./check.sh {pid} thorough","evidence_file":f"/verif/evidence/{pid}.json",
      "replay_cmd_template":"./bin/verifctl replay {path}","engine":"simlal","level_claimed":{"category":lvl,"text":text,"design_ref":ref},
      "level_note":NOTE+extra_note.get(pid,""),"technique":TECH})
notapp=[]
for p in props:
    if p['id'] in claimed: continue
    reason=na.get(p['id'],'not claimed yet: the simulation check for this property is still being built (DESIGN.md §11 build order); no verdict is given for it')
    notapp.append({"property_id":p['id'],"reason":reason})
m={"version":1,"setup_cmd":"./setup.sh",
   "hooks":{"guard":"none in /repo: link seams are substituted at build time by a source overlay generated by /verif/tools/simweave (go build -overlay); /repo carries no hook code",
            "enable":"verifctl runs simweave on /repo's working tree and builds ./simtest with `go1.26.8 test -c -overlay <generated overlay.json>`",
            "baseline_off_cmd":"cd /repo && go test -vet=off -count=1 -timeout 25m ./...","source_commits":[],"add_only":True},
   "engines":[{"name":"simlal","path":"/verif/sim","serves_properties":sorted(claimed),"kind_free_text":"deterministic simulation kernel (synctest bubble + seeded driver), simulated TCP transport and disk, reference RTMP/FLV/HTTP/WebSocket/MPEG-TS codecs, scenario plans with minimiser and JSON replay"}],
   "checks":checks,"not_applicable":notapp,
   "notes":"Exit codes of every check: 0 held on everything explored (KNOWN-FINDING lines for listed, unrepaired defects), 1 VIOLATION (with replay file), 2 harness/build/watchdog trouble (never a verdict). Genuine defects found are listed in known_findings.json (fixed: repaired by a fix: commit in /repo; known: recorded)."}
json.dump(m,open('/verif/MANIFEST.json','w'),indent=1)
print("claimed:",sorted(claimed))

// simweave: type-driven source rewriter that turns lal's direct uses of the
// network, file system, mutexes, map iteration, randomness and os.Exit into
// link seams of the overlay-added package lal/pkg/zzsim.
//
// It never modifies /repo: rewritten copies and an overlay.json are written to
// -out, and `go build -overlay` substitutes them at build time.
//
// Exit status: 0 ok, 2 on any load / type / rewrite problem (never 1).
package main

import (
	"bytes"
	"encoding/json"
	"flag"
	"fmt"
	"go/ast"
	"go/format"
	"go/token"
	"go/types"
	"os"
	"os/exec"
	"path/filepath"
	"sort"
	"strconv"
	"strings"

	"golang.org/x/tools/go/ast/astutil"
	"golang.org/x/tools/go/packages"
)

const lalMod = "github.com/q191201771/lal"
const zzsimPath = lalMod + "/pkg/zzsim"

type stats struct {
	Packages   int            `json:"packages"`
	Files      int            `json:"files_rewritten"`
	Rewrites   map[string]int `json:"rewrites"`
	MapKeys    map[string]int `json:"map_range_key_types"`
	Mutexes    []string       `json:"mutex_sites"`
	GoStmts    int            `json:"go_statements"`
	Shims      []string       `json:"shims"`
	ModOverlay []string       `json:"mod_overlay"`
	Unhandled  []string       `json:"unhandled"`
}

func die(format string, a ...interface{}) {
	fmt.Fprintf(os.Stderr, "simweave: "+format+"\n", a...)
	os.Exit(2)
}

func main() {
	repo := flag.String("repo", "/repo", "lal working tree")
	zz := flag.String("zzsim", "", "directory with the zzsim package sources")
	shims := flag.String("shims", "", "directory with export shims: <pkg>/zz_*.go")
	modov := flag.String("modoverlay", "", "directory mirroring the module cache: files here replace the same relative path under GOMODCACHE")
	out := flag.String("out", "", "output directory (scratch)")
	flag.Parse()
	if *out == "" || *zz == "" {
		die("need -out and -zzsim")
	}
	if err := os.MkdirAll(*out, 0o755); err != nil {
		die("%v", err)
	}
	st := &stats{Rewrites: map[string]int{}, MapKeys: map[string]int{}}

	cfg := &packages.Config{
		Mode: packages.NeedName | packages.NeedFiles | packages.NeedCompiledGoFiles | packages.NeedSyntax |
			packages.NeedTypes | packages.NeedTypesInfo | packages.NeedImports | packages.NeedDeps,
		Dir:   *repo,
		Tests: false,
		Env:   append(os.Environ(), "GOFLAGS=-mod=mod", "GOPROXY=off", "GOSUMDB=off"),
	}
	pkgs, err := packages.Load(cfg, "./pkg/...")
	if err != nil {
		die("load: %v", err)
	}
	overlay := map[string]string{}
	for _, p := range pkgs {
		if len(p.Errors) > 0 {
			for _, e := range p.Errors {
				fmt.Fprintf(os.Stderr, "simweave: %s: %v\n", p.PkgPath, e)
			}
			die("package %s does not type-check", p.PkgPath)
		}
		if strings.HasSuffix(p.PkgPath, "/innertest") || strings.HasSuffix(p.PkgPath, "/zzsim") {
			continue
		}
		st.Packages++
		for i, f := range p.Syntax {
			fname := p.CompiledGoFiles[i]
			if !strings.HasPrefix(fname, *repo+"/") {
				continue
			}
			w := &weaver{pkg: p, file: f, fset: p.Fset, st: st}
			changed := w.run()
			if !changed {
				continue
			}
			// drop ordinary comments (new nodes carry no positions, so the printer would misplace
			// them); keep directives and build constraints.
			var kept []*ast.CommentGroup
			for _, cg := range f.Comments {
				for _, cm := range cg.List {
					if strings.HasPrefix(cm.Text, "//go:") || strings.HasPrefix(cm.Text, "// +build") {
						kept = append(kept, cg)
						break
					}
				}
			}
			f.Comments = kept
			var buf bytes.Buffer
			if err := format.Node(&buf, p.Fset, f); err != nil {
				die("format %s: %v", fname, err)
			}
			rel := strings.TrimPrefix(fname, *repo+"/")
			dst := filepath.Join(*out, "src", rel)
			if err := os.MkdirAll(filepath.Dir(dst), 0o755); err != nil {
				die("%v", err)
			}
			if err := os.WriteFile(dst, buf.Bytes(), 0o644); err != nil {
				die("%v", err)
			}
			overlay[fname] = dst
			st.Files++
		}
	}
	// zzsim package added under lal's import path.
	zfiles, _ := filepath.Glob(filepath.Join(*zz, "*.go"))
	if len(zfiles) == 0 {
		die("no zzsim sources in %s", *zz)
	}
	for _, zf := range zfiles {
		if strings.HasSuffix(zf, "_test.go") {
			continue
		}
		abs, _ := filepath.Abs(zf)
		overlay[filepath.Join(*repo, "pkg", "zzsim", filepath.Base(zf))] = abs
	}
	// export shims: shims/<pkgdir>/zz_xxx.go -> /repo/pkg/<pkgdir>/zz_xxx.go
	if *shims != "" {
		sfiles, _ := filepath.Glob(filepath.Join(*shims, "*", "*.go"))
		sort.Strings(sfiles)
		for _, sf := range sfiles {
			abs, _ := filepath.Abs(sf)
			pkgdir := filepath.Base(filepath.Dir(sf))
			if _, err := os.Stat(filepath.Join(*repo, "pkg", pkgdir)); err != nil {
				continue // package vanished in a mutated tree: skip shim, harness build will tell
			}
			overlay[filepath.Join(*repo, "pkg", pkgdir, filepath.Base(sf))] = abs
			st.Shims = append(st.Shims, pkgdir+"/"+filepath.Base(sf))
		}
	}
	if *modov != "" {
		mc, err := exec.Command("go", "env", "GOMODCACHE").Output()
		if err != nil {
			die("go env GOMODCACHE: %v", err)
		}
		modcache := strings.TrimSpace(string(mc))
		root, _ := filepath.Abs(*modov)
		_ = filepath.Walk(root, func(p string, fi os.FileInfo, err error) error {
			if err != nil || fi.IsDir() || !strings.HasSuffix(p, ".go") {
				return nil
			}
			rel := strings.TrimPrefix(p, root+"/")
			if _, err := os.Stat(filepath.Dir(filepath.Join(modcache, rel))); err != nil {
				die("modoverlay: %s has no counterpart in the module cache", rel)
			}
			overlay[filepath.Join(modcache, rel)] = p
			st.ModOverlay = append(st.ModOverlay, rel)
			return nil
		})
	}
	ob, _ := json.MarshalIndent(map[string]interface{}{"Replace": overlay}, "", " ")
	if err := os.WriteFile(filepath.Join(*out, "overlay.json"), ob, 0o644); err != nil {
		die("%v", err)
	}
	sort.Strings(st.Mutexes)
	sb, _ := json.MarshalIndent(st, "", " ")
	_ = os.WriteFile(filepath.Join(*out, "weave_stats.json"), sb, 0o644)
	if len(st.Unhandled) > 0 {
		for _, u := range st.Unhandled {
			fmt.Fprintf(os.Stderr, "simweave: unhandled: %s\n", u)
		}
		die("%d constructs could not be woven", len(st.Unhandled))
	}
}

type weaver struct {
	pkg     *packages.Package
	file    *ast.File
	fset    *token.FileSet
	st      *stats
	changed bool
	fn      string // enclosing function name for lock sites
	nmap    int

	needNazanet bool
	usesZz      bool
}

func (w *weaver) pos(n ast.Node) string {
	p := w.fset.Position(n.Pos())
	return fmt.Sprintf("%s:%d", filepath.Base(p.Filename), p.Line)
}

func (w *weaver) zz(name string) ast.Expr {
	w.changed = true
	w.usesZz = true
	return &ast.SelectorExpr{X: ast.NewIdent("zzsim"), Sel: ast.NewIdent(name)}
}

// pkgFunc reports whether e is a reference pkgpath.Name to a package-level func.
func (w *weaver) pkgFunc(e ast.Expr) (pkgPath, name string, ok bool) {
	sel, isSel := e.(*ast.SelectorExpr)
	if !isSel {
		return
	}
	obj := w.pkg.TypesInfo.Uses[sel.Sel]
	fn, isFn := obj.(*types.Func)
	if !isFn || fn.Pkg() == nil {
		return
	}
	if sig, _ := fn.Type().(*types.Signature); sig == nil || sig.Recv() != nil {
		return
	}
	if _, isPkg := w.pkg.TypesInfo.Uses[identOf(sel.X)].(*types.PkgName); !isPkg {
		return
	}
	return fn.Pkg().Path(), fn.Name(), true
}

func identOf(e ast.Expr) *ast.Ident {
	id, _ := e.(*ast.Ident)
	if id == nil {
		return ast.NewIdent("_")
	}
	return id
}

var funcSeams = map[string]string{
	"net.Listen":            "NetListen",
	"net.Dial":              "NetDial",
	"net.DialTimeout":       "NetDialTimeout",
	"crypto/tls.Dial":       "TlsDial",
	"crypto/tls.Listen":     "TlsListen",
	"os.Create":             "OsCreate",
	"os.Open":               "OsOpen",
	"os.MkdirAll":           "OsMkdirAll",
	"os.OpenFile":           "OsOpenFile",
	"os.Remove":             "OsRemove",
	"os.RemoveAll":          "OsRemoveAll",
	"os.Rename":             "OsRename",
	"os.WriteFile":          "OsWriteFile",
	"os.ReadFile":           "OsReadFile",
	"os.Stat":               "OsStat",
	"os.Mkdir":              "OsMkdir",
	"os.Exit":               "OsExit",
	"crypto/rand.Read":      "RandRead",
	"math/rand.Int":         "RandInt",
	"math/rand.Uint32":      "RandUint32",
	"math/rand.Seed":        "RandSeed",
	"math/rand.Intn":        "RandIntn",
	"math/rand.Int63":       "RandInt63",
	"math/rand.Int31":       "RandInt31",
	"math/rand.Uint64":      "RandUint64",
	"math/rand.Float64":     "RandFloat64",
	"math/rand.Read":        "RandRead",
	"math/rand.Int31n":      "RandInt31n",
	"math/rand.Int63n":      "RandInt63n",
	"math/rand.Perm":        "RandPerm",
	"math/rand.Shuffle":     "RandShuffle",
	"math/rand.Float32":     "RandFloat32",
	"math/rand.NormFloat64": "RandNormFloat64",
}

// mutexMethod: is call a method call X.Lock()/Unlock()/RLock()/RUnlock()/TryLock on sync.Mutex / sync.RWMutex?
func (w *weaver) mutexMethod(call *ast.CallExpr) (recv ast.Expr, method string, rw bool, ok bool) {
	sel, isSel := call.Fun.(*ast.SelectorExpr)
	if !isSel {
		return
	}
	s := w.pkg.TypesInfo.Selections[sel]
	if s == nil || s.Kind() != types.MethodVal {
		return
	}
	fn, _ := s.Obj().(*types.Func)
	if fn == nil || fn.Pkg() == nil || fn.Pkg().Path() != "sync" {
		return
	}
	sig := fn.Type().(*types.Signature)
	rt := sig.Recv().Type()
	if p, isPtr := rt.(*types.Pointer); isPtr {
		rt = p.Elem()
	}
	named, _ := rt.(*types.Named)
	if named == nil {
		return
	}
	switch named.Obj().Name() {
	case "Mutex":
	case "RWMutex":
		rw = true
	case "Once":
		if fn.Name() != "Do" {
			return
		}
	default:
		return
	}
	switch fn.Name() {
	case "Lock", "Unlock", "RLock", "RUnlock", "Do":
	default:
		w.st.Unhandled = append(w.st.Unhandled, fmt.Sprintf("%s: sync.%s.%s", w.pos(call), named.Obj().Name(), fn.Name()))
		return
	}
	// Build the receiver expression: address of the mutex value.
	x := sel.X
	// Walk implicit embedded fields.
	idx := s.Index()
	t := w.pkg.TypesInfo.TypeOf(x)
	for i := 0; i < len(idx)-1; i++ {
		st := derefStruct(t)
		if st == nil {
			w.st.Unhandled = append(w.st.Unhandled, fmt.Sprintf("%s: embedded mutex path", w.pos(call)))
			return
		}
		f := st.Field(idx[i])
		x = &ast.SelectorExpr{X: x, Sel: ast.NewIdent(f.Name())}
		t = f.Type()
	}
	if _, isPtr := t.Underlying().(*types.Pointer); isPtr {
		recv = x
	} else {
		recv = &ast.UnaryExpr{Op: token.AND, X: x}
	}
	return recv, fn.Name(), rw, true
}

func derefStruct(t types.Type) *types.Struct {
	if p, ok := t.Underlying().(*types.Pointer); ok {
		t = p.Elem()
	}
	s, _ := t.Underlying().(*types.Struct)
	return s
}

func (w *weaver) site(n ast.Node) string {
	return w.pkg.Name + "." + w.fn + "@" + w.pos(n)
}

func (w *weaver) rewriteCall(call *ast.CallExpr) {
	recv, method, rw, ok := w.mutexMethod(call)
	if !ok {
		return
	}
	if method == "Do" {
		// sync.Once.Do: callers that lose the race block on the Once's internal mutex, which the simulator cannot see;
		// serialise them cooperatively instead (the winner may park inside f)
		w.st.Rewrites["once:Do"]++
		call.Args = []ast.Expr{recv, call.Args[0], &ast.BasicLit{Kind: token.STRING, Value: strconv.Quote(w.site(call))}}
		call.Fun = w.zz("OnceDo")
		return
	}
	name := method
	if rw {
		name = "RW" + method
	}
	w.st.Rewrites["lock:"+name]++
	if method == "Lock" || method == "RLock" {
		site := w.site(call)
		w.st.Mutexes = append(w.st.Mutexes, site)
		call.Fun = w.zz(name)
		call.Args = []ast.Expr{recv, &ast.BasicLit{Kind: token.STRING, Value: strconv.Quote(site)}}
	} else {
		call.Fun = w.zz(name)
		call.Args = []ast.Expr{recv}
	}
}

func (w *weaver) run() bool {
	// function seams + mutex calls
	astutil.Apply(w.file, func(c *astutil.Cursor) bool {
		switch n := c.Node().(type) {
		case *ast.FuncDecl:
			w.fn = n.Name.Name
			if n.Recv != nil && len(n.Recv.List) == 1 {
				w.fn = "(" + types.ExprString(n.Recv.List[0].Type) + ")." + n.Name.Name
			}
		case *ast.GoStmt:
			w.st.GoStmts++
		case *ast.CallExpr:
			w.rewriteCall(n)
		case *ast.SelectorExpr:
			// the concrete type net.UDPConn -> nazanet.ZzUDPConn (naza's nazanet is overlaid with a copy whose
			// sockets go to the simulator; see /verif/modoverlay)
			if tn, isTn := w.pkg.TypesInfo.Uses[n.Sel].(*types.TypeName); isTn && tn.Pkg() != nil && tn.Pkg().Path() == "net" && tn.Name() == "UDPConn" {
				if _, isPkg := w.pkg.TypesInfo.Uses[identOf(n.X)].(*types.PkgName); isPkg {
					w.st.Rewrites["type:net.UDPConn"]++
					w.changed = true
					w.needNazanet = true
					c.Replace(&ast.SelectorExpr{X: ast.NewIdent("zznazanet"), Sel: ast.NewIdent("ZzUDPConn")})
					return false
				}
			}
			if pp, name, ok := w.pkgFunc(n); ok {
				if seam, has := funcSeams[pp+"."+name]; has {
					w.st.Rewrites["func:"+pp+"."+name]++
					c.Replace(w.zz(seam))
					return false
				}
				if pp == "math/rand" || pp == "crypto/rand" {
					if _, isNew := map[string]bool{"New": true, "NewSource": true}[name]; !isNew {
						w.st.Unhandled = append(w.st.Unhandled, fmt.Sprintf("%s: %s.%s", w.pos(n), pp, name))
					}
				}
			}
		}
		return true
	}, nil)

	// range over map
	astutil.Apply(w.file, func(c *astutil.Cursor) bool {
		if fd, ok := c.Node().(*ast.FuncDecl); ok {
			w.fn = fd.Name.Name
		}
		return true
	}, func(c *astutil.Cursor) bool {
		rs, ok := c.Node().(*ast.RangeStmt)
		if !ok {
			return true
		}
		t := w.pkg.TypesInfo.TypeOf(rs.X)
		if t == nil {
			w.st.Unhandled = append(w.st.Unhandled, fmt.Sprintf("%s: untyped range", w.pos(rs)))
			return true
		}
		mt, isMap := t.Underlying().(*types.Map)
		if !isMap {
			return true
		}
		w.st.MapKeys[mt.Key().String()]++
		w.st.Rewrites["maprange"]++
		w.rewriteRange(c, rs)
		return true
	})

	if w.changed {
		if w.usesZz {
			astutil.AddImport(w.fset, w.file, zzsimPath)
		}
		if w.needNazanet {
			astutil.AddNamedImport(w.fset, w.file, "zznazanet", "github.com/q191201771/naza/pkg/nazanet")
		}
		// imports that the rewrites made unused
		for _, path := range []string{"net", "os", "crypto/tls", "math/rand", "crypto/rand", "sync"} {
			if !astutil.UsesImport(w.file, path) {
				for _, im := range w.file.Imports {
					if im.Path.Value == strconv.Quote(path) && (im.Name == nil || (im.Name.Name != "_" && im.Name.Name != ".")) {
						name := ""
						if im.Name != nil {
							name = im.Name.Name
						}
						astutil.DeleteNamedImport(w.fset, w.file, name, path)
						break
					}
				}
			}
		}
	}
	return w.changed
}

func isBlank(e ast.Expr) bool {
	if e == nil {
		return true
	}
	id, ok := e.(*ast.Ident)
	return ok && id.Name == "_"
}

// rewriteRange turns `for k, v := range m { body }` into
//
//	{ zzmN := m; for _, k := range zzsim.Keys(zzmN, site) { v, zzokN := zzmN[k]; if !zzokN { continue }; body } }
func (w *weaver) rewriteRange(c *astutil.Cursor, rs *ast.RangeStmt) {
	w.nmap++
	n := strconv.Itoa(w.nmap)
	site := w.pkg.Name + "@" + w.pos(rs)
	mvar := ast.NewIdent("zzm" + n)
	okvar := ast.NewIdent("zzok" + n)
	assignM := &ast.AssignStmt{Lhs: []ast.Expr{mvar}, Tok: token.DEFINE, Rhs: []ast.Expr{rs.X}}
	keysCall := &ast.CallExpr{Fun: w.zz("Keys"), Args: []ast.Expr{ast.NewIdent(mvar.Name), &ast.BasicLit{Kind: token.STRING, Value: strconv.Quote(site)}}}

	if rs.Tok == token.ASSIGN && (!isBlank(rs.Key) || !isBlank(rs.Value)) {
		w.st.Unhandled = append(w.st.Unhandled, fmt.Sprintf("%s: range-over-map with '=' assignment", w.pos(rs)))
		return
	}
	var keyExpr ast.Expr = ast.NewIdent("zzk" + n)
	if !isBlank(rs.Key) {
		keyExpr = rs.Key
	}
	keyIdent := keyExpr.(*ast.Ident)
	var valLhs ast.Expr = ast.NewIdent("_")
	if !isBlank(rs.Value) {
		valLhs = rs.Value
	}
	lookup := &ast.AssignStmt{
		Lhs: []ast.Expr{valLhs, okvar},
		Tok: token.DEFINE,
		Rhs: []ast.Expr{&ast.IndexExpr{X: ast.NewIdent(mvar.Name), Index: ast.NewIdent(keyIdent.Name)}},
	}
	guard := &ast.IfStmt{
		Cond: &ast.UnaryExpr{Op: token.NOT, X: ast.NewIdent(okvar.Name)},
		Body: &ast.BlockStmt{List: []ast.Stmt{&ast.BranchStmt{Tok: token.CONTINUE}}},
	}
	body := &ast.BlockStmt{List: append([]ast.Stmt{lookup, guard}, rs.Body.List...)}
	newRange := &ast.RangeStmt{
		Key:   ast.NewIdent("_"),
		Value: ast.NewIdent(keyIdent.Name),
		Tok:   token.DEFINE,
		X:     keysCall,
		Body:  body,
	}
	// If the key is unused in the original (blank), silence "declared and not used" is not an issue:
	// the key is used by the lookup.
	var stmt ast.Stmt = &ast.BlockStmt{List: []ast.Stmt{assignM, newRange}}
	// A labeled range statement must stay a loop for `continue label`/`break label`:
	if _, isLabeled := c.Parent().(*ast.LabeledStmt); isLabeled {
		w.st.Unhandled = append(w.st.Unhandled, fmt.Sprintf("%s: labeled range-over-map", w.pos(rs)))
		return
	}
	c.Replace(stmt)
	w.changed = true
}

#!/usr/bin/env python3
"""Rewrites DESIGN.md section 12.6 (header + catch matrix) from seeded/*/meta.json."""
import glob, json, re
ROOT='/verif'
rows=[]
for f in sorted(glob.glob(f'{ROOT}/seeded/*/meta.json')):
    m=json.load(open(f)); rows.append(m)
def cell(m):
    c=m.get('caught_by',[])
    if not c: return '**not caught**'
    return '; '.join(f"{x['check']} {x['tier']}: {', '.join(x['rules'][:3])}" + (f" ({x['note']})" if x.get('note') else '') for x in c)
n=len(rows)
own=sum(1 for m in rows if any(x['check']==m['property'] and x['tier']=='quick' for x in m.get('caught_by',[])))
other=[m['id'] for m in rows if m.get('caught_by') and not any(x['check']==m['property'] and x['tier']=='quick' for x in m['caught_by'])]
none=[m['id'] for m in rows if not m.get('caught_by')]
waves={}
for m in rows: waves[m['wave']]=waves.get(m['wave'],0)+1
hdr=f"""### 12.6 Seeded changes: which check catches which deliberately broken lal

{n} changes, each produced by a fresh sub-agent that was given only the text of one property and a scratch git worktree of /repo
(nothing from /verif), in five waves ({', '.join(f'w{w}: {c}' for w,c in sorted(waves.items()))}; later waves were told what had already been tried). Every change compiles, leaves the
153 existing tests passing (re-confirmed on the final /repo HEAD by `work/mut/confirm_all.sh` / `confirm_w45.sh`: apply, `go build ./...`,
`go test ./...`), and comes with the agent's demonstration (usually a small Go test that fails with the patch and passes without it).
They are kept under `/verif/seeded/<id>/{{patch.diff, demonstration.md, meta.json}}`; `meta.json` records which check and rules caught
the change. Each was screened in a scratch worktree (`VERIF_REPO=<worktree> verifctl check <ID> --tier quick`, i.e. the same build
from source, the same 50 s quick budget and VERIF_SEED=1 as the registered command; C20 with both phases), never in /repo; waves 1-3
were screened again at the very end against the final checks (`work/mut/screen_seeded.sh`).

Result of the final screening: **{own} of {n} are reported as a VIOLATION of the property they were aimed at by that property's own quick
check**; {len(other)} more are reported by a neighbouring property's check or by the thorough tier only ({', '.join(other)}: the table says
which and why); not reported: {', '.join(none) if none else 'none'} (C03-w1-2 became moot: the behaviour it re-introduces was itself a
defect of lal that was repaired meanwhile, fix 954311a).

This figure is the end of a loop, not a first-shot score. At first screening 15 of the 45 first-wave changes, 10 of the 36 second-wave,
17 of the 51 third-wave, 24 of the 51 fourth-wave and 13 of the 51 fifth-wave changes slipped through (for the fifth wave eight
generators had already been extended after reading the agents' summaries and before screening, so its first-shot figure flatters).
Every miss was traced to its cause and the *check* was strengthened (never the change weakened): generators that never produced the
exposing input (boundary chunk-stream ids listed but never drawn; hostile AMF values only at top level; no AUD / SEI / in-band
parameter sets in published frames; no Opus / G.711 in C06; no relay-pull ingest; no re-adds to the black list; no kick of pull
sessions; no RTSP publisher in push scenarios; no 1..5-byte video messages; no slow push targets; no B-frames; no HLS sub-session
mode; no playlist URL in its second form; no unparseable credentials; no Transport keys without values; no prefixes of enhanced-RTMP
headers; no well-known metadata keys with wrongly typed values; no republish while a push is still connecting; no RTSP relay pulls
in C03), oracles that looked at the wrong instant (request answered vs. request sent; the state of a stalled player after the
harness had drained it instead of before), legs that did not exist yet (GB28181 and customize ingest for C07, tag reader under
short reads for C11, PES_packet_length in the reference demuxer, TS attribution in C16), scheduling points that were missing (a
yield right after a mutex release, a park before a message is queued, a slow notify handler, handlers aligned with the tickers in
the race phase). Several of those extensions then found genuine defects in the unchanged lal (12.3, entries 47-61). What the loop
cannot show is how many further changes would slip through now: every wave so far found blind spots, so a sixth would find more.

| id | change (files) | caught by (check tier: rules) |
|----|----------------|-------------------------------|
"""
tab=''
for m in rows:
    files=', '.join(m.get('files',[]))
    title=m.get('title','')
    t=f"{title} ({files})"
    if len(t)>150: t=t[:147]+'...'
    tab+=f"| {m['id']} | {t} | {cell(m)} |\n"
p=f'{ROOT}/DESIGN.md'
s=open(p).read()
i=s.index('### 12.6 Seeded changes')
open(p,'w').write(s[:i]+hdr+tab)
print(n, own, other, none)

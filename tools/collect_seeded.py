#!/usr/bin/env python3
"""(Historical: the agents' output directories under /tmp were removed at the end of the session; seeded/*/meta.json is now
the source of truth and tools/update_matrix.py regenerates DESIGN.md 12.6 from it.)

Collect the confirmed seeded changes into /verif/seeded/<id>/{patch.diff,demonstration.md,meta.json}
and print the catch matrix (markdown) for DESIGN.md 12.6.

Inputs: the sub-agents' output directories /tmp/mut{,2,3,4,5}-<PROP>-out/<k>/ and the screening tables
work/mut/results_final3.tsv, results_w4.tsv, results_w5.tsv (wave, property, k, viol=N, rules, summary) plus work/mut/extra_catches.tsv
(wave, property, k, check, rules, note) for changes caught by another property's check or tier.
"""
import glob, json, os, shutil, sys, re

ROOT = '/verif'
res = {}
for tsv in ('results_final3.tsv', 'results_final4.tsv', 'results_w4.tsv', 'results_w5.tsv'):
    if not os.path.exists(f'{ROOT}/work/mut/{tsv}'):
        continue
    for line in open(f'{ROOT}/work/mut/{tsv}'):
        f = line.rstrip('\n').split('\t')
        if len(f) < 5:
            continue
        res[(f[0], f[1], f[2])] = (f[3], f[4].strip(','), f[5] if len(f) > 5 else '')
extra = {}
p = f'{ROOT}/work/mut/extra_catches.tsv'
if os.path.exists(p):
    for line in open(p):
        f = line.rstrip('\n').split('\t')
        if len(f) >= 5:
            extra.setdefault((f[0], f[1], f[2]), []).append((f[3], f[4], f[5] if len(f) > 5 else ''))

wave_no = {'mut': 1, 'mut2': 2, 'mut3': 3, 'mut4': 4, 'mut5': 5}
rows = []
os.makedirs(f'{ROOT}/seeded', exist_ok=True)
for d in sorted(glob.glob('/tmp/mut*-C??-out/[0-9]*')):
    m = re.match(r'/tmp/(mut[2345]?)-(C\d\d)-out/(\d+)$', d)
    if not m or not os.path.exists(f'{d}/patch.diff') or not os.path.exists(f'{d}/meta.json'):
        continue
    w, prop, k = m.groups()
    sid = f'{prop}-w{wave_no[w]}-{k}'
    meta = json.load(open(f'{d}/meta.json'))
    r = res.get((w, prop, k))
    caught = []
    if r and r[0] != 'viol=0' and r[0].startswith('viol='):
        caught.append({'check': prop, 'tier': 'quick', 'rules': r[1].split(',')})
    for (chk, rules, note) in extra.get((w, prop, k), []):
        caught.append({'check': chk.split(':')[0], 'tier': (chk.split(':') + ['quick'])[1], 'rules': rules.split(','), 'note': note})
    out = f'{ROOT}/seeded/{sid}'
    os.makedirs(out, exist_ok=True)
    shutil.copy(f'{d}/patch.diff', f'{out}/patch.diff')
    demo = ''
    if os.path.exists(f'{d}/demonstration.md'):
        demo = open(f'{d}/demonstration.md').read()
    if os.path.exists(f'{d}/demonstration_test.go.txt'):
        demo += '\n\n## demonstration_test.go\n\n```go\n' + open(f'{d}/demonstration_test.go.txt').read() + '\n```\n'
    open(f'{out}/demonstration.md', 'w').write(demo)
    meta.update({'id': sid, 'wave': wave_no[w], 'source': 'fresh sub-agent given only the property text and a scratch worktree',
                 'applies_to': 'the /repo HEAD at the time of screening (git -C /repo apply patch.diff)',
                 'caught_by': caught, 'caught': bool(caught)})
    json.dump(meta, open(f'{out}/meta.json', 'w'), indent=1, ensure_ascii=False)
    rows.append((sid, meta.get('title', ''), ', '.join(meta.get('files', [])), caught))

print('| id | change | caught by |')
print('|----|--------|-----------|')
for sid, title, files, caught in rows:
    if caught:
        c = '; '.join(f"{x['check']} {x['tier']}: {', '.join(x['rules'][:3])}" + (f" ({x['note']})" if x.get('note') else '') for x in caught)
    else:
        c = '**not caught**'
    print(f'| {sid} | {title} ({files}) | {c} |')
n = len(rows)
nc = sum(1 for r in rows if r[3])
print(f'\n{nc} of {n} caught', file=sys.stderr)

package simtest

import (
	"bufio"
	"encoding/json"
	"flag"
	"fmt"
	"os"
	"runtime"
	"runtime/debug"
	"testing"
	"time"

	"simlal/sim"
	"simlal/sim/scen"
)

var (
	fProp   = flag.String("sim.prop", "", "property id")
	fSeed   = flag.Uint64("sim.seed", 1, "VERIF_SEED")
	fFrom   = flag.Int("sim.from", 0, "first run index")
	fN      = flag.Int("sim.n", 1, "number of runs")
	fTier   = flag.String("sim.tier", "quick", "tier")
	fOut    = flag.String("sim.out", "", "result file (JSON lines)")
	fPlan   = flag.String("sim.plan", "", "execute this plan file instead of generating")
	fTrace  = flag.Bool("sim.trace", false, "record the action trace")
	fBudget = flag.Duration("sim.budget", 0, "stop starting new runs after this wall time")
	fStride = flag.Int("sim.stride", 1, "run index stride (index = from + i*stride)")
)

// RunRecord is one line of the worker's result file.
type RunRecord struct {
	Prop    string          `json:"prop"`
	Idx     int             `json:"idx"`
	RunSeed uint64          `json:"run_seed"`
	Result  sim.Result      `json:"result"`
	Shape   string          `json:"shape"`
	Plan    json.RawMessage `json:"plan,omitempty"`
	Brief   json.RawMessage `json:"brief,omitempty"`
	WallMs  float64         `json:"wall_ms"`
}

func TestWorker(t *testing.T) {
	if *fProp == "" {
		t.Skip("no -sim.prop")
	}
	// Goroutine stacks are capped at the Go default of 32-bit platforms (lal ships for ARM boards too): recursion
	// that is unbounded in its input then overflows within the message sizes the quick tier can afford.
	debug.SetMaxStack(250 << 20)
	chk := scen.Checks[*fProp]
	if chk == nil {
		fmt.Fprintf(os.Stderr, "unknown property %s\n", *fProp)
		os.Exit(2)
	}
	var out *bufio.Writer
	if *fOut != "" {
		f, err := os.Create(*fOut)
		if err != nil {
			fmt.Fprintln(os.Stderr, err)
			os.Exit(2)
		}
		defer f.Close()
		out = bufio.NewWriter(f)
		defer out.Flush()
	}
	start := time.Now()
	for i := 0; i < *fN; i++ {
		if *fBudget > 0 && time.Since(start) > *fBudget {
			break
		}
		idx := *fFrom + i**fStride
		runSeed := sim.Mix(*fSeed, uint64(idx)+0x1000)
		var plan json.RawMessage
		if *fPlan != "" {
			b, err := os.ReadFile(*fPlan)
			if err != nil {
				fmt.Fprintln(os.Stderr, err)
				os.Exit(2)
			}
			var rf struct {
				RunSeed uint64          `json:"run_seed"`
				Plan    json.RawMessage `json:"plan"`
			}
			if err := json.Unmarshal(b, &rf); err != nil || rf.Plan == nil {
				fmt.Fprintf(os.Stderr, "bad plan file: %v\n", err)
				os.Exit(2)
			}
			plan = rf.Plan
			runSeed = rf.RunSeed
		} else {
			plan = chk.Gen(sim.NewRng(runSeed), *fTier)
		}
		// announce before running so that a crash is attributable
		fmt.Printf("RUN prop=%s seed=%d idx=%d run_seed=%d\n", *fProp, *fSeed, idx, runSeed)
		os.Stdout.Sync()
		t0 := time.Now()
		sp := chk.Sched(plan)
		res := sim.RunBubbleTrace(runSeed, sp, *fTrace, enterBubble(t), func(k *sim.Kernel) {
			chk.Run(k, plan)
		})
		rec := RunRecord{Prop: *fProp, Idx: idx, RunSeed: runSeed, Result: res, Shape: chk.Shape(plan), WallMs: float64(time.Since(t0).Microseconds()) / 1000}
		if res.Violation != nil || res.Aborted != "" || *fPlan != "" {
			rec.Plan = plan
		}
		if idx%40 == 0 || idx < 3 {
			rec.Brief, _ = json.Marshal(chk.Brief(plan))
		}
		if out != nil {
			b, _ := json.Marshal(rec)
			out.Write(b)
			out.WriteByte('\n')
			out.Flush()
		}
		if *fTrace && res.Violation != nil {
			for _, l := range res.Trace {
				fmt.Println("TRACE", l)
			}
		}
		fmt.Printf("DONE idx=%d\n", idx)
		// goroutines of finished bubbles stay parked for the life of the process (they must never touch a later
		// run), so a worker's memory only grows: hand over to a fresh process before it gets large
		if *fPlan == "" {
			var ms runtime.MemStats
			runtime.ReadMemStats(&ms)
			if ms.Sys > 1200<<20 {
				fmt.Printf("RECYCLE next=%d\n", i+1)
				os.Stdout.Sync()
				break
			}
		}
		if *fPlan != "" {
			b, _ := json.Marshal(rec.Result)
			fmt.Printf("RESULT %s\n", b)
			break
		}
	}
}

var fMinBudget = flag.Duration("sim.minbudget", 120*time.Second, "minimisation wall budget")

// TestDumpPlan prints the generated plan of one run index without executing it.
func TestDumpPlan(t *testing.T) {
	if *fProp == "" {
		t.Skip()
	}
	chk := scen.Checks[*fProp]
	runSeed := sim.Mix(*fSeed, uint64(*fFrom)+0x1000)
	plan := chk.Gen(sim.NewRng(runSeed), *fTier)
	b, _ := json.Marshal(map[string]interface{}{"run_seed": runSeed, "plan": plan})
	fmt.Printf("PLAN %s\n", b)
}

// TestMinimise shrinks a failing plan: greedy descent over the check's Shrink candidates, accepting a
// candidate only if the same rule fires.
func TestMinimise(t *testing.T) {
	if *fProp == "" || *fPlan == "" {
		t.Skip()
	}
	chk := scen.Checks[*fProp]
	b, err := os.ReadFile(*fPlan)
	if err != nil {
		os.Exit(2)
	}
	var rf struct {
		RunSeed uint64          `json:"run_seed"`
		Rule    string          `json:"rule"`
		Plan    json.RawMessage `json:"plan"`
	}
	if err := json.Unmarshal(b, &rf); err != nil || rf.Plan == nil {
		os.Exit(2)
	}
	exec := func(plan json.RawMessage) sim.Result {
		return sim.RunBubble(rf.RunSeed, chk.Sched(plan), enterBubble(t), func(k *sim.Kernel) { chk.Run(k, plan) })
	}
	cur := rf.Plan
	base := exec(cur)
	if base.Violation == nil || base.Violation.Rule != rf.Rule {
		fmt.Println("minimise: the original plan does not reproduce the rule; giving up")
		return
	}
	best := base
	start := time.Now()
	tried := 0
	improved := true
	for improved && time.Since(start) < *fMinBudget {
		improved = false
		for _, cand := range chk.Shrink(cur) {
			if time.Since(start) > *fMinBudget {
				break
			}
			if len(cand) >= len(cur) {
				continue
			}
			tried++
			r := exec(cand)
			if r.Violation != nil && r.Violation.Rule == rf.Rule {
				cur, best = cand, r
				improved = true
				break
			}
		}
	}
	out, _ := json.Marshal(map[string]interface{}{"plan": cur, "tried": tried, "detail": best.Violation.Detail, "digest": best.Digest, "sched_hash": best.SchedHash})
	_ = os.WriteFile(*fOut, out, 0o644)
	fmt.Printf("minimise: tried=%d size %d -> %d\n", tried, len(rf.Plan), len(cur))
}

package simtest

import (
	"os"
	"os/signal"
	"syscall"
	"testing"
	"testing/synctest"
)

func TestMain(m *testing.M) {
	// lal's RunSignalHandler selects on a signal channel inside the bubble; os/signal must be
	// initialised outside any bubble first.
	ch := make(chan os.Signal, 1)
	signal.Notify(ch, syscall.SIGUSR2)
	os.Exit(m.Run())
}

func enterBubble(t *testing.T) func(func()) {
	return func(f func()) {
		synctest.Test(t, func(t *testing.T) { f() })
	}
}

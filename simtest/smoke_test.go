package simtest

import (
	"fmt"
	"testing"
	"time"

	"simlal/sim"
	"simlal/sim/actors"
	"simlal/sim/media"
	"simlal/sim/rtmpc"
	"simlal/sim/scen"
)

func TestSmoke(t *testing.T) {
	start := time.Now()
	res := sim.RunBubble(1, sim.SchedParams{}, enterBubble(t), func(k *sim.Kernel) {
		w := scen.StartWorld(k, scen.LalConf{FlvEnable: true, ApiEnable: true})
		pub := actors.NewRtmpClient(k, "pub0", actors.RolePublish, "live", "s1")
		pub.Connect(scen.PortRtmp, 1)
		sub := actors.NewRtmpClient(k, "sub0", actors.RolePlay, "live", "s1")
		sub.Connect(scen.PortRtmp, 2)
		w.Observe(pub.Observe)
		w.Observe(sub.Observe)
		k.Settle()
		sps, pps := media.AvcParamSets(0, 0)
		pub.Publish(rtmpc.Msg{Type: rtmpc.TypeDataAmf0, Payload: media.MetadataPayload(0, 0, true, 10)})
		pub.Publish(rtmpc.Msg{Type: rtmpc.TypeVideo, Payload: media.AvcSeqHeaderPayload(sps, pps)})
		for i := 0; i < 50; i++ {
			nal := media.AvcNal(map[bool]int{true: 5, false: 1}[i%10 == 0], 3, 0, i, 0, 100+i*97)
			pub.Publish(rtmpc.Msg{Type: rtmpc.TypeVideo, Ts: uint32(i * 40), Payload: media.VideoPayload(media.CodecAVC, i%10 == 0, 0, [][]byte{nal})})
			if i%7 == 0 {
				k.Settle()
			}
		}
		k.Settle()
		k.Advance(3 * time.Second)
		fmt.Println(pub, sub, "steps", k.Step(), "simms", k.NowMs())
		if len(sub.Recv) != 52 {
			k.Violate("smoke", "sub got %d", len(sub.Recv))
		}
	})
	fmt.Printf("%+v wall=%v\n", res, time.Since(start))
	if res.Violation != nil || res.Aborted != "" {
		t.Fatal("failed")
	}
}

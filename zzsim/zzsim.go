// Package zzsim holds the link seams that simweave redirects lal's direct uses
// of the network, file system, mutexes, map iteration, randomness and os.Exit
// to. It is added to lal's import path by build overlay only; it does not exist
// in /repo. Every seam defaults to the real behaviour, so a woven build with no
// simulator installed behaves like the unwoven code.
package zzsim

import (
	crand "crypto/rand"
	"crypto/tls"
	"fmt"
	mrand "math/rand"
	"net"
	"os"
	"reflect"
	"sort"
	"sync"
	"time"
)

// ---- network ---------------------------------------------------------------------------------------------------------

var (
	NetListen      = net.Listen
	NetDial        = net.Dial
	NetDialTimeout = net.DialTimeout
	TlsDial        = tls.Dial
	TlsListen      = tls.Listen
)

// ---- file system -----------------------------------------------------------------------------------------------------

var (
	OsCreate   = os.Create
	OsOpen     = os.Open
	OsMkdirAll = os.MkdirAll
	OsExit     = os.Exit

	OsOpenFile  = os.OpenFile
	OsRemove    = os.Remove
	OsRemoveAll = os.RemoveAll
	OsRename    = os.Rename
	OsWriteFile = os.WriteFile
	OsReadFile  = os.ReadFile
	OsStat      = os.Stat
	OsMkdir     = os.Mkdir
)

// ---- randomness ------------------------------------------------------------------------------------------------------

var (
	randMu  sync.Mutex
	randSrc *mrand.Rand // nil: real
)

// SetRandSeed installs a deterministic source for every rand seam (0 restores the real ones).
func SetRandSeed(seed int64) {
	randMu.Lock()
	defer randMu.Unlock()
	if seed == 0 {
		randSrc = nil
		return
	}
	randSrc = mrand.New(mrand.NewSource(seed))
}

func RandSeed(seed int64) {}

func RandRead(b []byte) (int, error) {
	randMu.Lock()
	defer randMu.Unlock()
	if randSrc == nil {
		return crand.Read(b)
	}
	return randSrc.Read(b)
}

func withRand[T any](real func() T, sim func(r *mrand.Rand) T) T {
	randMu.Lock()
	defer randMu.Unlock()
	if randSrc == nil {
		return real()
	}
	return sim(randSrc)
}

func RandInt() int         { return withRand(mrand.Int, (*mrand.Rand).Int) }
func RandUint32() uint32   { return withRand(mrand.Uint32, (*mrand.Rand).Uint32) }
func RandUint64() uint64   { return withRand(mrand.Uint64, (*mrand.Rand).Uint64) }
func RandInt63() int64     { return withRand(mrand.Int63, (*mrand.Rand).Int63) }
func RandInt31() int32     { return withRand(mrand.Int31, (*mrand.Rand).Int31) }
func RandFloat64() float64 { return withRand(mrand.Float64, (*mrand.Rand).Float64) }
func RandFloat32() float32 { return withRand(mrand.Float32, (*mrand.Rand).Float32) }
func RandNormFloat64() float64 {
	return withRand(mrand.NormFloat64, (*mrand.Rand).NormFloat64)
}
func RandIntn(n int) int {
	return withRand(func() int { return mrand.Intn(n) }, func(r *mrand.Rand) int { return r.Intn(n) })
}
func RandInt31n(n int32) int32 {
	return withRand(func() int32 { return mrand.Int31n(n) }, func(r *mrand.Rand) int32 { return r.Int31n(n) })
}
func RandInt63n(n int64) int64 {
	return withRand(func() int64 { return mrand.Int63n(n) }, func(r *mrand.Rand) int64 { return r.Int63n(n) })
}
func RandPerm(n int) []int {
	return withRand(func() []int { return mrand.Perm(n) }, func(r *mrand.Rand) []int { return r.Perm(n) })
}
func RandShuffle(n int, swap func(i, j int)) {
	withRand(func() int { mrand.Shuffle(n, swap); return 0 }, func(r *mrand.Rand) int { r.Shuffle(n, swap); return 0 })
}

// ---- mutexes ---------------------------------------------------------------------------------------------------------

// LockHook, when set, is called instead of m.Lock(): it must return only when the
// calling goroutine may take m (the hook parks the goroutine until the simulator
// grants the mutex). After it returns, Lock takes the real mutex, which is then
// uncontended, so race-detector happens-before edges remain truthful.
var (
	LockHook   func(m interface{}, site string)
	UnlockHook func(m interface{})
)

func Lock(m *sync.Mutex, site string) {
	if h := LockHook; h != nil {
		h(m, site)
	}
	m.Lock()
}

func Unlock(m *sync.Mutex) {
	m.Unlock()
	if h := UnlockHook; h != nil {
		h(m)
	}
}

// RWMutexes are treated as exclusive by the simulator (a reader parks like a writer); the
// real RWMutex is still used for the actual exclusion.
func RWLock(m *sync.RWMutex, site string) {
	if h := LockHook; h != nil {
		h(m, site)
	}
	m.Lock()
}
func RWUnlock(m *sync.RWMutex) {
	m.Unlock()
	if h := UnlockHook; h != nil {
		h(m)
	}
}
func RWRLock(m *sync.RWMutex, site string) {
	if h := LockHook; h != nil {
		h(m, site)
	}
	m.RLock()
}
func RWRUnlock(m *sync.RWMutex) {
	m.RUnlock()
	if h := UnlockHook; h != nil {
		h(m)
	}
}

// OnceDo replaces o.Do(f): the callers are serialised through the cooperative lock machinery (keyed by the Once), so a
// caller that finds another one inside f parks where the simulator can see it instead of on the Once's internal mutex.
func OnceDo(o *sync.Once, f func(), site string) {
	if h := LockHook; h != nil {
		h(o, site)
		defer func() {
			if u := UnlockHook; u != nil {
				u(o)
			}
		}()
	}
	o.Do(f)
}

// ---- map iteration ---------------------------------------------------------------------------------------------------

// KeysHook, when set, receives the canonically ordered key count and the site and may
// return a permutation to apply (nil = keep canonical order).
var KeysHook func(site string, n int) []int

type uniqueKeyer interface{ UniqueKey() string }

// Keys returns the keys of m. With no simulator installed the order is Go's own
// (randomised) map order. With KeysHook installed the keys are put in a canonical order
// (strings and numbers sorted; pointers sorted by their UniqueKey(), numerically aware)
// and then permuted as the hook decides.
func Keys[K comparable, V any](m map[K]V, site string) []K {
	keys := make([]K, 0, len(m))
	for k := range m {
		keys = append(keys, k)
	}
	h := KeysHook
	if h == nil || len(keys) < 2 {
		return keys
	}
	sortKeys(keys, site)
	if p := h(site, len(keys)); p != nil {
		out := make([]K, len(keys))
		for i, j := range p {
			out[i] = keys[j]
		}
		return out
	}
	return keys
}

func natLess(a, b string) bool {
	if len(a) != len(b) {
		return len(a) < len(b)
	}
	return a < b
}

func sortKeys[K comparable](keys []K, site string) {
	var k0 interface{} = keys[0]
	switch k0.(type) {
	case string:
		sort.Slice(keys, func(i, j int) bool {
			return interface{}(keys[i]).(string) < interface{}(keys[j]).(string)
		})
		return
	case uniqueKeyer:
		sort.Slice(keys, func(i, j int) bool {
			return natLess(interface{}(keys[i]).(uniqueKeyer).UniqueKey(), interface{}(keys[j]).(uniqueKeyer).UniqueKey())
		})
		return
	}
	rv := reflect.ValueOf(k0)
	switch rv.Kind() {
	case reflect.Int, reflect.Int8, reflect.Int16, reflect.Int32, reflect.Int64:
		sort.Slice(keys, func(i, j int) bool { return reflect.ValueOf(keys[i]).Int() < reflect.ValueOf(keys[j]).Int() })
	case reflect.Uint, reflect.Uint8, reflect.Uint16, reflect.Uint32, reflect.Uint64, reflect.Uintptr:
		sort.Slice(keys, func(i, j int) bool { return reflect.ValueOf(keys[i]).Uint() < reflect.ValueOf(keys[j]).Uint() })
	case reflect.String:
		sort.Slice(keys, func(i, j int) bool { return reflect.ValueOf(keys[i]).String() < reflect.ValueOf(keys[j]).String() })
	default:
		if h := UnorderedKeysHook; h != nil {
			h(site, fmt.Sprintf("%T", k0))
		}
	}
}

// UnorderedKeysHook is told about a map range whose keys cannot be put in a canonical order
// (the simulator fails loudly instead of silently losing determinism).
var UnorderedKeysHook func(site, typ string)

// ---- misc ------------------------------------------------------------------------------------------------------------

// Now exists so harness code has one clock to read (the bubble's fake clock inside synctest).
func Now() time.Time { return time.Now() }

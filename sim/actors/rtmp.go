// Package actors holds the simulated peers. Actors are passive state machines executed by the
// driver goroutine at quiescent points; they never block and never run concurrently with lal.
package actors

import (
	"fmt"

	"simlal/sim"
	"simlal/sim/rtmpc"
)

// RecvMsg is a message an actor decoded from lal's output, stamped with the driver step at which
// its last byte was observed.
type RecvMsg struct {
	rtmpc.Msg
	Step int
	Ms   int64
}

// SentUnit is something a publisher sent, with the bookkeeping the oracles need to reason about
// "definitely before / definitely after" relations.
type SentUnit struct {
	Msg           rtmpc.Msg
	EndOff        int64 // offset in the connection's byte stream of this unit's last byte (exclusive)
	QueuedStep    int
	DeliveredStep int // step at which the last byte was handed to lal (-1: not yet)
	ProcessedStep int // first step at which lal's reader was idle again after delivery (-1: not yet)
	DeliveredMs   int64
	ProcessedMs   int64
}

type rtmpRole int

const (
	RolePublish rtmpRole = iota
	RolePlay
)

// RtmpClient is an RTMP publisher or player.
type RtmpClient struct {
	K      *sim.Kernel
	Name   string
	Role   rtmpRole
	App    string
	Stream string // stream name, may carry ?query
	Conn   *sim.Conn

	W *rtmpc.Writer
	R *rtmpc.Reader

	state      int // 0 handshake, 1 connect sent, 2 createStream sent, 3 publish/play sent, 4 ready
	hsBuf      []byte
	Ready      bool
	ReadyStep  int
	Closed     bool // lal closed the connection
	ClosedStep int
	StatusCode string // last onStatus code
	ParseErr   error

	// publisher
	Sent []*SentUnit
	outQ []rtmpc.Msg // queued until ready
	// PeerChunkSize to announce after connect (0: keep 128)
	AnnounceChunkSize int

	// player
	Recv []RecvMsg
	Ctrl []RecvMsg // protocol control / command messages received
	// JoinSentStep: step at which the play/publish command was fully delivered to lal;
	// JoinDoneStep: first step afterwards at which lal's reader was idle again.
	joinEndOff   int64
	JoinSentStep int
	JoinDoneStep int
	LeftStep     int    // step at which the actor closed (-1: never)
	RawOut       []byte // all bytes lal sent after the handshake (for framing checks)
	KeepRaw      bool
}

func NewRtmpClient(k *sim.Kernel, name string, role rtmpRole, app, stream string) *RtmpClient {
	return &RtmpClient{K: k, Name: name, Role: role, App: app, Stream: stream,
		W: rtmpc.NewWriter(), R: rtmpc.NewReader(), JoinSentStep: -1, JoinDoneStep: -1, LeftStep: -1, ReadyStep: -1, ClosedStep: -1}
}

// Connect opens the TCP connection to lal's RTMP listener and starts the handshake.
func (a *RtmpClient) Connect(port int, ipk int) bool {
	a.Conn = a.K.Connect(port, a.Name, ipk, a)
	if a.Conn == nil {
		return false
	}
	a.Conn.Send(rtmpc.C0C1(byte(len(a.Name))))
	return true
}

func (a *RtmpClient) sendMsg(m rtmpc.Msg) {
	a.Conn.Send(a.W.Encode(m))
}

func (a *RtmpClient) cmd(name string, tid float64, rest func(*rtmpc.Amf)) rtmpc.Msg {
	var f rtmpc.Amf
	f.Str(name).Num(tid)
	rest(&f)
	return rtmpc.Msg{Type: rtmpc.TypeCmdAmf0, Msid: 0, Ts: 0, Csid: 3, Payload: f.B}
}

func (a *RtmpClient) OnData(c *sim.Conn, b []byte) {
	if a.state == 0 {
		a.hsBuf = append(a.hsBuf, b...)
		if len(a.hsBuf) < rtmpc.S0S1S2Len {
			return
		}
		rest := a.hsBuf[rtmpc.S0S1S2Len:]
		c.Send(rtmpc.C2(a.hsBuf))
		a.hsBuf = nil
		if a.AnnounceChunkSize > 0 {
			a.sendMsg(rtmpc.SetChunkSizeMsg(a.AnnounceChunkSize))
			a.W.ChunkSize = a.AnnounceChunkSize
		}
		a.sendMsg(a.cmd("connect", 1, func(f *rtmpc.Amf) {
			f.Obj("app", a.App, "type", "nonprivate", "flashVer", "FMLE/3.0", "tcUrl", "rtmp://127.0.0.1/"+a.App)
		}))
		a.state = 1
		b = rest
		if len(b) == 0 {
			return
		}
	}
	if a.KeepRaw {
		a.RawOut = append(a.RawOut, b...)
	}
	msgs := a.R.Feed(b)
	if a.R.Err != nil && a.ParseErr == nil {
		a.ParseErr = a.R.Err
	}
	for _, m := range msgs {
		a.onMsg(m)
	}
}

func (a *RtmpClient) onMsg(m rtmpc.Msg) {
	step := a.K.Step()
	switch m.Type {
	case rtmpc.TypeAudio, rtmpc.TypeVideo, rtmpc.TypeDataAmf0:
		a.Recv = append(a.Recv, RecvMsg{m, step, a.K.NowMs()})
		return
	case rtmpc.TypeCmdAmf0:
		a.Ctrl = append(a.Ctrl, RecvMsg{m, step, a.K.NowMs()})
		name, n, ok := rtmpc.AmfReadString(m.Payload)
		if !ok {
			return
		}
		switch {
		case name == "_result" && a.state == 1:
			a.sendMsg(a.cmd("createStream", 2, func(f *rtmpc.Amf) { f.Null() }))
			a.state = 2
		case name == "_result" && a.state == 2:
			if a.Role == RolePublish {
				m := a.cmd("publish", 3, func(f *rtmpc.Amf) { f.Null().Str(a.Stream).Str("live") })
				m.Msid = 1
				m.Csid = 4
				a.sendMsg(m)
			} else {
				m := a.cmd("play", 3, func(f *rtmpc.Amf) { f.Null().Str(a.Stream) })
				m.Msid = 1
				m.Csid = 4
				a.sendMsg(m)
			}
			a.joinEndOff = a.Conn.TotalQueued
			a.state = 3
		case name == "onStatus":
			// find the code string
			a.StatusCode = findAmfProp(m.Payload[n:], "code")
			if a.state == 3 {
				a.state = 4
				a.Ready = true
				a.ReadyStep = step
				for _, q := range a.outQ {
					a.queueUnit(q)
				}
				a.outQ = nil
			}
		}
	default:
		a.Ctrl = append(a.Ctrl, RecvMsg{m, step, a.K.NowMs()})
	}
}

// findAmfProp scans for `key` followed by an AMF0 string value (good enough for onStatus info objects).
func findAmfProp(b []byte, key string) string {
	pat := append([]byte{byte(len(key) >> 8), byte(len(key))}, key...)
	for i := 0; i+len(pat)+3 <= len(b); i++ {
		if string(b[i:i+len(pat)]) == string(pat) && b[i+len(pat)] == 2 {
			s, _, ok := rtmpc.AmfReadString(b[i+len(pat):])
			if ok {
				return s
			}
		}
	}
	return ""
}

func (a *RtmpClient) OnClose(c *sim.Conn) {
	a.Closed = true
	a.ClosedStep = a.K.Step()
}

// Publish queues one media/metadata message (sent as soon as the session is ready).
func (a *RtmpClient) Publish(m rtmpc.Msg) {
	if !a.Ready {
		a.outQ = append(a.outQ, m)
		return
	}
	a.queueUnit(m)
}

func (a *RtmpClient) queueUnit(m rtmpc.Msg) {
	if m.Csid == 0 {
		switch m.Type {
		case rtmpc.TypeAudio:
			m.Csid = 6
		case rtmpc.TypeVideo:
			m.Csid = 7
		default:
			m.Csid = 5
		}
	}
	if m.Msid == 0 {
		m.Msid = 1
	}
	a.sendMsg(m)
	a.Sent = append(a.Sent, &SentUnit{Msg: m, EndOff: a.Conn.TotalQueued, QueuedStep: a.K.Step(), DeliveredStep: -1, ProcessedStep: -1})
}

// Leave closes the actor's end (orderly FIN after everything queued) or resets the connection.
func (a *RtmpClient) Leave(reset bool) {
	if a.Conn == nil {
		return
	}
	if reset {
		a.Conn.ResetByPeer()
	} else {
		a.Conn.CloseByPeer()
	}
	a.LeftStep = a.K.Step()
}

// Observe updates delivery bookkeeping; call it at every quiescent point (kernel invariant hook).
func (a *RtmpClient) Observe() {
	if a.Conn == nil {
		return
	}
	step := a.K.Step()
	in := a.Conn.TotalIn
	idle := a.Conn.Idle()
	for _, u := range a.Sent {
		if u.DeliveredStep < 0 && u.EndOff <= in {
			u.DeliveredStep = step
			u.DeliveredMs = a.K.NowMs()
		}
		if u.DeliveredStep >= 0 && u.ProcessedStep < 0 && idle && u.EndOff <= a.Conn.TotalConsumed {
			u.ProcessedStep = step
			u.ProcessedMs = a.K.NowMs()
		}
	}
	if a.joinEndOff > 0 {
		if a.JoinSentStep < 0 && a.joinEndOff <= in {
			a.JoinSentStep = step
		}
		if a.JoinSentStep >= 0 && a.JoinDoneStep < 0 && idle {
			a.JoinDoneStep = step
		}
	}
}

func (a *RtmpClient) String() string {
	return fmt.Sprintf("%s(state=%d ready=%v closed=%v recv=%d sent=%d)", a.Name, a.state, a.Ready, a.Closed, len(a.Recv), len(a.Sent))
}

package actors

import (
	"simlal/sim"
	"simlal/sim/rtmpc"
)

// RtmpServerStub is the server side of RTMP for connections lal opens itself: the origin of a relay
// pull (it serves media after `play`) or the target of a relay push (it records what lal publishes).
type RtmpServerStub struct {
	K    *sim.Kernel
	Name string
	Conn *sim.Conn

	W *rtmpc.Writer
	R *rtmpc.Reader

	// Behaviour
	DieAfterHandshake bool   // close right after the handshake
	DieAfterConnect   bool   // close when `connect` arrives
	RefusePlay        bool   // answer play/publish with an error status and close
	Mute              bool   // never answer anything (the peer's timeout must fire)
	Garbage           []byte // sent instead of the proper reply to `connect` (hostile origin)

	hs          []byte
	state       int // 0 wait C0C1, 1 wait C2, 2 chunk stream
	App         string
	TcUrl       string
	Stream      string // stream name (with query) from play / publish
	Role        string // "play" | "publish"
	Started     bool   // play / publish accepted
	StartedStep int
	Closed      bool
	ClosedStep  int
	Recv        []RecvMsg // media lal published to us (push)
	Cmds        []string
	Sent        []*SentUnit
	outQ        []rtmpc.Msg
	ParseErr    error
	ConnectStep int
	OpenStep    int
	OpenMs      int64
}

func NewRtmpServerStub(k *sim.Kernel, name string, c *sim.Conn) *RtmpServerStub {
	return &RtmpServerStub{K: k, Name: name, Conn: c, W: rtmpc.NewWriter(), R: rtmpc.NewReader(), OpenStep: k.Step(), OpenMs: k.NowMs(), StartedStep: -1, ClosedStep: -1}
}

func (a *RtmpServerStub) send(m rtmpc.Msg) { a.Conn.Send(a.W.Encode(m)) }

func (a *RtmpServerStub) OnData(c *sim.Conn, b []byte) {
	if a.Mute {
		return
	}
	a.hs = append(a.hs, b...)
	for {
		switch a.state {
		case 0:
			if len(a.hs) < 1537 {
				return
			}
			c1 := a.hs[1:1537]
			s := make([]byte, 1+1536+1536)
			s[0] = 3
			for i := 9; i < 1537; i++ {
				s[i] = byte(i * 7)
			}
			copy(s[1537:], c1)
			c.Send(s)
			a.hs = a.hs[1537:]
			a.state = 1
			if a.DieAfterHandshake {
				c.CloseByPeer()
				return
			}
		case 1:
			if len(a.hs) < 1536 {
				return
			}
			a.hs = a.hs[1536:]
			a.state = 2
		case 2:
			data := a.hs
			a.hs = nil
			if len(data) == 0 {
				return
			}
			msgs := a.R.Feed(data)
			if a.R.Err != nil && a.ParseErr == nil {
				a.ParseErr = a.R.Err
			}
			for _, m := range msgs {
				a.onMsg(m)
			}
			return
		}
	}
}

func (a *RtmpServerStub) onMsg(m rtmpc.Msg) {
	step := a.K.Step()
	switch m.Type {
	case rtmpc.TypeAudio, rtmpc.TypeVideo, rtmpc.TypeDataAmf0:
		a.Recv = append(a.Recv, RecvMsg{m, step, a.K.NowMs()})
	case rtmpc.TypeCmdAmf0:
		name, n, ok := rtmpc.AmfReadString(m.Payload)
		if !ok {
			return
		}
		tid, n2, _ := rtmpc.AmfReadNumber(m.Payload[n:])
		a.Cmds = append(a.Cmds, name)
		rest := m.Payload[n+n2:]
		switch name {
		case "connect":
			a.ConnectStep = step
			a.App = findAmfProp(rest, "app")
			a.TcUrl = findAmfProp(rest, "tcUrl")
			if a.DieAfterConnect {
				a.Conn.CloseByPeer()
				return
			}
			if a.Garbage != nil {
				a.Conn.Send(a.Garbage)
				return
			}
			var w rtmpc.Amf
			w.Str("_result").Num(tid).Obj("fmsVer", "FMS/3,0,1,123", "capabilities", 31).
				Obj("level", "status", "code", "NetConnection.Connect.Success", "description", "Connection succeeded.", "objectEncoding", 0)
			a.send(rtmpc.Msg{Type: rtmpc.TypeCmdAmf0, Csid: 3, Payload: w.B})
		case "createStream":
			var w rtmpc.Amf
			w.Str("_result").Num(tid).Null().Num(1)
			a.send(rtmpc.Msg{Type: rtmpc.TypeCmdAmf0, Csid: 3, Payload: w.B})
		case "play", "publish":
			// null, then the stream name
			if len(rest) > 0 && rest[0] == 5 {
				rest = rest[1:]
			}
			a.Stream, _, _ = rtmpc.AmfReadString(rest)
			a.Role = name
			code := "NetStream.Play.Start"
			if name == "publish" {
				code = "NetStream.Publish.Start"
			}
			if a.RefusePlay {
				code = "NetStream.Play.StreamNotFound"
				if name == "publish" {
					code = "NetStream.Publish.BadName"
				}
			}
			var w rtmpc.Amf
			w.Str("onStatus").Num(0).Null().Obj("level", "status", "code", code, "description", code)
			a.send(rtmpc.Msg{Type: rtmpc.TypeCmdAmf0, Csid: 5, Msid: 1, Payload: w.B})
			if a.RefusePlay {
				a.Conn.CloseByPeer()
				return
			}
			a.Started = true
			a.StartedStep = step
			for _, q := range a.outQ {
				a.queueUnit(q)
			}
			a.outQ = nil
		}
	}
}

func (a *RtmpServerStub) OnClose(c *sim.Conn) {
	a.Closed = true
	a.ClosedStep = a.K.Step()
}

// Serve queues a media message to send to lal (as a pull origin); sent once `play` was accepted.
func (a *RtmpServerStub) Serve(m rtmpc.Msg) {
	if !a.Started {
		a.outQ = append(a.outQ, m)
		return
	}
	a.queueUnit(m)
}

func (a *RtmpServerStub) queueUnit(m rtmpc.Msg) {
	if m.Csid == 0 {
		switch m.Type {
		case rtmpc.TypeAudio:
			m.Csid = 6
		case rtmpc.TypeVideo:
			m.Csid = 7
		default:
			m.Csid = 5
		}
	}
	if m.Msid == 0 {
		m.Msid = 1
	}
	a.send(m)
	a.Sent = append(a.Sent, &SentUnit{Msg: m, EndOff: a.Conn.TotalQueued, QueuedStep: a.K.Step(), DeliveredStep: -1, ProcessedStep: -1})
}

func (a *RtmpServerStub) Observe() {
	step := a.K.Step()
	in := a.Conn.TotalIn
	idle := a.Conn.Idle()
	for _, u := range a.Sent {
		if u.DeliveredStep < 0 && u.EndOff <= in {
			u.DeliveredStep = step
		}
		if u.DeliveredStep >= 0 && u.ProcessedStep < 0 && idle && u.EndOff <= a.Conn.TotalConsumed {
			u.ProcessedStep = step
		}
	}
}

// PeerClosedFirst reports whether the stub itself ended the connection (FIN / RST queued by the actor).
func (a *RtmpServerStub) PeerClosedFirst() bool { return a.Conn.PeerEnded() }

package actors

import (
	"fmt"

	"simlal/sim"
	"simlal/sim/httpc"
)

// HttpClient issues one HTTP/1.1 request on a fresh connection and parses what comes back.
// Modes: plain GET (API, HLS files), streaming FLV, streaming TS, and WebSocket-wrapped FLV / TS.
type HttpClient struct {
	K    *sim.Kernel
	Name string
	Conn *sim.Conn
	Path string
	Mode string // "get" | "flv" | "ts" | "wsflv" | "wsts" | "post"
	Body []byte

	Resp httpc.Response
	Ws   httpc.WsParser
	Flv  httpc.FlvParser

	Tags           []FlvTagRecv
	TsBytes        []byte // TS payload bytes (after HTTP / WS unwrapping)
	WsFrames       int
	Closed         bool
	ClosedStep     int
	reqEndOff      int64
	JoinSentStep   int
	JoinDoneStep   int
	LeftStep       int
	HeaderStep     int
	RawAfterHeader int64
}

type FlvTagRecv struct {
	httpc.FlvTag
	Step int
	Ms   int64
}

func NewHttpClient(k *sim.Kernel, name, mode, path string) *HttpClient {
	return &HttpClient{K: k, Name: name, Mode: mode, Path: path, JoinSentStep: -1, JoinDoneStep: -1, LeftStep: -1, ClosedStep: -1, HeaderStep: -1}
}

func (a *HttpClient) Connect(port int, ipk int) bool {
	a.Conn = a.K.Connect(port, a.Name, ipk, a)
	if a.Conn == nil {
		return false
	}
	var req string
	switch a.Mode {
	case "wsflv", "wsts":
		req = fmt.Sprintf("GET %s HTTP/1.1\r\nHost: sim\r\nConnection: Upgrade\r\nUpgrade: websocket\r\nSec-WebSocket-Version: 13\r\nSec-WebSocket-Key: dGhlIHNhbXBsZSBub25jZQ==\r\n\r\n", a.Path)
	case "post":
		req = fmt.Sprintf("POST %s HTTP/1.1\r\nHost: sim\r\nContent-Type: application/json\r\nContent-Length: %d\r\nConnection: close\r\n\r\n%s", a.Path, len(a.Body), a.Body)
	default:
		extra := ""
		if a.Mode == "get" {
			extra = "Connection: close\r\n"
		}
		req = fmt.Sprintf("GET %s HTTP/1.1\r\nHost: sim\r\nUser-Agent: simlal\r\nAccept: */*\r\n%s\r\n", a.Path, extra)
	}
	a.Conn.Send([]byte(req))
	a.reqEndOff = a.Conn.TotalQueued
	return true
}

func (a *HttpClient) OnData(c *sim.Conn, b []byte) {
	a.Resp.Feed(b)
	if !a.Resp.HeaderDone {
		return
	}
	if a.HeaderStep < 0 {
		a.HeaderStep = a.K.Step()
	}
	if a.Mode == "get" || a.Mode == "post" {
		return // the whole body stays in Resp.Body
	}
	body := a.Resp.TakeBody()
	if len(body) == 0 {
		return
	}
	a.RawAfterHeader += int64(len(body))
	switch a.Mode {
	case "flv":
		a.feedFlv(body)
	case "ts":
		a.TsBytes = append(a.TsBytes, body...)
	case "wsflv":
		for _, f := range a.Ws.Feed(body) {
			a.WsFrames++
			a.feedFlv(f.Payload)
		}
	case "wsts":
		for _, f := range a.Ws.Feed(body) {
			a.WsFrames++
			a.TsBytes = append(a.TsBytes, f.Payload...)
		}
	}
}

func (a *HttpClient) feedFlv(b []byte) {
	for _, t := range a.Flv.Feed(b) {
		a.Tags = append(a.Tags, FlvTagRecv{t, a.K.Step(), a.K.NowMs()})
	}
}

func (a *HttpClient) OnClose(c *sim.Conn) {
	a.Resp.MarkClosed()
	a.Closed = true
	a.ClosedStep = a.K.Step()
}

func (a *HttpClient) Leave(reset bool) {
	if a.Conn == nil {
		return
	}
	if reset {
		a.Conn.ResetByPeer()
	} else {
		a.Conn.CloseByPeer()
	}
	a.LeftStep = a.K.Step()
}

func (a *HttpClient) Observe() {
	if a.Conn == nil {
		return
	}
	step := a.K.Step()
	if a.JoinSentStep < 0 && a.reqEndOff <= a.Conn.TotalIn {
		a.JoinSentStep = step
	}
	if a.JoinSentStep >= 0 && a.JoinDoneStep < 0 && a.Conn.Idle() {
		a.JoinDoneStep = step
	}
}

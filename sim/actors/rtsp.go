package actors

import (
	"crypto/md5"
	"encoding/base64"
	"encoding/hex"
	"fmt"
	"net"
	"strconv"
	"strings"

	"simlal/sim"
	"simlal/sim/rtpc"
)

// RtspClient is the harness's RTSP peer: a publisher (OPTIONS, ANNOUNCE, SETUP.., RECORD, then RTP) or a player
// (OPTIONS, DESCRIBE [401 -> DESCRIBE with credentials], SETUP.., PLAY, then RTP from lal), over interleaved TCP or UDP.
// It is a passive state machine driven by what lal answers; it imports nothing from lal.
type RtspClient struct {
	K    *sim.Kernel
	Name string
	Conn *sim.Conn
	Mode string // "pub" | "play"
	Tcp  bool   // interleaved
	Url  string // rtsp://host:port/app/stream[?query]

	// publisher side
	Sdp    string
	Tracks []RtspTrack // pub: filled by the caller; play: parsed from lal's SDP

	// credentials for play (C14): empty User = none
	User, Pass   string
	ForceAuth    string // "", "basic", "digest", "raw": send this kind of Authorization on the first DESCRIBE already
	RawAuth      string // when set: the literal Authorization value used instead of computed credentials
	WrongDigest  bool
	ClientPort   int // first UDP port of this client (tracks use +0/+1, +2/+3)
	SkipOptions  bool
	NoTeardown   bool
	DescribeOnly bool

	AnnounceOK   bool // publisher: ANNOUNCE acknowledged (lal admits the input at this point)
	AnnounceStep int
	Ready        bool // RECORD / PLAY acknowledged
	ReadyStep    int
	Failed       string // non-empty: the exchange ended abnormally (status, parse error)
	Closed       bool
	ClosedStep   int
	Status       []int // status code of every response, in order
	Challenge    string
	SdpRecv      string
	DescribeStep int // kernel step at which the first DESCRIBE was handed to the connection (0: none)
	DescribeOK   bool

	buf   []byte
	cseq  int
	stage string
	setup int

	// received RTP / RTCP (player side, or RR towards a publisher)
	Rtp  []RtspRecv
	Rtcp []RtspRecv
	// raw bytes received in total
	RawIn int64
}

type RtspTrack struct {
	Control    string // a=control value
	PT         int
	Clock      int
	Enc        string // H264 | H265 | MPEG4-GENERIC | PCMA | PCMU | opus
	Fmtp       map[string]string
	Audio      bool
	ServerRtp  int // UDP: lal's ports
	ServerRtcp int
	ClientRtp  int
	ChRtp      int // interleaved channels
}

type RtspRecv struct {
	Track int
	B     []byte
	Step  int
	Ms    int64
}

func NewRtspClient(k *sim.Kernel, name, mode, url string, tcp bool) *RtspClient {
	return &RtspClient{K: k, Name: name, Mode: mode, Url: url, Tcp: tcp, ReadyStep: -1, ClosedStep: -1}
}

func (a *RtspClient) Connect(port int, ipk int) bool {
	a.Conn = a.K.Connect(port, a.Name, ipk, a)
	if a.Conn == nil {
		return false
	}
	if a.SkipOptions {
		a.afterOptions()
	} else {
		a.stage = "options"
		a.request("OPTIONS", a.Url, nil, "")
	}
	return true
}

func (a *RtspClient) host() string {
	h, _, _ := net.SplitHostPort(a.Conn.RemoteAddr().String())
	return h
}

func (a *RtspClient) request(method, uri string, hdr []string, body string) {
	a.cseq++
	s := fmt.Sprintf("%s %s RTSP/1.0\r\nCSeq: %d\r\nUser-Agent: simlal\r\n", method, uri, a.cseq)
	for _, h := range hdr {
		s += h + "\r\n"
	}
	if body != "" {
		s += fmt.Sprintf("Content-Type: application/sdp\r\nContent-Length: %d\r\n", len(body))
	}
	s += "\r\n" + body
	a.Conn.Send([]byte(s))
}

// Keepalive sends an OPTIONS request on an established session (players do that to keep a session alive); the
// answer arrives between interleaved frames.
func (a *RtspClient) Keepalive() {
	if a.stage == "run" && !a.Closed {
		a.request("OPTIONS", a.Url, nil, "")
	}
}

func minInt(a, b int) int {
	if a < b {
		return a
	}
	return b
}

// Reannounce sends a second ANNOUNCE on the connection of an established publisher (a confused or hostile client).
func (a *RtspClient) Reannounce() {
	a.request("ANNOUNCE", a.Url, nil, a.Sdp)
}

func (a *RtspClient) afterOptions() {
	if a.Mode == "pub" {
		a.stage = "announce"
		a.request("ANNOUNCE", a.Url, nil, a.Sdp)
		return
	}
	a.stage = "describe"
	a.DescribeStep = a.K.Step()
	var hdr []string
	switch a.ForceAuth {
	case "basic":
		hdr = append(hdr, "Authorization: "+a.basicAuth())
	case "digest":
		hdr = append(hdr, "Authorization: "+a.digestAuth("DESCRIBE", "lalserver", "0123456789abcdef0123456789abcdef"))
	case "raw":
		hdr = append(hdr, "Authorization: "+a.RawAuth)
	}
	a.request("DESCRIBE", a.Url, append(hdr, "Accept: application/sdp"), "")
}

func (a *RtspClient) basicAuth() string {
	return "Basic " + base64.StdEncoding.EncodeToString([]byte(a.User+":"+a.Pass))
}

func md5hex(s string) string {
	h := md5.Sum([]byte(s))
	return hex.EncodeToString(h[:])
}

// digestAuth computes the RFC 2069 digest response (no qop), as RTSP servers and clients commonly use.
func (a *RtspClient) digestAuth(method, realm, nonce string) string {
	ha1 := md5hex(a.User + ":" + realm + ":" + a.Pass)
	ha2 := md5hex(method + ":" + a.Url)
	resp := md5hex(ha1 + ":" + nonce + ":" + ha2)
	if a.WrongDigest {
		resp = md5hex(resp)
	}
	return fmt.Sprintf(`Digest username="%s", realm="%s", nonce="%s", uri="%s", response="%s"`, a.User, realm, nonce, a.Url, resp)
}

func (a *RtspClient) trackUrl(t RtspTrack) string {
	if strings.HasPrefix(t.Control, "rtsp://") {
		return t.Control
	}
	base := a.Url
	if i := strings.Index(base, "?"); i >= 0 {
		base = base[:i]
	}
	return base + "/" + t.Control
}

func (a *RtspClient) sendSetup() {
	t := &a.Tracks[a.setup]
	var tr string
	if a.Tcp {
		t.ChRtp = 2 * a.setup
		tr = fmt.Sprintf("RTP/AVP/TCP;unicast;interleaved=%d-%d", t.ChRtp, t.ChRtp+1)
	} else {
		t.ClientRtp = a.ClientPort + 2*a.setup
		tr = fmt.Sprintf("RTP/AVP/UDP;unicast;client_port=%d-%d", t.ClientRtp, t.ClientRtp+1)
		idx := a.setup
		a.K.UDPHandle(fmt.Sprintf("%s:%d", a.host(), t.ClientRtp), func(d sim.Datagram) {
			a.Rtp = append(a.Rtp, RtspRecv{Track: idx, B: d.B, Step: a.K.Step(), Ms: a.K.NowMs()})
		})
		a.K.UDPHandle(fmt.Sprintf("%s:%d", a.host(), t.ClientRtp+1), func(d sim.Datagram) {
			a.Rtcp = append(a.Rtcp, RtspRecv{Track: idx, B: d.B, Step: a.K.Step(), Ms: a.K.NowMs()})
		})
	}
	if a.Mode == "pub" {
		tr += ";mode=record"
	}
	a.request("SETUP", a.trackUrl(*t), []string{"Transport: " + tr}, "")
}

func (a *RtspClient) OnData(c *sim.Conn, b []byte) {
	a.RawIn += int64(len(b))
	a.buf = append(a.buf, b...)
	for a.Failed == "" {
		if len(a.buf) == 0 {
			return
		}
		if a.buf[0] == '$' {
			if len(a.buf) < 4 {
				return
			}
			n := int(a.buf[2])<<8 | int(a.buf[3])
			if len(a.buf) < 4+n {
				return
			}
			ch := int(a.buf[1])
			pl := append([]byte(nil), a.buf[4:4+n]...)
			a.buf = a.buf[4+n:]
			rec := RtspRecv{Track: ch / 2, B: pl, Step: a.K.Step(), Ms: a.K.NowMs()}
			if ch%2 == 0 {
				a.Rtp = append(a.Rtp, rec)
			} else {
				a.Rtcp = append(a.Rtcp, rec)
			}
			continue
		}
		// what is not an interleaved frame must be a response: anything else means the '$' framing was lost
		if probe := string(a.buf[:minInt(len(a.buf), 5)]); !strings.HasPrefix("RTSP/", probe) && !strings.HasPrefix(probe, "RTSP/") {
			a.Failed = "interleaved stream out of frame: expected '$' or a response, got " + strconv.Quote(string(a.buf[:minInt(len(a.buf), 16)]))
			return
		}
		i := strings.Index(string(a.buf), "\r\n\r\n")
		if i < 0 {
			if len(a.buf) > 65536 {
				a.Failed = "response header too long"
			}
			return
		}
		head := string(a.buf[:i])
		lines := strings.Split(head, "\r\n")
		cl := 0
		hdr := map[string]string{}
		for _, l := range lines[1:] {
			if j := strings.Index(l, ":"); j > 0 {
				k := strings.ToLower(strings.TrimSpace(l[:j]))
				hdr[k] = strings.TrimSpace(l[j+1:])
			}
		}
		if v, ok := hdr["content-length"]; ok {
			cl, _ = strconv.Atoi(v)
		}
		if len(a.buf) < i+4+cl {
			return
		}
		body := string(a.buf[i+4 : i+4+cl])
		a.buf = a.buf[i+4+cl:]
		f := strings.Fields(lines[0])
		if len(f) < 2 || !strings.HasPrefix(f[0], "RTSP/") {
			a.Failed = "malformed status line " + strconv.Quote(lines[0])
			return
		}
		code, _ := strconv.Atoi(f[1])
		a.Status = append(a.Status, code)
		a.onResponse(code, hdr, body)
	}
}

func (a *RtspClient) onResponse(code int, hdr map[string]string, body string) {
	switch a.stage {
	case "options":
		if code != 200 {
			a.Failed = fmt.Sprintf("OPTIONS -> %d", code)
			return
		}
		a.afterOptions()
	case "announce":
		if code != 200 {
			a.Failed = fmt.Sprintf("ANNOUNCE -> %d", code)
			return
		}
		a.AnnounceOK = true
		a.AnnounceStep = a.K.Step()
		a.stage = "setup"
		a.setup = 0
		a.sendSetup()
	case "describe":
		if code == 401 && a.Challenge == "" && (a.User != "" || a.RawAuth != "") {
			a.Challenge = hdr["www-authenticate"]
			var auth string
			if a.RawAuth != "" {
				auth = a.RawAuth
			} else if strings.HasPrefix(a.Challenge, "Digest") {
				auth = a.digestAuth("DESCRIBE", quoted(a.Challenge, "realm"), quoted(a.Challenge, "nonce"))
			} else {
				auth = a.basicAuth()
			}
			a.request("DESCRIBE", a.Url, []string{"Authorization: " + auth, "Accept: application/sdp"}, "")
			return
		}
		if code == 401 {
			a.Challenge = hdr["www-authenticate"]
		}
		if code != 200 {
			a.Failed = fmt.Sprintf("DESCRIBE -> %d", code)
			return
		}
		a.DescribeOK = true
		a.SdpRecv = body
		a.Tracks = ParseSdpTracks(body)
		if a.DescribeOnly || len(a.Tracks) == 0 {
			if len(a.Tracks) == 0 {
				a.Failed = "SDP without tracks"
			}
			return
		}
		a.stage = "setup"
		a.setup = 0
		a.sendSetup()
	case "setup":
		if code != 200 {
			a.Failed = fmt.Sprintf("SETUP -> %d", code)
			return
		}
		if !a.Tcp {
			tr := hdr["transport"]
			if i := strings.Index(tr, "server_port="); i >= 0 {
				v := tr[i+len("server_port="):]
				if j := strings.IndexAny(v, ";, "); j >= 0 {
					v = v[:j]
				}
				pp := strings.Split(v, "-")
				a.Tracks[a.setup].ServerRtp, _ = strconv.Atoi(pp[0])
				if len(pp) > 1 {
					a.Tracks[a.setup].ServerRtcp, _ = strconv.Atoi(pp[1])
				}
			} else {
				a.Failed = "SETUP response without server_port: " + tr
				return
			}
		}
		a.setup++
		if a.setup < len(a.Tracks) {
			a.sendSetup()
			return
		}
		if a.Mode == "pub" {
			a.stage = "record"
			a.request("RECORD", a.Url, []string{"Range: npt=0.000-"}, "")
		} else {
			a.stage = "play"
			a.request("PLAY", a.Url, []string{"Range: npt=0.000-"}, "")
		}
	case "record", "play":
		if code != 200 {
			a.Failed = fmt.Sprintf("%s -> %d", strings.ToUpper(a.stage), code)
			return
		}
		a.Ready = true
		a.ReadyStep = a.K.Step()
		a.stage = "run"
	case "teardown":
	}
}

func quoted(s, key string) string {
	i := strings.Index(s, key+`="`)
	if i < 0 {
		return ""
	}
	s = s[i+len(key)+2:]
	if j := strings.Index(s, `"`); j >= 0 {
		return s[:j]
	}
	return ""
}

// SendRtp sends one RTP packet of a track (publisher). It reports false when the transport is gone.
func (a *RtspClient) SendRtp(track int, p rtpc.Packet) bool {
	return a.SendRaw(track, false, p.Marshal())
}

// SendRaw sends arbitrary bytes as RTP (rtcp=false) or RTCP packet of a track.
func (a *RtspClient) SendRaw(track int, rtcp bool, b []byte) bool {
	if a.Conn == nil || a.Closed {
		return false
	}
	t := a.Tracks[track]
	if a.Tcp {
		ch := t.ChRtp
		if rtcp {
			ch++
		}
		f := []byte{'$', byte(ch), byte(len(b) >> 8), byte(len(b))}
		a.Conn.Send(append(f, b...))
		return true
	}
	port, from := t.ServerRtp, t.ClientRtp
	if rtcp {
		port, from = t.ServerRtcp, t.ClientRtp+1
	}
	return a.K.UDPSend(net.UDPAddr{IP: net.ParseIP(a.host()), Port: from}, port, b)
}

func (a *RtspClient) OnClose(c *sim.Conn) {
	a.Closed = true
	a.ClosedStep = a.K.Step()
}

// Leave ends the session: TEARDOWN then FIN (graceful), or RST.
func (a *RtspClient) Leave(reset bool) {
	if a.Conn == nil {
		return
	}
	if reset {
		a.Conn.ResetByPeer()
		return
	}
	if !a.NoTeardown && a.stage == "run" {
		a.stage = "teardown"
		a.request("TEARDOWN", a.Url, nil, "")
	}
	a.Conn.CloseByPeer()
}

// ParseSdpTracks extracts the media sections of an SDP (independent of lal's parser).
func ParseSdpTracks(s string) []RtspTrack {
	var ts []RtspTrack
	var cur *RtspTrack
	for _, l := range strings.Split(strings.ReplaceAll(s, "\r\n", "\n"), "\n") {
		switch {
		case strings.HasPrefix(l, "m="):
			f := strings.Fields(l[2:])
			ts = append(ts, RtspTrack{Audio: len(f) > 0 && f[0] == "audio", Fmtp: map[string]string{}})
			cur = &ts[len(ts)-1]
			if len(f) > 3 {
				cur.PT, _ = strconv.Atoi(f[3])
			}
			if cur.Audio && cur.PT == 0 {
				cur.Enc, cur.Clock = "PCMU", 8000
			}
			if cur.Audio && cur.PT == 8 {
				cur.Enc, cur.Clock = "PCMA", 8000
			}
		case cur == nil:
		case strings.HasPrefix(l, "a=rtpmap:"):
			f := strings.SplitN(l[len("a=rtpmap:"):], " ", 2)
			if len(f) == 2 {
				cur.PT, _ = strconv.Atoi(f[0])
				g := strings.Split(f[1], "/")
				cur.Enc = g[0]
				if len(g) > 1 {
					cur.Clock, _ = strconv.Atoi(g[1])
				}
			}
		case strings.HasPrefix(l, "a=fmtp:"):
			f := strings.SplitN(l[len("a=fmtp:"):], " ", 2)
			if len(f) == 2 {
				for _, kv := range strings.Split(f[1], ";") {
					kv = strings.TrimSpace(kv)
					if i := strings.Index(kv, "="); i > 0 {
						cur.Fmtp[kv[:i]] = kv[i+1:]
					}
				}
			}
		case strings.HasPrefix(l, "a=control:"):
			cur.Control = l[len("a=control:"):]
		}
	}
	return ts
}

//go:build !race

package sim

// RaceEnabled reports whether the binary was built with the race detector.
const RaceEnabled = false

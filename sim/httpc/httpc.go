// Package httpc is the harness's independent HTTP/1.1 response parser, WebSocket frame parser and
// FLV parser. It imports nothing from lal.
package httpc

import (
	"bytes"
	"encoding/binary"
	"fmt"
	"strconv"
	"strings"
)

// ---- HTTP response -------------------------------------------------------------------------------------------------------

// Response incrementally parses one HTTP/1.1 response (status line, headers, then body by
// Content-Length, chunked coding, or until close).
type Response struct {
	buf        []byte
	HeaderDone bool
	Status     int
	Proto      string
	Headers    map[string]string
	Body       []byte // decoded body bytes so far
	Complete   bool   // body complete (length / chunked); close-delimited bodies complete on close
	Err        error
	remain     int // content-length remaining, -1 close-delimited
	chunked    bool
	chunkLeft  int // -1: expect size line
}

func (r *Response) Feed(b []byte) {
	if r.Err != nil {
		return
	}
	r.buf = append(r.buf, b...)
	if !r.HeaderDone {
		i := bytes.Index(r.buf, []byte("\r\n\r\n"))
		if i < 0 {
			if len(r.buf) > 1<<20 {
				r.Err = fmt.Errorf("header too large")
			}
			return
		}
		head := string(r.buf[:i])
		r.buf = r.buf[i+4:]
		lines := strings.Split(head, "\r\n")
		parts := strings.SplitN(lines[0], " ", 3)
		if len(parts) < 2 {
			r.Err = fmt.Errorf("bad status line %q", lines[0])
			return
		}
		r.Proto = parts[0]
		st, err := strconv.Atoi(parts[1])
		if err != nil {
			r.Err = fmt.Errorf("bad status %q", lines[0])
			return
		}
		r.Status = st
		r.Headers = map[string]string{}
		for _, l := range lines[1:] {
			j := strings.IndexByte(l, ':')
			if j < 0 {
				r.Err = fmt.Errorf("bad header line %q", l)
				return
			}
			r.Headers[strings.ToLower(strings.TrimSpace(l[:j]))] = strings.TrimSpace(l[j+1:])
		}
		r.HeaderDone = true
		r.remain = -1
		if cl, ok := r.Headers["content-length"]; ok {
			n, err := strconv.Atoi(cl)
			if err != nil || n < 0 {
				r.Err = fmt.Errorf("bad content-length %q", cl)
				return
			}
			r.remain = n
			if n == 0 {
				r.Complete = true
			}
		}
		if strings.Contains(strings.ToLower(r.Headers["transfer-encoding"]), "chunked") {
			r.chunked = true
			r.chunkLeft = -1
		}
	}
	r.body()
}

func (r *Response) body() {
	for len(r.buf) > 0 && !r.Complete && r.Err == nil {
		switch {
		case r.chunked:
			if r.chunkLeft == -1 {
				i := bytes.Index(r.buf, []byte("\r\n"))
				if i < 0 {
					return
				}
				line := strings.TrimSpace(strings.SplitN(string(r.buf[:i]), ";", 2)[0])
				n, err := strconv.ParseInt(line, 16, 32)
				if err != nil {
					r.Err = fmt.Errorf("bad chunk size %q", line)
					return
				}
				r.buf = r.buf[i+2:]
				if n == 0 {
					r.Complete = true
					return
				}
				r.chunkLeft = int(n)
			} else if r.chunkLeft > 0 {
				n := r.chunkLeft
				if n > len(r.buf) {
					n = len(r.buf)
				}
				r.Body = append(r.Body, r.buf[:n]...)
				r.buf = r.buf[n:]
				r.chunkLeft -= n
			} else {
				if len(r.buf) < 2 {
					return
				}
				r.buf = r.buf[2:]
				r.chunkLeft = -1
			}
		case r.remain >= 0:
			n := r.remain
			if n > len(r.buf) {
				n = len(r.buf)
			}
			r.Body = append(r.Body, r.buf[:n]...)
			r.buf = r.buf[n:]
			r.remain -= n
			if r.remain == 0 {
				r.Complete = true
			}
		default:
			r.Body = append(r.Body, r.buf...)
			r.buf = nil
		}
	}
}

// MarkClosed tells the parser the connection ended: a close-delimited body is then complete.
func (r *Response) MarkClosed() {
	if r.HeaderDone && !r.Complete && !r.chunked && r.remain < 0 {
		r.Complete = true
	}
}

// TakeBody returns and clears the body bytes decoded so far (for streaming consumers).
func (r *Response) TakeBody() []byte {
	b := r.Body
	r.Body = nil
	return b
}

// ---- WebSocket frames (server -> client) ----------------------------------------------------------------------------------

type WsFrame struct {
	Fin     bool
	Rsv     byte
	Opcode  byte
	Masked  bool
	LenForm int // 7, 16 or 64
	Payload []byte
}

type WsParser struct {
	buf    []byte
	Frames []WsFrame
	Err    error
}

func (p *WsParser) Feed(b []byte) []WsFrame {
	if p.Err != nil {
		return nil
	}
	p.buf = append(p.buf, b...)
	var out []WsFrame
	for {
		if len(p.buf) < 2 {
			break
		}
		f := WsFrame{Fin: p.buf[0]&0x80 != 0, Rsv: (p.buf[0] >> 4) & 7, Opcode: p.buf[0] & 0xf, Masked: p.buf[1]&0x80 != 0}
		l := uint64(p.buf[1] & 0x7f)
		i := 2
		f.LenForm = 7
		if l == 126 {
			if len(p.buf) < 4 {
				break
			}
			l = uint64(binary.BigEndian.Uint16(p.buf[2:]))
			i = 4
			f.LenForm = 16
			if l < 126 {
				p.Err = fmt.Errorf("ws: non-minimal 16-bit length %d", l)
				return out
			}
		} else if l == 127 {
			if len(p.buf) < 10 {
				break
			}
			l = binary.BigEndian.Uint64(p.buf[2:])
			i = 10
			f.LenForm = 64
			if l < 65536 {
				p.Err = fmt.Errorf("ws: non-minimal 64-bit length %d", l)
				return out
			}
			if l>>63 != 0 {
				p.Err = fmt.Errorf("ws: length msb set")
				return out
			}
		}
		var mask []byte
		if f.Masked {
			if len(p.buf) < i+4 {
				break
			}
			mask = p.buf[i : i+4]
			i += 4
		}
		if l > 64<<20 {
			p.Err = fmt.Errorf("ws: absurd frame length %d", l)
			return out
		}
		if uint64(len(p.buf)-i) < l {
			break
		}
		f.Payload = append([]byte(nil), p.buf[i:i+int(l)]...)
		if f.Masked {
			for j := range f.Payload {
				f.Payload[j] ^= mask[j%4]
			}
		}
		p.buf = p.buf[i+int(l):]
		out = append(out, f)
	}
	p.Frames = append(p.Frames, out...)
	return out
}

func (p *WsParser) Buffered() int { return len(p.buf) }

// ---- FLV -----------------------------------------------------------------------------------------------------------------

type FlvTag struct {
	Type     uint8
	Ts       uint32
	StreamID uint32
	Data     []byte
	Off      int // offset of the tag in the stream
}

// FlvParser incrementally parses an FLV byte stream and validates its framing.
type FlvParser struct {
	buf        []byte
	off        int
	HeaderDone bool
	HasAudio   bool
	HasVideo   bool
	Tags       []FlvTag
	Err        error
}

func (p *FlvParser) Feed(b []byte) []FlvTag {
	if p.Err != nil {
		return nil
	}
	p.buf = append(p.buf, b...)
	var out []FlvTag
	if !p.HeaderDone {
		if len(p.buf) < 13 {
			return nil
		}
		h := p.buf[:13]
		if h[0] != 'F' || h[1] != 'L' || h[2] != 'V' || h[3] != 1 {
			p.Err = fmt.Errorf("flv: bad signature % x", h[:4])
			return nil
		}
		if h[4]&0xfa != 0 {
			p.Err = fmt.Errorf("flv: reserved flag bits set %02x", h[4])
			return nil
		}
		p.HasAudio = h[4]&4 != 0
		p.HasVideo = h[4]&1 != 0
		if binary.BigEndian.Uint32(h[5:]) != 9 {
			p.Err = fmt.Errorf("flv: data offset %d", binary.BigEndian.Uint32(h[5:]))
			return nil
		}
		if binary.BigEndian.Uint32(h[9:]) != 0 {
			p.Err = fmt.Errorf("flv: PreviousTagSize0 = %d", binary.BigEndian.Uint32(h[9:]))
			return nil
		}
		p.buf = p.buf[13:]
		p.off = 13
		p.HeaderDone = true
	}
	for {
		if len(p.buf) < 11 {
			break
		}
		h := p.buf[:11]
		size := int(h[1])<<16 | int(h[2])<<8 | int(h[3])
		if len(p.buf) < 11+size+4 {
			break
		}
		t := FlvTag{Type: h[0], Ts: uint32(h[7])<<24 | uint32(h[4])<<16 | uint32(h[5])<<8 | uint32(h[6]),
			StreamID: uint32(h[8])<<16 | uint32(h[9])<<8 | uint32(h[10]), Off: p.off}
		if t.Type != 8 && t.Type != 9 && t.Type != 18 {
			p.Err = fmt.Errorf("flv: tag type %d at offset %d", t.Type, p.off)
			return out
		}
		if t.StreamID != 0 {
			p.Err = fmt.Errorf("flv: stream id %d at offset %d", t.StreamID, p.off)
			return out
		}
		t.Data = append([]byte(nil), p.buf[11:11+size]...)
		pts := binary.BigEndian.Uint32(p.buf[11+size:])
		if int(pts) != 11+size {
			p.Err = fmt.Errorf("flv: previous tag size %d != %d at offset %d", pts, 11+size, p.off)
			return out
		}
		p.buf = p.buf[11+size+4:]
		p.off += 11 + size + 4
		out = append(out, t)
	}
	p.Tags = append(p.Tags, out...)
	return out
}

func (p *FlvParser) Buffered() int { return len(p.buf) }

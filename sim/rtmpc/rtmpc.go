// Package rtmpc is an independent reference implementation of the parts of RTMP the harness
// needs: simple handshake, chunk stream writer and reader (RTMP 1.0 spec section 5.3), and a
// minimal AMF0 codec. It imports nothing from lal.
package rtmpc

import (
	"encoding/binary"
	"errors"
	"fmt"
	"math"
)

const (
	TypeSetChunkSize = 1
	TypeAbort        = 2
	TypeAck          = 3
	TypeUserControl  = 4
	TypeWinAckSize   = 5
	TypeSetPeerBw    = 6
	TypeAudio        = 8
	TypeVideo        = 9
	TypeDataAmf3     = 15
	TypeCmdAmf3      = 17
	TypeDataAmf0     = 18
	TypeCmdAmf0      = 20
	TypeAggregate    = 22
)

// Msg is one RTMP message.
type Msg struct {
	Type    uint8
	Msid    uint32
	Ts      uint32 // absolute timestamp
	Csid    int    // chunk stream id it was (or is to be) carried on
	Payload []byte
}

func (m Msg) String() string {
	return fmt.Sprintf("{type=%d msid=%d ts=%d csid=%d len=%d}", m.Type, m.Msid, m.Ts, m.Csid, len(m.Payload))
}

// ---- chunk stream writer -----------------------------------------------------------------------------------------------

type csState struct {
	has     bool
	ts      uint32 // absolute timestamp of the previous message on this chunk stream
	delta   uint32
	length  uint32
	typ     uint8
	msid    uint32
	ext     bool // previous header carried an extended timestamp
	extVal  uint32
	deltaOk bool // delta was established by a format 1/2 header
	fmt0    bool // the previous message header was format 0 (its timestamp field then doubles as the delta, RTMP spec 5.3.1.2.4)
}

// Writer is a reference chunk stream encoder. FmtChoice lets the caller force "the most compact legal
// format" (default) or always format 0.
type Writer struct {
	ChunkSize  int
	AlwaysFmt0 bool
	// Fmt3AfterFmt0 lets the encoder start a message with a format-3 chunk right after a format-0 message when
	// the new timestamp is exactly twice the previous one (the spec's rule for the implied delta)
	Fmt3AfterFmt0 bool
	cs            map[int]*csState
}

func NewWriter() *Writer { return &Writer{ChunkSize: 128, cs: map[int]*csState{}} }

func basicHeader(fmtv uint8, csid int) []byte {
	switch {
	case csid >= 2 && csid <= 63:
		return []byte{fmtv<<6 | uint8(csid)}
	case csid >= 64 && csid <= 319:
		return []byte{fmtv << 6, uint8(csid - 64)}
	default:
		v := csid - 64
		return []byte{fmtv<<6 | 1, uint8(v), uint8(v >> 8)}
	}
}

func put24(b []byte, v uint32) { b[0], b[1], b[2] = byte(v>>16), byte(v>>8), byte(v) }

// Encode serialises one message into chunks, choosing the most compact header format the spec allows
// given the previous message on the same chunk stream (delta timestamps must be < 0xFFFFFF and
// non-negative; otherwise format 0 is used).
func (w *Writer) Encode(m Msg) []byte {
	st := w.cs[m.Csid]
	if st == nil {
		st = &csState{}
		w.cs[m.Csid] = st
	}
	fmtv := uint8(0)
	var tsField uint32 = m.Ts
	if st.has && !w.AlwaysFmt0 && st.msid == m.Msid && m.Ts >= st.ts && m.Ts-st.ts < 0xFFFFFF {
		delta := m.Ts - st.ts
		fmtv = 1
		tsField = delta
		if st.length == uint32(len(m.Payload)) && st.typ == m.Type {
			fmtv = 2
			if st.delta == delta && st.deltaOk {
				fmtv = 3
			}
			// "If a Type 3 chunk follows a Type 0 chunk, then the timestamp delta for this Type 3 chunk is the same
			// as the timestamp of the Type 0 chunk."
			if st.fmt0 && !st.ext && st.ts == delta && w.Fmt3AfterFmt0 {
				fmtv = 3
			}
		}
		st.delta = delta
		st.deltaOk = true
	} else {
		st.deltaOk = false
		st.delta = 0
	}
	out := w.header(fmtv, m, tsField, st)
	st.fmt0 = fmtv == 0
	// payload in chunks
	cs := w.ChunkSize
	p := m.Payload
	first := true
	for first || len(p) > 0 {
		if !first {
			out = append(out, basicHeader(3, m.Csid)...)
			if st.ext {
				var e [4]byte
				binary.BigEndian.PutUint32(e[:], st.extVal)
				out = append(out, e[:]...)
			}
		}
		n := len(p)
		if n > cs {
			n = cs
		}
		out = append(out, p[:n]...)
		p = p[n:]
		first = false
	}
	st.has = true
	st.ts = m.Ts
	st.length = uint32(len(m.Payload))
	st.typ = m.Type
	st.msid = m.Msid
	return out
}

func (w *Writer) header(fmtv uint8, m Msg, tsField uint32, st *csState) []byte {
	out := basicHeader(fmtv, m.Csid)
	if fmtv == 3 {
		// a format-3 chunk starting a new message repeats the previous delta; extended timestamp
		// presence follows the previous header
		if st.ext {
			var e [4]byte
			binary.BigEndian.PutUint32(e[:], st.extVal)
			out = append(out, e[:]...)
		}
		return out
	}
	var h [11]byte
	ext := tsField >= 0xFFFFFF
	if ext {
		put24(h[0:], 0xFFFFFF)
	} else {
		put24(h[0:], tsField)
	}
	n := 3
	if fmtv <= 1 {
		put24(h[3:], uint32(len(m.Payload)))
		h[6] = m.Type
		n = 7
		if fmtv == 0 {
			binary.LittleEndian.PutUint32(h[7:], m.Msid)
			n = 11
		}
	}
	out = append(out, h[:n]...)
	st.ext = ext
	st.extVal = tsField
	if ext {
		var e [4]byte
		binary.BigEndian.PutUint32(e[:], tsField)
		out = append(out, e[:]...)
	}
	return out
}

// EncodeChunks serialises one message and returns its chunks separately (each with its chunk header),
// so that a caller can interleave the chunks of messages carried on different chunk streams.
func (w *Writer) EncodeChunks(m Msg) [][]byte {
	whole := w.Encode(m)
	// re-split: the first chunk is header + min(len, chunk size) bytes; continuation chunks are
	// basic header (+ extended timestamp) + payload
	st := w.cs[m.Csid]
	bh := len(basicHeader(0, m.Csid))
	contHdr := bh
	if st.ext {
		contHdr += 4
	}
	n := len(m.Payload)
	first := n
	if first > w.ChunkSize {
		first = w.ChunkSize
	}
	nCont := 0
	if n > first {
		nCont = (n - first + w.ChunkSize - 1) / w.ChunkSize
	}
	firstHdr := len(whole) - n - nCont*contHdr
	var out [][]byte
	out = append(out, whole[:firstHdr+first])
	rest := whole[firstHdr+first:]
	left := n - first
	for left > 0 {
		c := left
		if c > w.ChunkSize {
			c = w.ChunkSize
		}
		out = append(out, rest[:contHdr+c])
		rest = rest[contHdr+c:]
		left -= c
	}
	return out
}

// EncodeParts returns the header of the message's first chunk and the header every continuation chunk carries
// (format-3 basic header plus the extended timestamp when the message uses one), so that a caller can cut the
// payload into chunks itself - e.g. with a chunk size that changes while the message is in flight.
func (w *Writer) EncodeParts(m Msg) (firstHdr, contHdr []byte) {
	chunks := w.EncodeChunks(m)
	n := len(m.Payload)
	first := n
	if first > w.ChunkSize {
		first = w.ChunkSize
	}
	firstHdr = append([]byte(nil), chunks[0][:len(chunks[0])-first]...)
	contHdr = basicHeader(3, m.Csid)
	if st := w.cs[m.Csid]; st.ext {
		var e [4]byte
		binary.BigEndian.PutUint32(e[:], st.extVal)
		contHdr = append(contHdr, e[:]...)
	}
	return
}

// SetChunkSizeMsg builds the protocol control message announcing a new chunk size.
func SetChunkSizeMsg(n int) Msg {
	var p [4]byte
	binary.BigEndian.PutUint32(p[:], uint32(n))
	return Msg{Type: TypeSetChunkSize, Msid: 0, Ts: 0, Csid: 2, Payload: p[:]}
}

// ---- chunk stream reader -----------------------------------------------------------------------------------------------

type rdState struct {
	has     bool
	ts      uint32
	delta   uint32
	length  uint32
	typ     uint8
	msid    uint32
	ext     bool
	partial []byte // payload of the message being assembled
	inMsg   bool
}

// Reader is a specification-following chunk stream decoder fed with arbitrary byte segments.
type Reader struct {
	ChunkSize int
	buf       []byte
	cs        map[int]*rdState
	Err       error
	// HandleSetChunkSize: apply Set Chunk Size messages automatically (default true).
	NoAutoChunkSize bool
}

func NewReader() *Reader { return &Reader{ChunkSize: 128, cs: map[int]*rdState{}} }

var errNeedMore = errors.New("need more")

// Feed appends bytes and returns every message completed by them.
func (r *Reader) Feed(b []byte) []Msg {
	if r.Err != nil {
		return nil
	}
	r.buf = append(r.buf, b...)
	var out []Msg
	for {
		m, n, err := r.tryChunk()
		if err == errNeedMore {
			break
		}
		if err != nil {
			r.Err = err
			break
		}
		r.buf = r.buf[n:]
		if m != nil {
			if m.Type == TypeSetChunkSize && len(m.Payload) >= 4 && !r.NoAutoChunkSize {
				v := int(binary.BigEndian.Uint32(m.Payload) & 0x7fffffff)
				if v > 0 {
					r.ChunkSize = v
				}
			}
			out = append(out, *m)
		}
	}
	return out
}

// Buffered is the number of bytes not yet consumed (an incomplete chunk).
func (r *Reader) Buffered() int { return len(r.buf) }

// InMessage reports whether some chunk stream holds a partially assembled message.
func (r *Reader) InMessage() bool {
	for _, s := range r.cs {
		if s.inMsg {
			return true
		}
	}
	return false
}

func (r *Reader) tryChunk() (*Msg, int, error) {
	b := r.buf
	if len(b) < 1 {
		return nil, 0, errNeedMore
	}
	fmtv := b[0] >> 6
	csid := int(b[0] & 0x3f)
	i := 1
	switch csid {
	case 0:
		if len(b) < 2 {
			return nil, 0, errNeedMore
		}
		csid = 64 + int(b[1])
		i = 2
	case 1:
		if len(b) < 3 {
			return nil, 0, errNeedMore
		}
		csid = 64 + int(b[1]) + int(b[2])<<8
		i = 3
	}
	st := r.cs[csid]
	if st == nil {
		st = &rdState{}
		r.cs[csid] = st
	}
	hl := [4]int{11, 7, 3, 0}[fmtv]
	if len(b) < i+hl {
		return nil, 0, errNeedMore
	}
	h := b[i : i+hl]
	i += hl
	// work on copies; commit only when the whole chunk is present
	ns := *st
	var tsField uint32
	if fmtv <= 2 {
		tsField = uint32(h[0])<<16 | uint32(h[1])<<8 | uint32(h[2])
		ns.ext = tsField == 0xFFFFFF
		if fmtv <= 1 {
			ns.length = uint32(h[3])<<16 | uint32(h[4])<<8 | uint32(h[5])
			ns.typ = h[6]
			if fmtv == 0 {
				ns.msid = binary.LittleEndian.Uint32(h[7:])
			}
		}
	} else if !st.has {
		return nil, 0, fmt.Errorf("format-3 chunk on unknown chunk stream %d", csid)
	}
	if ns.ext {
		if len(b) < i+4 {
			return nil, 0, errNeedMore
		}
		tsField = binary.BigEndian.Uint32(b[i:])
		i += 4
	}
	havePartial := len(st.partial)
	if !st.inMsg {
		// first chunk of a message
		switch fmtv {
		case 0:
			ns.ts = tsField
			ns.delta = tsField // spec 5.3.1.2.4: a following format-3 message repeats the format-0 timestamp as its delta
		case 1, 2:
			ns.delta = tsField
			ns.ts = st.ts + tsField
		case 3:
			// repeats the previous delta (after a format 0 the delta is that header's timestamp)
			ns.ts = st.ts + st.delta
		}
		havePartial = 0
	} else if fmtv != 3 {
		return nil, 0, fmt.Errorf("csid %d: format-%d chunk inside a message", csid, fmtv)
	}
	need := int(ns.length) - havePartial
	if need > r.ChunkSize {
		need = r.ChunkSize
	}
	if len(b) < i+need {
		return nil, 0, errNeedMore
	}
	// commit
	part := st.partial[:havePartial]
	part = append(part, b[i:i+need]...)
	i += need
	ns.partial = part
	ns.has = true
	ns.inMsg = len(part) < int(ns.length)
	*st = ns
	if !st.inMsg {
		m := &Msg{Type: st.typ, Msid: st.msid, Ts: st.ts, Csid: csid, Payload: append([]byte(nil), st.partial...)}
		st.partial = st.partial[:0]
		return m, i, nil
	}
	return nil, i, nil
}

// ---- AMF0 ----------------------------------------------------------------------------------------------------------------

type Amf struct{ B []byte }

func (a *Amf) Str(s string) *Amf {
	a.B = append(a.B, 2, byte(len(s)>>8), byte(len(s)))
	a.B = append(a.B, s...)
	return a
}
func (a *Amf) Num(f float64) *Amf {
	var b [8]byte
	binary.BigEndian.PutUint64(b[:], math.Float64bits(f))
	a.B = append(a.B, 0)
	a.B = append(a.B, b[:]...)
	return a
}
func (a *Amf) Bool(v bool) *Amf {
	x := byte(0)
	if v {
		x = 1
	}
	a.B = append(a.B, 1, x)
	return a
}
func (a *Amf) Null() *Amf { a.B = append(a.B, 5); return a }

// Obj writes an object from alternating key, value pairs (value: string, float64, bool).
func (a *Amf) Obj(kv ...interface{}) *Amf {
	a.B = append(a.B, 3)
	a.props(kv)
	a.B = append(a.B, 0, 0, 9)
	return a
}

// Ecma writes an ECMA array.
func (a *Amf) Ecma(kv ...interface{}) *Amf {
	a.B = append(a.B, 8)
	var n [4]byte
	binary.BigEndian.PutUint32(n[:], uint32(len(kv)/2))
	a.B = append(a.B, n[:]...)
	a.props(kv)
	a.B = append(a.B, 0, 0, 9)
	return a
}

func (a *Amf) props(kv []interface{}) {
	for i := 0; i+1 < len(kv); i += 2 {
		k := kv[i].(string)
		a.B = append(a.B, byte(len(k)>>8), byte(len(k)))
		a.B = append(a.B, k...)
		switch v := kv[i+1].(type) {
		case string:
			a.Str(v)
		case float64:
			a.Num(v)
		case int:
			a.Num(float64(v))
		case bool:
			a.Bool(v)
		}
	}
}

// AmfReadString reads a type-2 string at the start of b.
func AmfReadString(b []byte) (string, int, bool) {
	if len(b) < 3 || b[0] != 2 {
		return "", 0, false
	}
	n := int(b[1])<<8 | int(b[2])
	if len(b) < 3+n {
		return "", 0, false
	}
	return string(b[3 : 3+n]), 3 + n, true
}

// AmfReadNumber reads a type-0 number at the start of b.
func AmfReadNumber(b []byte) (float64, int, bool) {
	if len(b) < 9 || b[0] != 0 {
		return 0, 0, false
	}
	return math.Float64frombits(binary.BigEndian.Uint64(b[1:])), 9, true
}

// ---- handshake (simple) ------------------------------------------------------------------------------------------------

// C0C1 returns the client's first 1537 handshake bytes (simple handshake: version 3, zero "version" field).
func C0C1(fill byte) []byte {
	b := make([]byte, 1537)
	b[0] = 3
	for i := 9; i < len(b); i++ {
		b[i] = fill + byte(i)
	}
	return b
}

// C2 echoes S1 (bytes 1..1536 of the server's reply).
func C2(s0s1s2 []byte) []byte {
	c2 := make([]byte, 1536)
	copy(c2, s0s1s2[1:1537])
	return c2
}

const S0S1S2Len = 1 + 1536 + 1536

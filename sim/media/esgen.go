// Package media generates synthetic elementary streams whose every unit (NAL unit, audio frame,
// metadata) embeds an identity (incarnation, track, index), so that anything a consumer receives is
// attributable to exactly one published unit. It imports nothing from lal.
package media

import (
	"encoding/binary"
	"fmt"
	"strconv"
	"strings"

	"simlal/sim/rtmpc"
)

type Kind int

const (
	KMeta Kind = iota
	KVideoSeq
	KAudioSeq
	KVideo
	KAudio
)

func (k Kind) String() string { return [...]string{"meta", "vseq", "aseq", "video", "audio"}[k] }

// Unit is one published RTMP-level unit.
type Unit struct {
	Idx    int // index in the publish sequence of this incarnation
	Inc    int // incarnation (publisher number)
	Kind   Kind
	Key    bool
	Ts     uint32
	Cts    int32
	Nals   [][]byte // video: NAL units (without length prefix / start code)
	Audio  []byte   // audio: raw frame (AAC raw data block / G.711 samples / Opus packet)
	Msg    rtmpc.Msg
	HdrGen int // generation of the sequence headers in force when this unit was published
}

const (
	CodecAVC   = 7
	CodecHEVC  = 12
	SoundAAC   = 10
	SoundG711A = 7
	SoundG711U = 8
	SoundOpus  = 13
)

// Spec describes the stream an incarnation publishes.
type Spec struct {
	Inc         int
	VideoCodec  int // 0 none, CodecAVC, CodecHEVC
	AudioCodec  int // 0 none, SoundAAC, ...
	AacSrIndex  int // sampling frequency index for AAC (4 = 44.1k)
	AacChannels int
}

// IDText is the attribution tag embedded in every payload; it contains no zero bytes.
func IDText(inc, track, idx int) string {
	return fmt.Sprintf("<I%03dT%dN%06d>", inc, track, idx)
}

// ParseID finds the attribution tag in b.
func ParseID(b []byte) (inc, track, idx int, ok bool) {
	s := string(b)
	i := strings.Index(s, "<I")
	if i < 0 || len(s) < i+15 {
		return
	}
	t := s[i : i+15]
	if t[5] != 'T' || t[7] != 'N' || t[14] != '>' {
		return
	}
	a, e1 := strconv.Atoi(t[2:5])
	b2, e2 := strconv.Atoi(t[6:7])
	c, e3 := strconv.Atoi(t[8:14])
	if e1 != nil || e2 != nil || e3 != nil {
		return
	}
	return a, b2, c, true
}

// filler returns n deterministic non-zero bytes (no start-code emulation possible).
func filler(seed uint64, n int) []byte {
	out := make([]byte, n)
	x := seed*0x9E3779B97F4A7C15 + 1
	for i := range out {
		x ^= x << 13
		x ^= x >> 7
		x ^= x << 17
		v := byte(x)
		if v == 0 {
			v = 0x5a
		}
		out[i] = v
	}
	return out
}

// Body builds a payload body of exactly n bytes (n >= 1) that starts with the ID tag when it fits.
func Body(inc, track, idx, n int) []byte {
	id := []byte(IDText(inc, track, idx))
	if n <= len(id) {
		// too small for a tag: derive bytes from the identity so that they are still (mostly) unique
		return filler(uint64(inc)<<40|uint64(track)<<32|uint64(idx), n)
	}
	return append(id, filler(uint64(inc)<<40|uint64(track)<<32|uint64(idx)+77, n-len(id))...)
}

// ---- AVC ----------------------------------------------------------------------------------------------------------------

var baseSps = []byte{0x67, 0x64, 0x00, 0x1f, 0xac, 0xd9, 0x40, 0x50, 0x05, 0xbb, 0x01, 0x10, 0x00, 0x00, 0x03, 0x00, 0x10, 0x00, 0x00, 0x03, 0x03, 0xc0, 0xf1, 0x83, 0x19, 0x60}
var basePps = []byte{0x68, 0xeb, 0xe3, 0xcb, 0x22, 0xc0}

// AvcParamSets returns SPS and PPS for header generation gen (the PPS differs per generation, the SPS
// stays parseable).
func AvcParamSets(inc, gen int) (sps, pps []byte) {
	sps = append([]byte{}, baseSps...)
	pps = append([]byte{}, basePps...)
	pps = append(pps, byte(0x80|(inc&0x7)<<4|gen&0xf))
	return
}

// AvcSeqHeaderPayload builds the RTMP video payload carrying the AVCDecoderConfigurationRecord.
func AvcSeqHeaderPayload(sps, pps []byte) []byte {
	p := []byte{0x17, 0x00, 0, 0, 0, 0x01, sps[1], sps[2], sps[3], 0xff, 0xe1}
	p = append(p, byte(len(sps)>>8), byte(len(sps)))
	p = append(p, sps...)
	p = append(p, 0x01, byte(len(pps)>>8), byte(len(pps)))
	p = append(p, pps...)
	return p
}

// ---- HEVC ---------------------------------------------------------------------------------------------------------------

var baseVps = []byte{0x40, 0x01, 0x0c, 0x01, 0xff, 0xff, 0x01, 0x60, 0x00, 0x00, 0x03, 0x00, 0x90, 0x00, 0x00, 0x03, 0x00, 0x00, 0x03, 0x00, 0x3f, 0x95, 0x98, 0x09}
var baseHSps = []byte{0x42, 0x01, 0x01, 0x01, 0x60, 0x00, 0x00, 0x03, 0x00, 0x90, 0x00, 0x00, 0x03, 0x00, 0x00, 0x03, 0x00, 0x3f, 0xa0, 0x05, 0x02, 0x01, 0x69, 0x65, 0x95, 0x9a, 0x49, 0x32, 0xbc, 0x04, 0x04, 0x00, 0x00, 0x03, 0x00, 0x04, 0x00, 0x00, 0x03, 0x00, 0x64, 0x20}
var baseHPps = []byte{0x44, 0x01, 0xc1, 0x72, 0xb4, 0x62, 0x40}

func HevcParamSets(inc, gen int) (vps, sps, pps []byte) {
	vps = append([]byte{}, baseVps...)
	sps = append([]byte{}, baseHSps...)
	pps = append([]byte{}, baseHPps...)
	pps = append(pps, byte(0x80|(inc&0x7)<<4|gen&0xf))
	return
}

// HevcSeqHeaderPayload builds the (non-enhanced, codec id 12) RTMP payload with an HEVCDecoderConfigurationRecord.
func HevcSeqHeaderPayload(vps, sps, pps []byte) []byte {
	p := []byte{0x1c, 0x00, 0, 0, 0}
	rec := make([]byte, 23)
	rec[0] = 1
	if len(sps) > 3 {
		rec[1] = sps[3] // general profile space/tier/idc (approximation, opaque to lal)
	}
	rec[21] = 0xfc | 3 // lengthSizeMinusOne = 3
	rec[22] = 3        // numOfArrays
	p = append(p, rec...)
	for _, a := range []struct {
		t byte
		b []byte
	}{{32, vps}, {33, sps}, {34, pps}} {
		p = append(p, a.t, 0, 1, byte(len(a.b)>>8), byte(len(a.b)))
		p = append(p, a.b...)
	}
	return p
}

// ---- frames -------------------------------------------------------------------------------------------------------------

// VideoPayload builds an RTMP video payload from NAL units (length-prefixed).
func VideoPayload(codec int, key bool, cts int32, nals [][]byte) []byte {
	ft := byte(2)
	if key {
		ft = 1
	}
	p := []byte{ft<<4 | byte(codec), 0x01, byte(cts >> 16), byte(cts >> 8), byte(cts)}
	for _, n := range nals {
		var l [4]byte
		binary.BigEndian.PutUint32(l[:], uint32(len(n)))
		p = append(p, l[:]...)
		p = append(p, n...)
	}
	return p
}

// AvcNal builds one NAL unit of the given type with an identifying body of bodyLen bytes.
func AvcNal(nalType int, nri int, inc, idx, sub, bodyLen int) []byte {
	n := []byte{byte(nri&3)<<5 | byte(nalType&0x1f)}
	return append(n, Body(inc, 0, idx*8+sub, bodyLen)...)
}

// HevcNal builds one H.265 NAL unit (2-byte header) of the given type.
func HevcNal(nalType int, layer, tid int, inc, idx, sub, bodyLen int) []byte {
	h0 := byte(nalType&0x3f)<<1 | byte(layer>>5)&1
	h1 := byte(layer&0x1f)<<3 | byte(tid&7)
	n := []byte{h0, h1}
	return append(n, Body(inc, 0, idx*8+sub, bodyLen)...)
}

// AacSeqHeaderPayload builds the RTMP audio payload with the AudioSpecificConfig (AAC-LC).
func AacSeqHeaderPayload(srIndex, channels int) []byte {
	asc0 := byte(2<<3) | byte(srIndex>>1)
	asc1 := byte(srIndex&1)<<7 | byte(channels&0xf)<<3
	return []byte{0xaf, 0x00, asc0, asc1}
}

func AudioPayload(sound int, raw []byte) []byte {
	switch sound {
	case SoundAAC:
		return append([]byte{0xaf, 0x01}, raw...)
	case SoundG711A:
		return append([]byte{0x72}, raw...)
	case SoundG711U:
		return append([]byte{0x82}, raw...)
	case SoundOpus:
		// one header byte, as lal's own remuxers write and read it (there is no packet-type byte outside AAC)
		return append([]byte{0xdf}, raw...)
	}
	return append([]byte{byte(sound)<<4 | 0xf}, raw...)
}

// MetadataPayload builds an onMetaData message body (optionally prefixed with @setDataFrame) that
// carries the identity in a string property.
func MetadataPayload(inc, idx int, withSdf bool, extra int) []byte {
	var f rtmpc.Amf
	if withSdf {
		f.Str("@setDataFrame")
	}
	f.Str("onMetaData")
	f.Ecma("width", 1280, "height", 720, "id", IDText(inc, 2, idx), "pad", string(filler(uint64(idx)+9, extra)))
	return f.B
}

package scen

import (
	"encoding/json"
	"fmt"
	"sort"
	"time"

	"simlal/sim"
	"simlal/sim/actors"
	"simlal/sim/media"

	"github.com/anishathalye/porcupine"
)

func genC03Plan(r *sim.Rng, tier string) AdmPlan {
	var pl AdmPlan
	if r.Bool(0.1) {
		rp := genC03RtspPull(r.Fork("rtsppull"), tier)
		pl.Relay = &rp
		pl.Sched = rp.Sched
		return pl
	}
	pl.Conf = LalConf{ApiEnable: true, FlvEnable: true, RtspEnable: true, RtmpGop: r.Intn(2), FlvGop: r.Intn(2)}
	pl.Sched = GenSched(r.Fork("sched"), tier == "thorough")
	pl.Sched.Preempt = r.Intn(7)
	if r.Bool(0.5) {
		pl.Sched.Chaos = 0.05 + 0.4*r.Float()
	}
	if r.Bool(0.15) {
		pl.Sched.YieldNotify = []float64{0.3, 0.7}[r.Intn(2)]
	}
	pl.Streams = 1
	if r.Bool(0.3) {
		pl.Streams = 2
	}
	if pl.Streams == 1 && r.Bool(0.3) {
		pl.Conf.StaticPull = originHostPort
	}
	nPub := 2 + r.Intn(3)
	nSub := 1 + r.Intn(3)
	for i := 0; i < nPub; i++ {
		kind := "rtmp_pub"
		if r.Bool(0.2) {
			kind = "custom_pub"
		} else if r.Bool(0.25) {
			kind = "rtsp_pub"
		}
		st := 0
		if pl.Streams > 1 && r.Bool(0.3) {
			st = 1
		}
		pl.Actors = append(pl.Actors, AdmActor{Kind: kind, Stream: st, Units: 6 + r.Intn(14), Video: r.Bool(0.6)})
	}
	for i := 0; i < nSub; i++ {
		kind := []string{"rtmp_sub", "flv_sub"}[r.Intn(2)]
		st := 0
		if pl.Streams > 1 && r.Bool(0.3) {
			st = 1
		}
		pl.Actors = append(pl.Actors, AdmActor{Kind: kind, Stream: st})
	}
	nOrigin := 1 + r.Intn(4)
	for i := 0; i < nOrigin; i++ {
		mode := []string{"accept", "accept", "accept", "refuse", "mute", "die_hs", "die_connect", "refuse_play"}[r.Intn(8)]
		pl.Origin = append(pl.Origin, OriginBehaviour{Mode: mode, Units: 4 + r.Intn(10), Hold: r.Bool(0.4)})
	}
	// lanes: every actor starts, sends, maybe stops; pull API ops; origin ops; random merge
	var lanes [][]AdmOp
	for i, a := range pl.Actors {
		lane := []AdmOp{{Kind: "start", Actor: i}}
		if a.Kind == "rtmp_pub" || a.Kind == "custom_pub" {
			left := a.Units + 3
			for left > 0 {
				n := 1 + r.Intn(5)
				lane = append(lane, AdmOp{Kind: "send", Actor: i, N: n})
				left -= n
			}
		}
		switch r.Intn(4) {
		case 0:
			lane = append(lane, AdmOp{Kind: "stop", Actor: i, Reset: r.Bool(0.3)})
		case 1:
			lane = append(lane, AdmOp{Kind: "kick", Actor: i})
			if pl.Actors[i].Kind == "rtsp_pub" && r.Bool(0.5) {
				lane[len(lane)-1] = AdmOp{Kind: "reannounce", Actor: i}
			}
		}
		lanes = append(lanes, lane)
	}
	var pullLane []AdmOp
	if pl.Streams == 1 && r.Bool(0.7) {
		pullLane = append(pullLane, AdmOp{Kind: "start_pull", Stream: 0, Retry: []int{-1, 0, 1, 3}[r.Intn(4)], AutoStopMs: []int{-1, -1, 0, 2000}[r.Intn(4)]})
		for i := 0; i < 2+r.Intn(4); i++ {
			switch r.Intn(5) {
			case 0:
				pullLane = append(pullLane, AdmOp{Kind: "release_origin"})
			case 1, 2:
				pullLane = append(pullLane, AdmOp{Kind: "origin_send", N: 1 + r.Intn(4)})
			case 3:
				pullLane = append(pullLane, AdmOp{Kind: "origin_close", Reset: r.Bool(0.5)})
			case 4:
				pullLane = append(pullLane, AdmOp{Kind: "stop_pull", Stream: 0})
			}
		}
		pullLane = append(pullLane, AdmOp{Kind: "release_origin"})
	} else if pl.Conf.StaticPull != "" {
		for i := 0; i < 2+r.Intn(3); i++ {
			pullLane = append(pullLane, []AdmOp{{Kind: "release_origin"}, {Kind: "origin_send", N: 2}, {Kind: "origin_close"}}[r.Intn(3)])
		}
	}
	if len(pullLane) > 0 {
		lanes = append(lanes, pullLane)
	}
	pos := make([]int, len(lanes))
	remaining := 0
	for _, l := range lanes {
		remaining += len(l)
	}
	settleP := 0.15 + 0.85*r.Float()
	for remaining > 0 {
		var cand []int
		for i, l := range lanes {
			if pos[i] < len(l) {
				cand = append(cand, i)
			}
		}
		li := cand[r.Intn(len(cand))]
		op := lanes[li][pos[li]]
		pos[li]++
		remaining--
		pl.Ops = append(pl.Ops, op)
		if r.Bool(settleP) {
			pl.Ops = append(pl.Ops, AdmOp{Kind: "settle"})
		}
		switch r.Intn(14) {
		case 0:
			pl.Ops = append(pl.Ops, AdmOp{Kind: "advance", Ms: 100 + r.Intn(2500)})
		case 1:
			pl.Ops = append(pl.Ops, AdmOp{Kind: "stat"})
		case 3:
			if r.Bool(0.4) {
				pl.Ops = append(pl.Ops, AdmOp{Kind: "start_rtp_pub", Stream: r.Intn(pl.Streams)})
			}
		case 2:
			if r.Bool(0.5) {
				// a kick that names no live session of the stream: an id that has ended, or one that never existed
				pl.Ops = append(pl.Ops, AdmOp{Kind: "kick_stale", Stream: r.Intn(pl.Streams), N: r.Intn(64)})
			}
		}
	}
	return pl
}

// ---- porcupine model: one input slot per stream -----------------------------------------------------------------------------

type slotIn struct {
	Op string // acquire | release
	ID int
}

type slotOut struct {
	OK bool
}

var slotModel = porcupine.Model{
	Init: func() interface{} { return -1 },
	Step: func(state, input, output interface{}) (bool, interface{}) {
		st := state.(int)
		in := input.(slotIn)
		out := output.(slotOut)
		switch in.Op {
		case "acquire":
			if st == -1 {
				if out.OK {
					return true, in.ID
				}
				// a refusal is only legal while somebody holds the slot... or when the attempt failed for
				// its own reasons (origin refused): callers only feed refusals caused by admission
				return false, st
			}
			return !out.OK, st
		case "release":
			if st == in.ID {
				return true, -1
			}
			return true, st // releasing something that does not hold the slot changes nothing
		}
		return false, st
	},
	Equal: func(a, b interface{}) bool { return a.(int) == b.(int) },
	DescribeOperation: func(input, output interface{}) string {
		return fmt.Sprintf("%v -> %v", input, output)
	},
}

// CheckC03 evaluates the single-input property over an admission run.
func CheckC03(k *sim.Kernel, ar *AdmRun) {
	if msg := ar.resolvePulls(); msg != "" {
		k.Violate("C03.pull-notify", "%s", msg)
	}
	evs := ar.W.Notify.Snapshot()
	// ---- notification pairing for network pub / sub sessions
	type pair struct{ start, stop int }
	pairs := map[string]*pair{}
	order := []string{}
	for i, e := range evs {
		switch e.Kind {
		case "pub_start", "sub_start":
			if p := pairs[e.SessionId]; p != nil {
				k.Violate("C03.notify-dup-start", "session %s (%s) reported start twice", e.SessionId, e.Protocol)
			}
			pairs[e.SessionId] = &pair{start: i, stop: -1}
			order = append(order, e.SessionId)
		case "pub_stop", "sub_stop":
			p := pairs[e.SessionId]
			if p == nil {
				k.Violate("C03.notify-stop-without-start", "session %s (%s, remote %s) reported %s but never a start", e.SessionId, e.Protocol, e.Remote, e.Kind)
			}
			if p.stop >= 0 {
				k.Violate("C03.notify-dup-stop", "session %s (%s) reported stop twice", e.SessionId, e.Protocol)
			}
			p.stop = i
		}
	}
	for _, id := range order {
		if pairs[id].stop < 0 {
			k.Violate("C03.notify-no-stop", "session %s reported start but no stop although every session has ended", id)
		}
	}
	if k.P.YieldNotify > 0 {
		// runs with a slow notify handler: events reach the handler late (queued behind the one it is busy with), so only
		// what the handler itself can see is judged - exactly one start and one stop per session, in that order; the
		// rules below relate notification instants to what the peers observed and run in the other plans
		k.Probe("c03_slow_notify_handler_runs")
		k.Probe("nontrivial")
		return
	}
	// ---- observed outcome of every network publisher agrees with the notifications
	startByRemote := map[string]NotifyEvent{}
	for _, e := range evs {
		if e.Kind == "pub_start" {
			startByRemote[e.Remote] = e
		}
	}
	for i, a := range ar.Actors {
		if (a.Pub == nil && a.Rtsp == nil) || a.Attempt == nil {
			continue
		}
		e, notified := startByRemote[a.Attempt.Remote]
		if a.Attempt.Known && a.Attempt.Accepted != notified {
			k.Violate("C03.notify-mismatch", "pub%d: observed accepted=%v but pub_start notified=%v", i, a.Attempt.Accepted, notified)
		}
		if notified {
			at := a.Attempt
			at.SessionId = e.SessionId
			at.Accepted = true
			at.Known = true
			// a publisher that went away before it could see lal's answer (reset right after ANNOUNCE / publish) was an
			// accepted input all the same: its acquire returned by the time of the start notification, its release by
			// the time of the stop notification
			if at.RetStep < 0 {
				at.RetStep = e.Step
			}
			if pr := pairs[e.SessionId]; pr != nil && pr.stop >= 0 && at.RelRet < 0 {
				at.RelRet = evs[pr.stop].Step
				if at.RelCall < 0 || at.RelCall > at.RelRet {
					at.RelCall = at.RetStep
				}
			}
		}
	}
	// ---- single input slot, replayed in the order lal serialised the events
	type slotEv struct {
		step  int
		ord   int
		start bool
		key   string
		strm  int
		desc  string
	}
	var sev []slotEv
	for i, e := range evs {
		var strm int
		fmt.Sscanf(e.Stream, "st%d", &strm)
		switch e.Kind {
		case "pub_start", "pull_start":
			sev = append(sev, slotEv{e.Step, i, true, e.SessionId, strm, e.Kind + " " + e.SessionId})
		case "pub_stop", "pull_stop":
			sev = append(sev, slotEv{e.Step, i, false, e.SessionId, strm, e.Kind + " " + e.SessionId})
		}
	}
	for i, a := range ar.Actors {
		if a.Plan.Kind == "custom_pub" && a.Attempt != nil && a.Attempt.Accepted {
			key := fmt.Sprintf("custom%d", i)
			sev = append(sev, slotEv{a.Attempt.RetStep, 1 << 20, true, key, a.Plan.Stream, "customize pub " + key})
			if a.Attempt.RelCall >= 0 {
				// the API call is not notified: its effect lies somewhere between invocation and return; the
				// sequential replay uses the earliest point (porcupine below judges the interval properly)
				sev = append(sev, slotEv{a.Attempt.RelCall, -1, false, key, a.Plan.Stream, "customize pub del " + key})
			}
		}
	}
	sort.SliceStable(sev, func(i, j int) bool {
		if sev[i].step != sev[j].step {
			return sev[i].step < sev[j].step
		}
		return sev[i].ord < sev[j].ord
	})
	// a stop notification is emitted after the input has been detached (DelXxxSession), outside the group lock, so
	// the next input's start notification may overtake it: that is only an overlap if the holder's release had not
	// even been invoked (peer close / kick / stop / origin close) when the next input was accepted
	relCallOf := map[string]int{}
	for _, at := range ar.Attempts {
		if at.SessionId != "" {
			relCallOf[at.SessionId] = at.RelCall
		}
	}
	for _, o := range ar.Origins {
		if o.Attempt != nil && o.Attempt.SessionId != "" {
			relCallOf[o.Attempt.SessionId] = o.Attempt.RelCall
		}
	}
	cur := map[int]string{}
	for _, e := range sev {
		if e.start {
			if c := cur[e.strm]; c != "" {
				if rc, ok := relCallOf[c]; ok && rc >= 0 && rc <= e.step {
					k.Probe("c03_stop_notification_overtaken_by_next_start")
				} else {
					k.Violate("C03.two-inputs", "stream st%d: %s was accepted while input %s was still accepted", e.strm, e.desc, c)
				}
			}
			cur[e.strm] = e.key
		} else if cur[e.strm] == e.key {
			cur[e.strm] = ""
		}
	}
	// ---- media attribution: nothing from a refused input reaches a consumer
	accepted := map[int]bool{}
	for _, at := range ar.Attempts {
		if at.Accepted {
			accepted[at.Inc] = true
		}
	}
	nontrivial := false
	for i, a := range ar.Actors {
		if a.Sub == nil {
			continue
		}
		for j, it := range consItems(a.Sub) {
			inc, _, _, ok := media.ParseID(it.Payload)
			if ok && !accepted[inc] {
				k.Violate("C03.refused-media-forwarded", "sub%d received item #%d %s, which comes from an input that was never accepted", i, j, describe(&it))
			}
			nontrivial = true
		}
	}
	// ---- ... nor from a departed one: a consumer that asked to join after an input's departure was complete (lal had
	// closed the connection and the connection's goroutine had released its last mutex) gets nothing of that input
	for i, a := range ar.Actors {
		if a.Sub == nil {
			continue
		}
		joinSent := a.Sub.JoinSentStep()
		if joinSent < 0 {
			continue
		}
		dead := map[int]bool{}
		for _, b := range ar.Actors {
			if b.Pub == nil || b.Pub.Conn == nil || b.Attempt == nil || !b.Attempt.Accepted || b.Plan.Stream != a.Plan.Stream {
				continue
			}
			if b.Pub.ClosedStep >= 0 && b.Pub.ClosedStep < joinSent && b.Pub.Conn.Idle2() && b.Pub.Conn.LastUnlockStep() < joinSent {
				dead[b.Attempt.Inc] = true
			}
		}
		for j, it := range consItems(a.Sub) {
			inc, _, _, ok := media.ParseID(it.Payload)
			if ok && dead[inc] {
				k.Violate("C03.departed-media-forwarded", "sub%d asked to join after input incarnation %d had left, yet item #%d %s comes from it", i, inc, j, describe(&it))
			}
		}
	}
	// ---- the accepted inputs' delivery is undisturbed by foreign events
	for i, a := range ar.Actors {
		if a.Sub == nil {
			continue
		}
		F := ar.forwardable(a.Plan.Stream)
		JudgeConsumer(k, "C03", fmt.Sprintf("sub%d(%s)", i, a.Sub.Plan.Proto), a.Sub, F, ar.Plan.Conf)
	}
	// ---- start_relay_pull while another input is accepted (for the whole duration of the call) reports failure
	for _, pr := range ar.PullApi {
		if (pr.Kind != "start_pull" && pr.Kind != "start_rtp_pub") || !pr.Result.Done || pr.Result.ErrorCode() != 0 {
			continue
		}
		api := map[string]string{"start_pull": "start_relay_pull", "start_rtp_pub": "start_rtp_pub"}[pr.Kind]
		for _, at := range ar.Attempts {
			if at.Stream == pr.Stream && at.Known && at.Accepted && at.RetStep >= 0 && at.RetStep < pr.SentStep && (at.RelCall < 0 || at.RelCall > pr.Step) && at.Kind != "pull" {
				k.Violate("C03.api-start-with-input", api+" for %s sent at step %d answered error_code=0 although %s attempt #%d had been accepted at step %d and was not released before step %d", StreamName(pr.Stream), pr.SentStep, at.Kind, at.ID, at.RetStep, pr.Step)
			}
		}
	}
	// ---- a kick that names no live session changes nothing and says so
	for _, pr := range ar.PullApi {
		if pr.Kind == "kick_stale" && pr.Result.Done && pr.Result.ErrorCode() == 0 {
			k.Violate("C03.kick-stale-succeeded", "kick_session with an id that names no live session of the stream (%s) answered error_code=0", pr.Note)
		}
	}
	// ---- stat API never lists a detached session
	for _, sr := range ar.Stats {
		if !sr.Result.Done {
			k.Violate("C03.api", "stat/all_group did not answer")
		}
		data, _ := sr.Result.JSON["data"].(map[string]interface{})
		groups, _ := data["groups"].([]interface{})
		for _, g := range groups {
			gm, _ := g.(map[string]interface{})
			var ids []string
			if pub, ok := gm["pub"].(map[string]interface{}); ok {
				if id, _ := pub["session_id"].(string); id != "" {
					ids = append(ids, id)
				}
			}
			if subs, ok := gm["subs"].([]interface{}); ok {
				for _, s := range subs {
					if sm, ok := s.(map[string]interface{}); ok {
						if id, _ := sm["session_id"].(string); id != "" {
							ids = append(ids, id)
						}
					}
				}
			}
			for _, id := range ids {
				p := pairs[id]
				if p == nil {
					k.Violate("C03.stat-unknown-session", "stat at step %d lists session %s which never reported a start", sr.Step, id)
				}
				if evs[p.stop].Step < sr.SentStep {
					// the stop had been notified before this stat request was even handed to the network
					if stopSettledBefore(evs[p.stop].Step, sr.SentStep) {
						gb, _ := json.Marshal(gm)
						k.Violate("C03.stat-detached-session", "stat sent at step %d lists session %s whose stop was notified at step %d; group: %s", sr.SentStep, id, evs[p.stop].Step, clip(string(gb), 700))
					}
				}
			}
		}
	}
	// ---- linearizability of admission against the single-slot model (per stream)
	for s := 0; s < ar.Plan.Streams; s++ {
		var ops []porcupine.Operation
		for _, at := range ar.Attempts {
			if at.Stream != s || !at.Known || at.RetStep < 0 {
				continue
			}
			if !at.Accepted && at.Kind == "pull" {
				continue // a pull may fail for reasons of its own (origin refused / died): not an admission verdict
			}
			ops = append(ops, porcupine.Operation{ClientId: at.ID % 64, Input: slotIn{"acquire", at.ID}, Call: int64(at.CallStep), Output: slotOut{at.Accepted}, Return: int64(at.RetStep) + 1})
			if at.Accepted && at.RelCall >= 0 && at.RelRet >= at.RelCall {
				call := at.RelCall
				if call <= at.RetStep {
					call = at.RetStep + 1
				}
				ops = append(ops, porcupine.Operation{ClientId: at.ID % 64, Input: slotIn{"release", at.ID}, Call: int64(call) + 1, Output: slotOut{true}, Return: int64(at.RelRet) + 2})
			}
		}
		if len(ops) == 0 || len(ops) > 40 {
			continue
		}
		res := porcupine.CheckOperationsTimeout(slotModel, ops, 5*time.Second)
		switch res {
		case porcupine.Illegal:
			b, _ := json.Marshal(ops)
			k.Violate("C03.not-linearizable", "stream st%d: the admission history is not linearizable against a single input slot: %s", s, b)
		case porcupine.Ok:
			k.Probe("c03_porcupine_ok")
		default:
			k.Probe("c03_porcupine_unknown")
		}
	}
	if nontrivial || len(ar.Attempts) > 1 {
		k.Probe("nontrivial")
	}
	nAcc, nRef := 0, 0
	for _, at := range ar.Attempts {
		if at.Known && at.Accepted {
			nAcc++
		} else if at.Known {
			nRef++
		}
	}
	if nRef > 0 {
		k.Probe("c03_refused_attempts")
	}
	if nAcc > 1 {
		k.Probe("c03_multiple_accepted")
	}
}

func stopSettledBefore(stopStep, statStep int) bool { return stopStep < statStep }

// forwardable builds the list of units of the accepted inputs of a stream in acceptance order.
func (ar *AdmRun) forwardable(stream int) []FUnit {
	type src struct {
		at    *InputAttempt
		units []media.Unit
		sent  []*actors.SentUnit
		video bool
	}
	var srcs []src
	for _, a := range ar.Actors {
		if a.Attempt == nil || !a.Attempt.Accepted || a.Plan.Stream != stream {
			continue
		}
		s := src{at: a.Attempt, units: a.Units, video: a.Plan.Video}
		if a.Pub != nil {
			s.sent = a.Pub.Sent
		} else {
			for i := 0; i < a.Queued; i++ {
				s.sent = append(s.sent, &actors.SentUnit{DeliveredStep: a.Attempt.RetStep, ProcessedStep: a.Attempt.RetStep})
			}
		}
		srcs = append(srcs, s)
	}
	for _, o := range ar.Origins {
		if o.Attempt == nil || !o.Attempt.Accepted || stream != 0 || o.Stub == nil {
			continue
		}
		srcs = append(srcs, src{at: o.Attempt, units: o.Units, sent: o.Stub.Sent, video: true})
	}
	sort.SliceStable(srcs, func(i, j int) bool { return srcs[i].at.RetStep < srcs[j].at.RetStep })
	var out []FUnit
	for si, s := range srcs {
		for i := range s.units {
			if i >= len(s.sent) {
				break
			}
			u := &s.units[i]
			if len(u.Msg.Payload) == 0 || s.sent[i].DeliveredStep < 0 {
				continue
			}
			want := u.Msg.Payload
			if u.Kind == media.KMeta {
				want = stripSdf(want)
			}
			out = append(out, FUnit{Pub: si, U: u, Sent: s.sent[i], Want: want, Opt: s.sent[i].ProcessedStep < 0, HasVideo: s.video})
		}
	}
	return out
}

func admShrink(plan json.RawMessage) []json.RawMessage {
	var pl AdmPlan
	fromJSON(plan, &pl)
	var out []json.RawMessage
	n := len(pl.Ops)
	for chunk := n / 2; chunk >= 1; chunk /= 2 {
		for at := 0; at+chunk <= n; at += chunk {
			q := pl
			q.Ops = append(append([]AdmOp{}, pl.Ops[:at]...), pl.Ops[at+chunk:]...)
			out = append(out, mustJSON(q))
		}
		if chunk == 1 {
			break
		}
	}
	if pl.Sched.Chaos != 0 || pl.Sched.Preempt != 0 || pl.Sched.SegMode != 0 || pl.Sched.PermuteMap {
		q := pl
		q.Sched.Chaos, q.Sched.Preempt, q.Sched.SegMode, q.Sched.PermuteMap = 0, 0, 0, false
		out = append(out, mustJSON(q))
		for _, f := range []func(*sim.SchedParams){func(s *sim.SchedParams) { s.Chaos = 0 }, func(s *sim.SchedParams) { s.Preempt = 0 }, func(s *sim.SchedParams) { s.SegMode = 0 }, func(s *sim.SchedParams) { s.PermuteMap = false }} {
			q := pl
			f(&q.Sched)
			out = append(out, mustJSON(q))
		}
	}
	if pl.Conf.StaticPull != "" {
		q := pl
		q.Conf.StaticPull = ""
		out = append(out, mustJSON(q))
	}
	if len(pl.Origin) > 1 {
		q := pl
		q.Origin = pl.Origin[:len(pl.Origin)-1]
		out = append(out, mustJSON(q))
	}
	for i := range pl.Origin {
		if pl.Origin[i].Hold {
			q := pl
			q.Origin = append([]OriginBehaviour{}, pl.Origin...)
			q.Origin[i].Hold = false
			out = append(out, mustJSON(q))
		}
	}
	return out
}

func admShape(plan json.RawMessage) string {
	var pl AdmPlan
	fromJSON(plan, &pl)
	kinds := ""
	for _, a := range pl.Actors {
		kinds += a.Kind[:1]
	}
	org := ""
	for _, o := range pl.Origin {
		org += o.Mode[:1]
	}
	return fmt.Sprintf("s%d/%s/o%s/ops%d/sp%v/p%d", pl.Streams, kinds, org, len(pl.Ops)/4, pl.Conf.StaticPull != "", pl.Sched.Preempt)
}

func admBrief(plan json.RawMessage) interface{} {
	var pl AdmPlan
	fromJSON(plan, &pl)
	ops := ""
	for i, op := range pl.Ops {
		if i > 70 {
			ops += " ..."
			break
		}
		switch op.Kind {
		case "start", "stop", "kick":
			ops += fmt.Sprintf(" %s(a%d)", op.Kind, op.Actor)
		case "send":
			ops += fmt.Sprintf(" send(a%d,%d)", op.Actor, op.N)
		case "advance":
			ops += fmt.Sprintf(" advance(%dms)", op.Ms)
		default:
			ops += " " + op.Kind
		}
	}
	return map[string]interface{}{"conf": pl.Conf, "sched": pl.Sched, "actors": pl.Actors, "origin": pl.Origin, "ops": ops}
}

func init() {
	Register(&Check{
		ID:  "C03",
		Gen: func(r *sim.Rng, tier string) json.RawMessage { return mustJSON(genC03Plan(r, tier)) },
		Sched: func(plan json.RawMessage) sim.SchedParams {
			var pl AdmPlan
			fromJSON(plan, &pl)
			return pl.Sched
		},
		Run: func(k *sim.Kernel, plan json.RawMessage) {
			var pl AdmPlan
			fromJSON(plan, &pl)
			if pl.Relay != nil {
				checkC03RtspPull(k, ExecRelay(k, *pl.Relay))
				return
			}
			ar := ExecAdm(k, pl)
			CheckC03(k, ar)
		},
		Shrink: func(plan json.RawMessage) []json.RawMessage {
			var pl AdmPlan
			fromJSON(plan, &pl)
			if pl.Relay == nil {
				return admShrink(plan)
			}
			var out []json.RawMessage
			for _, c := range relayShrink(mustJSON(*pl.Relay)) {
				var rp RelayPlan
				fromJSON(c, &rp)
				out = append(out, mustJSON(AdmPlan{Relay: &rp, Sched: rp.Sched}))
			}
			return out
		},
		Shape: func(plan json.RawMessage) string {
			var pl AdmPlan
			fromJSON(plan, &pl)
			if pl.Relay != nil {
				return "rtsppull/" + relayShape(mustJSON(*pl.Relay))
			}
			return admShape(plan)
		},
		Brief: func(plan json.RawMessage) interface{} {
			var pl AdmPlan
			fromJSON(plan, &pl)
			if pl.Relay != nil {
				return map[string]interface{}{"scenario": "rtsp relay pull overtaken by a publisher", "relay": relayBrief(mustJSON(*pl.Relay))}
			}
			return admBrief(plan)
		},
	})
}

package scen

import (
	"bytes"
	"fmt"
	"strconv"
	"strings"

	"simlal/sim/media"
	"simlal/sim/tsc"
)

// TsVideo / TsAudio are elementary units recovered from a TS byte stream by the reference demuxer.
type TsVideo struct {
	DTS, PTS uint64
	RandAcc  bool
	Nals     [][]byte // slice NAL units (AUD, parameter sets and HEVC SEI removed)
	Params   [][]byte // parameter sets found in this access unit (in order)
	HasAud   bool
	Pkt      int
}

type TsAudio struct {
	PTS   uint64 // PTS of the PES the frame was carried in
	InPes int    // index of the frame inside its PES
	Adts  tsc.AdtsFrame
	Data  []byte
	Pkt   int
}

type TsContent struct {
	D        *tsc.Demux
	Video    []TsVideo
	Audio    []TsAudio
	VideoPID int
	AudioPID int
	VType    int // stream_type of the video track (0x1b AVC, 0x24 HEVC)
	AType    int
	Problems []string
	// OpusNoControlHeader: the audio PES payloads of a private-stream (0x06) audio track do not start with the
	// opus_control_header every Opus access unit in a transport stream begins with; they were taken as raw packets
	OpusNoControlHeader bool
}

func isAvcParamOrAud(n []byte) (param, aud bool) {
	if len(n) == 0 {
		return false, false
	}
	t := n[0] & 0x1f
	return t == 7 || t == 8, t == 9
}

func isHevcSkippable(n []byte) (param, aud, sei bool) {
	if len(n) < 2 {
		return false, false, false
	}
	t := (n[0] >> 1) & 0x3f
	return t == 32 || t == 33 || t == 34, t == 35, t == 39 || t == 40
}

// ParseTs demultiplexes b and splits the elementary streams into frames.
func ParseTs(b []byte) *TsContent {
	tc := &TsContent{D: tsc.New(), VideoPID: -1, AudioPID: -1}
	tc.D.Feed(b)
	tc.D.Flush()
	if tc.D.Err != nil {
		tc.Problems = append(tc.Problems, tc.D.Err.Error())
	}
	if tc.D.Remainder() != 0 {
		tc.Problems = append(tc.Problems, fmt.Sprintf("%d trailing bytes are not a whole 188-byte packet", tc.D.Remainder()))
	}
	// continuity-counter jumps are informational here (GOP-cache replay cut at the frame cap and
	// per-segment PAT/PMT restart them legitimately); lost packets show up as content mismatches
	tc.Problems = append(tc.Problems, tc.D.PsiErrors...)
	if tc.D.Prog != nil {
		for _, pid := range tc.D.Prog.Order {
			switch st := tc.D.Prog.Streams[pid]; st {
			case 0x1b, 0x24:
				tc.VideoPID, tc.VType = pid, st
			case 0x0f, 0x03, 0x04, 0x11, 0x06, 0x9c:
				tc.AudioPID, tc.AType = pid, st
			default:
				tc.Problems = append(tc.Problems, fmt.Sprintf("PMT declares unknown stream_type 0x%02x on pid %d", st, pid))
			}
		}
	}
	for _, p := range tc.D.Out {
		switch p.PID {
		case tc.VideoPID:
			if !p.HasPTS {
				tc.Problems = append(tc.Problems, fmt.Sprintf("video PES at packet %d has no PTS", p.FirstPkt))
			}
			v := TsVideo{DTS: p.DTS, PTS: p.PTS, RandAcc: p.RandomAcc, Pkt: p.FirstPkt}
			for _, n := range tsc.SplitAnnexB(p.Data) {
				if tc.VType == 0x24 {
					par, aud, sei := isHevcSkippable(n)
					switch {
					case par:
						v.Params = append(v.Params, n)
					case aud:
						v.HasAud = true
					case sei:
					default:
						v.Nals = append(v.Nals, n)
					}
				} else {
					par, aud := isAvcParamOrAud(n)
					switch {
					case par:
						v.Params = append(v.Params, n)
					case aud:
						v.HasAud = true
					default:
						v.Nals = append(v.Nals, n)
					}
				}
			}
			tc.Video = append(tc.Video, v)
		case tc.AudioPID:
			if !p.HasPTS {
				tc.Problems = append(tc.Problems, fmt.Sprintf("audio PES at packet %d has no PTS", p.FirstPkt))
			}
			if tc.AType == 0x0f {
				frames, err := tsc.SplitAdts(p.Data)
				if err != nil {
					tc.Problems = append(tc.Problems, fmt.Sprintf("audio PES at packet %d: %v", p.FirstPkt, err))
				}
				for i, f := range frames {
					tc.Audio = append(tc.Audio, TsAudio{PTS: p.PTS, InPes: i, Adts: f, Data: f.Data, Pkt: p.FirstPkt})
				}
			} else if tc.AType == 0x06 {
				// Opus in MPEG-TS: each access unit = opus_control_header (11-bit prefix 0x3ff, trim / extension flags,
				// au_size as 0xff... bytes + final byte, optional trims) followed by the Opus packet
				aus, ok := splitOpusTs(p.Data)
				if !ok {
					tc.OpusNoControlHeader = true
					tc.Audio = append(tc.Audio, TsAudio{PTS: p.PTS, Data: p.Data, Pkt: p.FirstPkt})
				}
				for i, a := range aus {
					tc.Audio = append(tc.Audio, TsAudio{PTS: p.PTS, InPes: i, Data: a, Pkt: p.FirstPkt})
				}
			} else {
				tc.Audio = append(tc.Audio, TsAudio{PTS: p.PTS, Data: p.Data, Pkt: p.FirstPkt})
			}
		default:
			tc.Problems = append(tc.Problems, fmt.Sprintf("PES on pid %d which the PMT does not declare", p.PID))
		}
	}
	return tc
}

// splitOpusTs splits a PES payload into Opus packets following the Opus-in-TS access unit syntax.
func splitOpusTs(b []byte) (out [][]byte, ok bool) {
	for len(b) > 0 {
		if len(b) < 3 || b[0] != 0x7f || b[1]&0xe0 != 0xe0 {
			return nil, false
		}
		startTrim, endTrim, ext := b[1]&0x10 != 0, b[1]&0x08 != 0, b[1]&0x04 != 0
		i := 2
		size := 0
		for {
			if i >= len(b) {
				return nil, false
			}
			size += int(b[i])
			i++
			if b[i-1] != 0xff {
				break
			}
		}
		if startTrim {
			i += 2
		}
		if endTrim {
			i += 2
		}
		if ext {
			if i >= len(b) {
				return nil, false
			}
			i += 1 + int(b[i])
		}
		if i+size > len(b) {
			return nil, false
		}
		out = append(out, b[i:i+size])
		b = b[i+size:]
	}
	return out, true
}

// expectedVideoNals is what a TS consumer must find for a published video unit: its NAL units minus
// access unit delimiters, in-band parameter sets and (HEVC) SEI.
func expectedVideoNals(u *media.Unit, hevc bool) [][]byte {
	var out [][]byte
	for _, n := range u.Nals {
		if hevc {
			par, aud, sei := isHevcSkippable(n)
			if par || aud || sei {
				continue
			}
		} else {
			par, aud := isAvcParamOrAud(n)
			if par || aud {
				continue
			}
		}
		out = append(out, n)
	}
	return out
}

func nalsEqual(a, b [][]byte) bool {
	if len(a) != len(b) {
		return false
	}
	for i := range a {
		if !bytes.Equal(a[i], b[i]) {
			return false
		}
	}
	return true
}

const mask33 = (uint64(1) << 33) - 1

// CompareTsToPublished checks the frames of tc against the published units of one incarnation.
// It returns a problem description or "" and the index of the first matched video / audio unit.
// complete: the consumer saw the stream to its end (then every unit after its start must be present).
func CompareTsToPublished(tc *TsContent, units []media.Unit, hevc bool, aacSr int, complete bool) (problem string, nVideo, nAudio int) {
	// published frames per track
	var pv, pa []*media.Unit
	for i := range units {
		u := &units[i]
		if len(u.Msg.Payload) == 0 {
			continue
		}
		switch u.Kind {
		case media.KVideo:
			if len(expectedVideoNals(u, hevc)) > 0 {
				pv = append(pv, u)
			}
		case media.KAudio:
			pa = append(pa, u)
		}
	}
	// ---- video
	if len(tc.Video) > 0 {
		start := -1
		for i, u := range pv {
			if !nalsEqual(expectedVideoNals(u, hevc), tc.Video[0].Nals) {
				continue
			}
			ok := true
			for j := 1; j < 4 && j < len(tc.Video) && i+j < len(pv); j++ {
				ok = ok && nalsEqual(expectedVideoNals(pv[i+j], hevc), tc.Video[j].Nals)
			}
			if ok {
				start = i
				break
			}
			if start < 0 {
				start = i
			}
		}
		if start < 0 {
			return fmt.Sprintf("first video frame in TS (packet %d, %d NAL units) equals no published frame", tc.Video[0].Pkt, len(tc.Video[0].Nals)), 0, 0
		}
		var base int64
		belowV := false
		for j := range tc.Video {
			if start+j >= len(pv) {
				return fmt.Sprintf("TS carries %d video frames after its start but only %d were published", len(tc.Video), len(pv)-start), 0, 0
			}
			u := pv[start+j]
			v := &tc.Video[j]
			if !nalsEqual(expectedVideoNals(u, hevc), v.Nals) {
				return fmt.Sprintf("video frame #%d in TS (packet %d) differs from published unit %d (ts=%d): NAL units are not byte-identical / in order / exactly once", j, v.Pkt, u.Idx, u.Ts), 0, 0
			}
			wantD := (uint64(u.Ts) * 90) & mask33
			wantP := (uint64(u.Ts)*90 + uint64(u.Cts)*90) & mask33
			dd := int64((v.DTS - wantD) & mask33)
			dp := int64((v.PTS - wantP) & mask33)
			if j == 0 {
				base = dd
			}
			if u.Ts < pv[0].Ts {
				belowV = true
			}
			if dd != base || dp != base {
				if belowV {
					return fmt.Sprintf("BELOW-FIRST: video frame unit %d has ts=%d, below the first video timestamp of the stream (%d): its DTS %d is not rebased with the track constant", u.Idx, u.Ts, pv[0].Ts, v.DTS), 0, 0
				}
				return fmt.Sprintf("video frame unit %d (ts=%d): DTS %d is not 90*ts minus the track constant (off by %d ticks)", u.Idx, u.Ts, v.DTS, dd-base), 0, 0
			}
			if dp != base {
				return fmt.Sprintf("video frame unit %d (ts=%d cts=%d): PTS %d is not 90*(ts+cts) minus the track constant", u.Idx, u.Ts, u.Cts, v.PTS), 0, 0
			}
			if u.Key && len(v.Params) == 0 {
				return fmt.Sprintf("key frame unit %d is not preceded by parameter sets in the TS access unit", u.Idx), 0, 0
			}
			// the parameter sets re-inserted before a key frame are those of the sequence header in force when it was published
			if u.Key {
				var want [][]byte
				if hevc {
					a, b, c := media.HevcParamSets(u.Inc, u.HdrGen)
					want = [][]byte{a, b, c}
				} else {
					a, b := media.AvcParamSets(u.Inc, u.HdrGen)
					want = [][]byte{a, b}
				}
				for _, ps := range v.Params {
					ok := false
					for _, w := range want {
						ok = ok || bytes.Equal(ps, w)
					}
					if !ok {
						return fmt.Sprintf("key frame unit %d (ts=%d) carries a parameter set (%d bytes, %x...) that is not one of the sequence header in force when it was published (header generation %d)", u.Idx, u.Ts, len(ps), head(ps, 8), u.HdrGen), 0, 0
					}
				}
			}
		}
		nVideo = len(tc.Video)
		if complete && start+len(tc.Video) != len(pv) {
			return fmt.Sprintf("TS ends after video unit %d but %d more video frames were published", pv[start+len(tc.Video)-1].Idx, len(pv)-start-len(tc.Video)), 0, 0
		}
	}
	// ---- audio
	if len(tc.Audio) > 0 {
		// small frames need not be unique: a start is a position from which the next frames match as well
		start := -1
		for i, u := range pa {
			if !bytes.Equal(u.Audio, tc.Audio[0].Data) {
				continue
			}
			ok := true
			for j := 1; j < 4 && j < len(tc.Audio) && i+j < len(pa); j++ {
				ok = ok && bytes.Equal(pa[i+j].Audio, tc.Audio[j].Data)
			}
			if ok {
				start = i
				break
			}
			if start < 0 {
				start = i // no better candidate so far: report against the first content match
			}
		}
		if start < 0 {
			return fmt.Sprintf("first audio frame in TS (packet %d, %d bytes) equals no published frame", tc.Audio[0].Pkt, len(tc.Audio[0].Data)), 0, 0
		}
		var base int64
		haveBase := false
		belowA := false
		for j := range tc.Audio {
			if start+j >= len(pa) {
				return fmt.Sprintf("TS carries %d audio frames after its start but only %d were published", len(tc.Audio), len(pa)-start), 0, 0
			}
			u := pa[start+j]
			a := &tc.Audio[j]
			if u.Ts < pa[0].Ts {
				belowA = true
			}
			if !bytes.Equal(u.Audio, a.Data) {
				return fmt.Sprintf("audio frame #%d in TS (packet %d) differs from published unit %d (ts=%d)", j, a.Pkt, u.Idx, u.Ts), 0, 0
			}
			if tc.AType == 0x0f {
				if a.Adts.Profile != 1 || a.Adts.SrIndex != aacSr || a.Adts.Channels != 2 {
					return fmt.Sprintf("ADTS header of unit %d says profile=%d sr_index=%d channels=%d, the AudioSpecificConfig says AAC-LC sr_index=%d channels=2",
						u.Idx, a.Adts.Profile, a.Adts.SrIndex, a.Adts.Channels, aacSr), 0, 0
				}
			}
			if a.InPes == 0 {
				want := (uint64(u.Ts) * 90) & mask33
				d := int64((a.PTS - want) & mask33)
				if !haveBase {
					base, haveBase = d, true
				}
				if d != base {
					if belowA {
						return fmt.Sprintf("BELOW-FIRST: audio unit %d has ts=%d, below the first audio timestamp of the stream (%d): its PTS %d is not rebased with the track constant", u.Idx, u.Ts, pa[0].Ts, a.PTS), 0, 0
					}
					return fmt.Sprintf("audio PES starting with unit %d (ts=%d): PTS %d is not 90*ts minus the track constant (off by %d ticks)", u.Idx, u.Ts, a.PTS, d-base), 0, 0
				}
			}
		}
		nAudio = len(tc.Audio)
		if complete && start+len(tc.Audio) != len(pa) {
			return fmt.Sprintf("TS ends after audio unit %d but %d more audio frames were published", pa[start+len(tc.Audio)-1].Idx, len(pa)-start-len(tc.Audio)), 0, 0
		}
	}
	return "", nVideo, nAudio
}

// ---- m3u8 ----------------------------------------------------------------------------------------------------------------

type M3u8 struct {
	TargetDuration int
	MediaSequence  int
	HasSeq         bool
	Segments       []M3u8Seg
	EndList        bool
	Version        int
}

type M3u8Seg struct {
	Duration float64
	URI      string
	Discont  bool
}

// ParseM3u8 parses a media playlist strictly (RFC 8216 subset): every line must be a known tag, a URI
// after an EXTINF, or blank.
func ParseM3u8(b []byte) (*M3u8, error) {
	s := string(b)
	if !strings.HasSuffix(s, "\n") {
		return nil, fmt.Errorf("playlist does not end with a newline (truncated?)")
	}
	lines := strings.Split(s, "\n")
	if lines[0] != "#EXTM3U" {
		return nil, fmt.Errorf("first line %q", lines[0])
	}
	m := &M3u8{TargetDuration: -1}
	var pending *M3u8Seg
	discont := false
	for _, l := range lines[1:] {
		switch {
		case l == "":
		case strings.HasPrefix(l, "#EXT-X-VERSION:"):
			v, err := strconv.Atoi(l[15:])
			if err != nil {
				return nil, fmt.Errorf("bad line %q", l)
			}
			m.Version = v
		case l == "#EXT-X-ALLOW-CACHE:NO" || l == "#EXT-X-ALLOW-CACHE:YES":
		case strings.HasPrefix(l, "#EXT-X-TARGETDURATION:"):
			v, err := strconv.Atoi(l[22:])
			if err != nil {
				return nil, fmt.Errorf("bad line %q", l)
			}
			m.TargetDuration = v
		case strings.HasPrefix(l, "#EXT-X-MEDIA-SEQUENCE:"):
			v, err := strconv.Atoi(l[22:])
			if err != nil {
				return nil, fmt.Errorf("bad line %q", l)
			}
			m.MediaSequence, m.HasSeq = v, true
		case l == "#EXT-X-DISCONTINUITY":
			discont = true
		case strings.HasPrefix(l, "#EXTINF:"):
			if pending != nil {
				return nil, fmt.Errorf("EXTINF without URI before %q", l)
			}
			f := strings.SplitN(l[8:], ",", 2)
			d, err := strconv.ParseFloat(f[0], 64)
			if err != nil || len(f) != 2 {
				return nil, fmt.Errorf("bad line %q", l)
			}
			pending = &M3u8Seg{Duration: d, Discont: discont}
			discont = false
		case l == "#EXT-X-ENDLIST":
			m.EndList = true
		case strings.HasPrefix(l, "#"):
			return nil, fmt.Errorf("unknown tag %q", l)
		default:
			if pending == nil {
				return nil, fmt.Errorf("URI %q without EXTINF", l)
			}
			if m.EndList {
				return nil, fmt.Errorf("segment after EXT-X-ENDLIST")
			}
			pending.URI = l
			m.Segments = append(m.Segments, *pending)
			pending = nil
		}
	}
	if pending != nil {
		return nil, fmt.Errorf("EXTINF without URI at the end")
	}
	if m.TargetDuration < 0 {
		return nil, fmt.Errorf("no EXT-X-TARGETDURATION")
	}
	return m, nil
}

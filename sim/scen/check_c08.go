package scen

import (
	"bytes"
	"encoding/binary"
	"encoding/json"
	"fmt"
	"io"
	"runtime/debug"

	"simlal/sim"
	"simlal/sim/rtmpc"

	"github.com/q191201771/lal/pkg/base"
	"github.com/q191201771/lal/pkg/rtmp"
)

// C08: RTMP chunk stream encode / decode, component-level: reference encoder -> (seeded interleaving of
// chunk streams, seeded segmentation, EOF at any byte) -> lal's ChunkComposer; lal's message2Chunks ->
// reference reader and lal's composer.

type ChunkMsgSpec struct {
	Type  int    `json:"t"`
	Csid  int    `json:"csid"`
	Msid  int    `json:"msid"`
	Ts    uint32 `json:"ts"`
	Len   int    `json:"len"`
	Seed  uint64 `json:"seed"`
	Aggr  []int  `json:"aggr,omitempty"`   // aggregate message: lengths of the sub messages
	SetCS int    `json:"set_cs,omitempty"` // a Set Chunk Size message with this value instead of a data message
	// MidMsg: the Set Chunk Size message is sent while other chunk streams have partly sent messages
	MidMsg bool `json:"mid_msg,omitempty"`
}

type ChunkPlan struct {
	Sched    sim.SchedParams `json:"sched"`
	Msgs     []ChunkMsgSpec  `json:"msgs"`
	Seed     uint64          `json:"seed"`   // interleaving and segmentation
	EofAt    int             `json:"eof_at"` // -1: none; else cut the byte stream there
	Fmt0     bool            `json:"fmt0"`
	EncChunk int             `json:"enc_chunk"` // chunk size for the encode-side test
}

func lenChoice(r *sim.Rng, cs int) int {
	switch r.Intn(8) {
	case 0:
		return 0
	case 1:
		return 1 + r.Intn(5)
	case 2, 3:
		k := 1 + r.Intn(4)
		return maxInt(0, k*cs-2+r.Intn(5))
	case 4:
		return []int{127, 128, 129, 4095, 4096, 4097, 65535, 65536}[r.Intn(8)]
	case 5:
		return 10000 + r.Intn(200000)
	default:
		return r.Intn(3000)
	}
}

func tsChoice(r *sim.Rng) uint32 {
	switch r.Intn(6) {
	case 0:
		return []uint32{0xFFFFFE, 0xFFFFFF, 0x1000000, 0x1000001, 0xFFFFFFFF, 0xFFFFFFFE, 0x7FFFFFFF, 0x80000000}[r.Intn(8)]
	case 1:
		return uint32(0xFFFFFF - 50 + r.Intn(100))
	default:
		return uint32(r.Intn(1 << 24))
	}
}

func genC08Plan(r *sim.Rng, tier string) ChunkPlan {
	var pl ChunkPlan
	pl.Sched = sim.SchedParams{}
	pl.Seed = r.U64()
	pl.Fmt0 = r.Bool(0.2)
	pl.EofAt = -1
	cs := 128
	n := 3 + r.Intn(20)
	if tier == "thorough" {
		n = 5 + r.Intn(80)
	}
	csids := []int{2 + r.Intn(62), 2 + r.Intn(62), 64 + r.Intn(256), 320 + r.Intn(65280), 3, 4, 63, 64, 319, 320, 65599}
	nStreams := 1 + r.Intn(4)
	// the chunk streams of this run: any of the candidates, the boundaries of the three basic-header forms included
	for i := 0; i < nStreams; i++ {
		j := i + r.Intn(len(csids)-i)
		csids[i], csids[j] = csids[j], csids[i]
	}
	lastTs := map[int]uint32{}
	lastSpec := map[int]ChunkMsgSpec{}
	prevTs2 := map[int]uint32{}
	for i := 0; i < n; i++ {
		if r.Bool(0.08) {
			cs = []int{1, 2, 97, 128, 4096, 65536, 100000}[r.Intn(7)]
			pl.Msgs = append(pl.Msgs, ChunkMsgSpec{SetCS: cs, Type: 1, Csid: 2, MidMsg: r.Bool(0.5)})
			continue
		}
		csid := csids[r.Intn(nStreams)]
		m := ChunkMsgSpec{Type: []int{8, 9, 18, 20, 15, 17}[r.Intn(6)], Csid: csid, Msid: r.Intn(2), Len: lenChoice(r, cs), Seed: r.U64()}
		// timestamps: mostly advancing on a chunk stream (so that delta formats are used), sometimes jumping
		if prev, ok := lastTs[csid]; ok && r.Bool(0.7) {
			m.Ts = prev + uint32(r.Intn(100))
			if r.Bool(0.1) {
				m.Ts = prev + uint32(0xFFFFF0+r.Intn(0x20))
			}
		} else {
			m.Ts = tsChoice(r)
		}
		if prev, ok := lastSpec[csid]; ok && r.Bool(0.12) {
			// a repeat of the previous message's shape: lets the encoder start the message with a format-3 chunk,
			// either repeating the previous delta or (after a format-0 header) with ts = 2 x previous ts
			m.Type, m.Msid, m.Len = prev.Type, prev.Msid, prev.Len
			if pp, ok2 := prevTs2[csid]; ok2 && r.Bool(0.5) && prev.Ts >= pp {
				m.Ts = prev.Ts + (prev.Ts - pp)
			} else if prev.Ts < 0x7FFFFF {
				m.Ts = 2 * prev.Ts
			}
		}
		if prev, ok := lastSpec[csid]; ok && r.Bool(0.08) {
			// same length and message stream as the previous message of the chunk stream, another type: a format-1 header
			// whose length field repeats the remembered one
			m.Msid, m.Len = prev.Msid, prev.Len
			for m.Type == prev.Type {
				m.Type = []int{8, 9, 18, 20, 15, 17}[r.Intn(6)]
			}
		}
		if ls, ok := lastSpec[csid]; ok {
			prevTs2[csid] = ls.Ts
		}
		lastSpec[csid] = m
		lastTs[csid] = m.Ts
		if r.Bool(0.06) {
			m.Type = 22
			for j := 0; j < 1+r.Intn(4); j++ {
				m.Aggr = append(m.Aggr, r.Intn(300))
			}
		}
		pl.Msgs = append(pl.Msgs, m)
	}
	if r.Bool(0.3) {
		pl.EofAt = r.Intn(1 + 50*n)
	}
	pl.EncChunk = []int{1, 2, 127, 128, 4096, 4096, 65536}[r.Intn(7)]
	return pl
}

type expMsg struct {
	Type    uint8
	Msid    uint32
	Ts      uint32
	Csid    int
	Payload []byte
}

func aggregatePayload(spec ChunkMsgSpec) (payload []byte, subs []expMsg) {
	r := sim.NewRng(spec.Seed)
	base0 := uint32(r.Intn(1000))
	for j, l := range spec.Aggr {
		typ := []uint8{8, 9}[r.Intn(2)]
		ts := base0 + uint32(j*40)
		data := randBytes(spec.Seed+uint64(j)+1, l)
		var h [11]byte
		h[0] = typ
		h[1], h[2], h[3] = byte(l>>16), byte(l>>8), byte(l)
		h[4], h[5], h[6], h[7] = byte(ts>>16), byte(ts>>8), byte(ts), byte(ts>>24)
		payload = append(payload, h[:]...)
		payload = append(payload, data...)
		var back [4]byte
		binary.BigEndian.PutUint32(back[:], uint32(11+l))
		payload = append(payload, back[:]...)
		subs = append(subs, expMsg{Type: typ, Msid: 0, Ts: spec.Ts + uint32(j*40), Csid: spec.Csid, Payload: data})
	}
	return
}

// segReader hands out a byte slice in seeded segments and ends with EOF.
type segReader struct {
	b []byte
	r *sim.Rng
}

func (s *segReader) Read(p []byte) (int, error) {
	if len(s.b) == 0 {
		return 0, io.EOF
	}
	n := len(p)
	switch s.r.Intn(4) {
	case 0:
		n = 1
	case 1:
		n = 1 + s.r.Intn(16)
	case 2:
		n = 1 + s.r.Intn(1500)
	}
	if n > len(p) {
		n = len(p)
	}
	if n > len(s.b) {
		n = len(s.b)
	}
	copy(p, s.b[:n])
	s.b = s.b[n:]
	return n, nil
}

func execChunk(k *sim.Kernel, pl ChunkPlan) {
	r := sim.NewRng(pl.Seed)
	// ---------- decode side: reference encoder -> lal ChunkComposer
	w := rtmpc.NewWriter()
	w.AlwaysFmt0 = pl.Fmt0
	w.Fmt3AfterFmt0 = true
	var expect []expMsg
	var endOffsets []int // byte offset after which expect[i] is complete
	var wire []byte
	type pendingMsg struct {
		firstHdr, contHdr []byte
		payload           []byte
		sent              int
		csid              int
		started           bool
		exp               []expMsg
	}
	var inflight []*pendingMsg
	// one chunk of a random in-flight message, cut with the chunk size in force now
	step := func() {
		i := r.Intn(len(inflight))
		pm := inflight[i]
		if !pm.started {
			wire = append(wire, pm.firstHdr...)
			pm.started = true
		} else {
			wire = append(wire, pm.contHdr...)
		}
		n := len(pm.payload) - pm.sent
		if n > w.ChunkSize {
			n = w.ChunkSize
		}
		wire = append(wire, pm.payload[pm.sent:pm.sent+n]...)
		pm.sent += n
		if pm.sent == len(pm.payload) {
			for _, e := range pm.exp {
				expect = append(expect, e)
				endOffsets = append(endOffsets, len(wire))
			}
			inflight = append(inflight[:i], inflight[i+1:]...)
		}
	}
	flush := func() {
		for len(inflight) > 0 {
			step()
		}
	}
	busy := map[int]bool{}
	for _, spec := range pl.Msgs {
		if spec.SetCS > 0 {
			if spec.MidMsg {
				// (a chunk stream carries one message at a time: finish whatever is in flight on csid 2 itself)
				for again := true; again; {
					again = false
					for _, pm := range inflight {
						if pm.csid == 2 {
							again = true
						}
					}
					if again {
						step()
					}
				}
				// the control message arrives between the chunks of other messages; it takes effect at once, so
				// the rest of those messages is cut with the new size
				for j := r.Intn(4); j > 0 && len(inflight) > 0; j-- {
					step()
				}
				if len(inflight) > 0 {
					k.Probe("c08_set_chunk_size_mid_message")
				}
			} else {
				flush() // a chunk size change between whole messages
				busy = map[int]bool{}
			}
			m := rtmpc.SetChunkSizeMsg(spec.SetCS)
			wire = append(wire, w.Encode(m)...)
			expect = append(expect, expMsg{Type: m.Type, Csid: 2, Payload: m.Payload})
			endOffsets = append(endOffsets, len(wire))
			w.ChunkSize = spec.SetCS
			continue
		}
		if busy[spec.Csid] {
			flush() // one message at a time per chunk stream
			busy = map[int]bool{}
		}
		m := rtmpc.Msg{Type: uint8(spec.Type), Msid: uint32(spec.Msid), Ts: spec.Ts, Csid: spec.Csid}
		pm := &pendingMsg{}
		if len(spec.Aggr) > 0 {
			var subs []expMsg
			m.Payload, subs = aggregatePayload(spec)
			for i := range subs {
				subs[i].Msid = uint32(spec.Msid)
			}
			pm.exp = subs
		} else {
			m.Payload = randBytes(spec.Seed, spec.Len)
			pm.exp = []expMsg{{Type: m.Type, Msid: m.Msid, Ts: m.Ts, Csid: m.Csid, Payload: m.Payload}}
		}
		pm.firstHdr, pm.contHdr = w.EncodeParts(m)
		pm.payload = m.Payload
		pm.csid = m.Csid
		inflight = append(inflight, pm)
		busy[spec.Csid] = true
		if r.Bool(0.4) {
			flush()
			busy = map[int]bool{}
		}
	}
	flush()
	cut := len(wire)
	if pl.EofAt >= 0 && pl.EofAt < len(wire) {
		cut = pl.EofAt
		k.Fault("eof_mid_stream")
	}
	var got []expMsg
	cc := rtmp.NewChunkComposer()
	err := cc.RunLoop(&segReader{b: wire[:cut], r: r.Fork("seg")}, func(s *rtmp.Stream) error {
		m := rtmp.ZzStreamToMsg(s)
		got = append(got, expMsg{Type: m.Header.MsgTypeId, Msid: uint32(m.Header.MsgStreamId), Ts: m.Header.TimestampAbs, Csid: m.Header.Csid, Payload: append([]byte(nil), m.Payload...)})
		return nil
	})
	if err == nil {
		k.Violate("C08.no-error-at-eof", "ChunkComposer.RunLoop returned nil although the byte stream ended")
	}
	// every message complete before the cut must have been delivered, nothing else
	want := 0
	for i := range expect {
		if endOffsets[i] <= cut {
			want = i + 1
		}
	}
	if len(got) != want {
		k.Violate("C08.decode-count", "lal's reader produced %d messages from a stream that carries %d complete messages (cut at byte %d of %d)", len(got), want, cut, len(wire))
	}
	for i := 0; i < want; i++ {
		e, g := expect[i], got[i]
		if e.Type != g.Type || e.Ts != g.Ts || !bytes.Equal(e.Payload, g.Payload) || (e.Type != 22 && e.Msid != g.Msid) {
			k.Violate("C08.decode-mismatch", "message #%d: sent {type=%d msid=%d ts=%d csid=%d len=%d}, lal's reader returned {type=%d msid=%d ts=%d csid=%d len=%d} (payload equal=%v)",
				i, e.Type, e.Msid, e.Ts, e.Csid, len(e.Payload), g.Type, g.Msid, g.Ts, g.Csid, len(g.Payload), bytes.Equal(e.Payload, g.Payload))
		}
	}
	// ---------- encode side: lal message2Chunks -> reference reader and lal's reader
	var enc []byte
	var encExp []expMsg
	for _, spec := range pl.Msgs {
		if spec.SetCS > 0 || len(spec.Aggr) > 0 {
			continue
		}
		payload := randBytes(spec.Seed, spec.Len)
		h := base.RtmpHeader{Csid: spec.Csid, MsgLen: uint32(len(payload)), MsgTypeId: uint8(spec.Type), MsgStreamId: spec.Msid, TimestampAbs: spec.Ts}
		enc = append(enc, rtmp.ZzMessage2Chunks(payload, &h, nil, pl.EncChunk)...)
		if len(payload) > 0 {
			encExp = append(encExp, expMsg{Type: uint8(spec.Type), Msid: uint32(spec.Msid), Ts: spec.Ts, Csid: spec.Csid, Payload: payload})
		}
	}
	rd := rtmpc.NewReader()
	rd.ChunkSize = pl.EncChunk
	rd.NoAutoChunkSize = true
	ref := rd.Feed(enc)
	if rd.Err != nil {
		k.Violate("C08.encode-unparseable", "a specification-following reader cannot parse what message2Chunks wrote (chunk size %d): %v", pl.EncChunk, rd.Err)
	}
	// zero-length messages produce no chunk at all in lal's serialiser: they are not expected back
	if len(ref) != len(encExp) || rd.Buffered() != 0 {
		k.Violate("C08.encode-count", "message2Chunks wrote %d non-empty messages, the reference reader finds %d (and %d stray bytes)", len(encExp), len(ref), rd.Buffered())
	}
	for i := range encExp {
		e, g := encExp[i], ref[i]
		if e.Type != g.Type || e.Msid != g.Msid || e.Ts != g.Ts || e.Csid != g.Csid || !bytes.Equal(e.Payload, g.Payload) {
			k.Violate("C08.encode-mismatch", "message #%d {type=%d msid=%d ts=%d csid=%d len=%d} is read back by the reference reader as {type=%d msid=%d ts=%d csid=%d len=%d}",
				i, e.Type, e.Msid, e.Ts, e.Csid, len(e.Payload), g.Type, g.Msid, g.Ts, g.Csid, len(g.Payload))
		}
	}
	var got2 []expMsg
	cc2 := rtmp.NewChunkComposer()
	cc2.SetPeerChunkSize(uint32(pl.EncChunk))
	_ = cc2.RunLoop(&segReader{b: enc, r: r.Fork("seg2")}, func(s *rtmp.Stream) error {
		m := rtmp.ZzStreamToMsg(s)
		got2 = append(got2, expMsg{Type: m.Header.MsgTypeId, Msid: uint32(m.Header.MsgStreamId), Ts: m.Header.TimestampAbs, Csid: m.Header.Csid, Payload: append([]byte(nil), m.Payload...)})
		return nil
	})
	if len(got2) != len(encExp) {
		k.Violate("C08.roundtrip-count", "message2Chunks wrote %d non-empty messages, lal's own reader finds %d", len(encExp), len(got2))
	}
	for i := range encExp {
		e, g := encExp[i], got2[i]
		if e.Type != g.Type || e.Msid != g.Msid || e.Ts != g.Ts || e.Csid != g.Csid || !bytes.Equal(e.Payload, g.Payload) {
			k.Violate("C08.roundtrip-mismatch", "message #%d {type=%d msid=%d ts=%d csid=%d len=%d} is read back by lal's reader as {type=%d msid=%d ts=%d csid=%d len=%d}",
				i, e.Type, e.Msid, e.Ts, e.Csid, len(e.Payload), g.Type, g.Msid, g.Ts, g.Csid, len(g.Payload))
		}
	}
	k.Probe("nontrivial")
	if len(inflight) == 0 && len(pl.Msgs) > 3 {
		k.Probe("c08_interleaved_streams")
	}
}

func init() {
	Register(&Check{
		ID:    "C08",
		Gen:   func(r *sim.Rng, tier string) json.RawMessage { return mustJSON(genC08Plan(r, tier)) },
		Sched: func(plan json.RawMessage) sim.SchedParams { return sim.SchedParams{} },
		Run: func(k *sim.Kernel, plan json.RawMessage) {
			var pl ChunkPlan
			fromJSON(plan, &pl)
			k.Mix(string(plan))
			defer func() {
				if r := recover(); r != nil {
					if sim.IsAbort(r) {
						panic(r)
					}
					k.Violate("C08.panic", "lal's codec panicked on this input: %v\n%s", r, debug.Stack())
				}
			}()
			execChunk(k, pl)
		},
		Shrink: func(plan json.RawMessage) []json.RawMessage {
			var pl ChunkPlan
			fromJSON(plan, &pl)
			var out []json.RawMessage
			for i := range pl.Msgs {
				q := pl
				q.Msgs = append(append([]ChunkMsgSpec{}, pl.Msgs[:i]...), pl.Msgs[i+1:]...)
				out = append(out, mustJSON(q))
			}
			for i := range pl.Msgs {
				if pl.Msgs[i].Len > 8 {
					q := pl
					q.Msgs = append([]ChunkMsgSpec{}, pl.Msgs...)
					q.Msgs[i].Len = pl.Msgs[i].Len / 2
					out = append(out, mustJSON(q))
				}
			}
			if pl.EofAt >= 0 {
				q := pl
				q.EofAt = -1
				out = append(out, mustJSON(q))
			}
			return out
		},
		Shape: func(plan json.RawMessage) string {
			var pl ChunkPlan
			fromJSON(plan, &pl)
			s := fmt.Sprintf("e%d/f%v/c%d/", pl.EofAt >= 0, pl.Fmt0, pl.EncChunk)
			for _, m := range pl.Msgs {
				s += fmt.Sprintf("%d.%d.%d,", m.Csid, m.Len, m.Ts>>20)
			}
			if len(s) > 100 {
				s = s[:100]
			}
			return s
		},
		Brief: func(plan json.RawMessage) interface{} {
			var pl ChunkPlan
			fromJSON(plan, &pl)
			return pl
		},
	})
}

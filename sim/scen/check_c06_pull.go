package scen

import (
	"bytes"
	"encoding/json"
	"fmt"
	"strings"
	"time"

	"simlal/sim"
	"simlal/sim/actors"
	"simlal/sim/media"
	"simlal/sim/rtmpc"
)

// The relay-pull ingest leg of C06: the stream does not come from a publisher that connects to lal but from an
// origin lal connects to (start_relay_pull). The pull session hands messages to the group as slices of receive
// buffers it reuses, so every consumer-side remuxer that keeps a message beyond the callback must own a copy;
// HTTP-TS players, the HLS segments and RTMP / HTTP-FLV players must still carry the origin's frames.

type PullIngestPlan struct {
	Batch int             `json:"batch"`
	Cons  []PullIngestCon `json:"cons"`
}

type PullIngestCon struct {
	Proto  string `json:"proto"`   // ts | wsts | flv | rtmp
	JoinAt int    `json:"join_at"` // unit index at which it joins (-1: before the pull starts)
}

const pullOriginAddr = "10.9.9.7:1935"

func genPullIngest(r *sim.Rng, nUnits int) *PullIngestPlan {
	ip := &PullIngestPlan{Batch: 1 + r.Intn(10)}
	n := 1 + r.Intn(4)
	for i := 0; i < n; i++ {
		c := PullIngestCon{Proto: []string{"ts", "ts", "wsts", "flv", "rtmp"}[r.Intn(5)], JoinAt: -1}
		if r.Bool(0.5) && nUnits > 0 {
			c.JoinAt = r.Intn(nUnits)
		}
		ip.Cons = append(ip.Cons, c)
	}
	return ip
}

func runC06Pull(k *sim.Kernel, pl RelayPlan) {
	ip := pl.PullIngest
	if len(pl.Pubs) == 0 {
		return
	}
	pp := pl.Pubs[0]
	units := BuildUnits(pp)
	conf := pl.Conf
	conf.ApiEnable = true
	w := StartWorld(k, conf)
	var stub *actors.RtmpServerStub
	dials := 0
	k.RegisterStub(pullOriginAddr, func(c *sim.Conn) (sim.ConnHandler, time.Duration) {
		dials++
		if stub != nil {
			return nil, 0
		}
		stub = actors.NewRtmpServerStub(k, "origin", c)
		return stub, 0
	})
	name := StreamName(pp.Stream)
	cons := make([]*ConsState, len(ip.Cons))
	join := func(i int) {
		cp := ip.Cons[i]
		c := &ConsState{Plan: ConsPlan{Stream: pp.Stream, Proto: cp.Proto}, Joined: true}
		cname := fmt.Sprintf("cons%d", i)
		switch cp.Proto {
		case "rtmp":
			c.Rtmp = actors.NewRtmpClient(k, cname, actors.RolePlay, "live", name)
			c.Rtmp.Connect(PortRtmp, 50+i)
		case "flv":
			c.Http = actors.NewHttpClient(k, cname, "flv", "/live/"+name+".flv")
			c.Http.Connect(PortHttp, 50+i)
		default:
			c.Http = actors.NewHttpClient(k, cname, cp.Proto, "/live/"+name+".ts")
			c.Http.Connect(PortHttp, 50+i)
		}
		cons[i] = c
	}
	for i, cp := range ip.Cons {
		if cp.JoinAt < 0 {
			join(i)
		}
	}
	k.Settle()
	body, _ := json.Marshal(map[string]interface{}{"url": "rtmp://" + pullOriginAddr + "/live/" + name, "stream_name": name, "pull_timeout_ms": 10000, "pull_retry_num": 0, "auto_stop_pull_after_no_out_ms": -1})
	res := w.Api("api-pull", "/api/ctrl/start_relay_pull", body)
	k.Settle()
	if !res.Done || res.ErrorCode() != 0 || stub == nil || !stub.Started {
		k.Abort(fmt.Sprintf("relay pull did not start (api %d %s, dials %d)", res.Status, res.Body, dials))
	}
	for i := range units {
		for ci, cp := range ip.Cons {
			if cp.JoinAt == i {
				k.Settle()
				join(ci)
				k.Settle()
			}
		}
		stub.Serve(units[i].Msg)
		if i%ip.Batch == ip.Batch-1 {
			k.Settle()
			stub.Observe()
		}
	}
	k.Settle()
	stub.Observe()
	if stub.Closed {
		k.Violate("C06.pull-dropped", "lal closed the relay-pull session while the origin was serving a well-formed stream")
	}
	all := true
	for _, u := range stub.Sent {
		all = all && u.ProcessedStep >= 0
	}
	// the origin ends the stream; lal tears the input down (pending audio flushed, HLS finalised)
	stub.Conn.CloseByPeer()
	k.Settle()
	k.Advance(1500 * time.Millisecond)
	k.Settle()
	hevc := pp.VideoCodec == media.CodecHEVC
	for ci, c := range cons {
		if c == nil {
			continue
		}
		cname := fmt.Sprintf("cons%d(%s,join@%d)", ci, c.Plan.Proto, ip.Cons[ci].JoinAt)
		early := ip.Cons[ci].JoinAt < 0
		switch c.Plan.Proto {
		case "ts", "wsts":
			if len(c.Http.TsBytes) == 0 {
				continue
			}
			tc := ParseTs(c.Http.TsBytes)
			if len(tc.Problems) > 0 {
				k.Violate("C06.ts-structure", "%s (relay-pull ingest): %s", cname, tc.Problems[0])
			}
			prob, nv, na := CompareTsToPublished(tc, units, hevc, pp.AacSr, all)
			if strings.HasPrefix(prob, "BELOW-FIRST") {
				k.Violate("C06.ts-timestamp-below-first", "%s: %s", cname, prob)
			}
			if prob != "" {
				k.Violate("C06.ts-content", "%s (relay-pull ingest): %s", cname, prob)
			}
			if nv+na > 0 {
				k.Probe("nontrivial")
				k.Probe("c06_pull_ts_consumers")
			}
		default:
			// RTMP / HTTP-FLV: every audio / video message is one of the origin's, in order; an early joiner gets all
			items := consItems(c)
			j := 0
			got := 0
			for ii, it := range items {
				if it.Type != rtmpc.TypeAudio && it.Type != rtmpc.TypeVideo {
					continue
				}
				found := false
				for jj := j; jj < len(units); jj++ {
					if units[jj].Msg.Type == it.Type && bytes.Equal(units[jj].Msg.Payload, it.Payload) {
						if early && got > 0 {
							for q := j; q < jj; q++ {
								if t := units[q].Msg.Type; (t == rtmpc.TypeAudio || t == rtmpc.TypeVideo) && len(units[q].Msg.Payload) > 0 {
									k.Violate("C06.pull-relay-content", "%s: unit #%d of the origin was skipped (item #%d is unit #%d)", cname, q, ii, jj)
								}
							}
						}
						j = jj + 1
						found = true
						break
					}
				}
				if !found {
					// sequence headers are replayed to late joiners: look backwards as well
					back := false
					for jj := 0; jj < j && jj < len(units); jj++ {
						if units[jj].Kind != media.KVideo && units[jj].Kind != media.KAudio && units[jj].Msg.Type == it.Type && bytes.Equal(units[jj].Msg.Payload, it.Payload) {
							back = true
						}
					}
					if !back && !early {
						// cached GOP frames precede live ones: membership is what can be said without the admission model
						for jj := range units {
							if units[jj].Msg.Type == it.Type && bytes.Equal(units[jj].Msg.Payload, it.Payload) {
								back = true
							}
						}
					}
					if !back {
						k.Violate("C06.pull-relay-content", "%s: item #%d %s is not a message the origin served (or repeats / reorders one)", cname, ii, describe(&items[ii]))
					}
				}
				got++
			}
			if got > 0 {
				k.Probe("nontrivial")
				k.Probe("c06_pull_relay_consumers")
			}
		}
	}
	if conf.HlsEnable {
		useRecord := conf.HlsCleanup != 2
		m, data, problem := hlsContent(k, name, useRecord)
		if problem != "" {
			k.Violate("C06.hls-structure", "relay-pull ingest: %s", problem)
		}
		if m != nil && len(data) > 0 {
			tc := ParseTs(data)
			if len(tc.Problems) > 0 {
				k.Violate("C06.hls-structure", "relay-pull ingest: concatenated HLS segments: %s", tc.Problems[0])
			}
			prob, nv, na := CompareTsToPublished(tc, units, hevc, pp.AacSr, useRecord && all)
			if strings.HasPrefix(prob, "BELOW-FIRST") {
				k.Violate("C06.ts-timestamp-below-first", "relay-pull ingest: HLS segments: %s", prob)
			}
			if prob != "" {
				k.Violate("C06.hls-content", "relay-pull ingest: HLS segments: %s", prob)
			}
			if nv+na > 0 {
				k.Probe("nontrivial")
				k.Probe("c06_pull_hls_streams")
			}
		}
	}
	for _, c := range cons {
		if c == nil {
			continue
		}
		if c.Rtmp != nil {
			c.Rtmp.Leave(false)
		}
		if c.Http != nil {
			c.Http.Leave(false)
		}
	}
	k.Settle()
}

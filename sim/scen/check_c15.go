package scen

import (
	"encoding/json"
	"fmt"

	"simlal/sim"
	"simlal/sim/media"
	"simlal/sim/rtpc"
)

func genC15Plan(r *sim.Rng, tier string) RelayPlan {
	var pl RelayPlan
	pl.Conf = LalConf{ApiEnable: true, FlvEnable: true, TsEnable: true, RtspEnable: true, NoHook: true}
	pl.Conf.QueueSize = []int{16, 24, 33, 64, 64}[r.Intn(5)]
	queueDraw := pl.Conf.QueueSize
	pl.Conf.RtmpGop = []int{0, 0, 1}[r.Intn(3)]
	pl.Conf.FlvGop = []int{0, 0, 1}[r.Intn(3)]
	pl.Conf.RtmpGop, pl.Conf.FlvGop, pl.Conf.TsGop = 0, 0, 0 // a GOP replay larger than the queue would overflow a healthy consumer
	pl.Sched = GenSched(r.Fork("sched"), tier == "thorough")
	// writer goroutines of healthy consumers keep up with the producer (the small queues are there to make the
	// stalled consumers' queues overflow quickly, not to starve healthy ones)
	pl.Sched.DrainFirst = true
	pl.Sched.Chaos = 0
	pl.Sched.Preempt = 0
	nStreams := 1 + r.Intn(2)
	// an RTP packet is one entry of an interleaved RTSP player's write queue, so with the shrunk queues a large frame
	// alone would overflow a healthy player's queue: runs with RTSP players publish frames of a few packets only
	withRtsp := r.Bool(0.4)
	if withRtsp && queueDraw < 64 {
		pl.Conf.QueueSize = 64
	}
	for s := 0; s < nStreams; s++ {
		p := PubPlan{Stream: s, Inc: s, VideoCodec: media.CodecAVC, AudioCodec: media.SoundAAC, AacSr: 4}
		if r.Bool(0.2) {
			p.VideoCodec = 0
		}
		n := 70 + r.Intn(60)
		if tier == "thorough" {
			n = 110 + r.Intn(200)
		}
		prof := RelayProfile{BigUnits: 0.05}
		if withRtsp {
			prof.BigUnits = 0
			n += 600 // the stream has to fill a stalled player's queue and keep flowing across two liveness sweeps
		}
		genUnits(r.Fork(fmt.Sprintf("u%d", s)), &p, prof, n)
		if withRtsp {
			for i := range p.Units {
				if p.Units[i].Size > 2000 {
					p.Units[i].Size = 1200 + p.Units[i].Size%800
				}
			}
		}
		// steady timestamps
		pl.Pubs = append(pl.Pubs, p)
	}
	nCons := 2 + r.Intn(5)
	protos := []string{"rtmp", "flv", "wsflv", "ts", "wsts"}
	if withRtsp {
		protos = append(protos, "rtsp", "rtsp", "rtsp")
	}
	for c := 0; c < nCons; c++ {
		pl.Cons = append(pl.Cons, ConsPlan{Stream: r.Intn(nStreams), Proto: protos[r.Intn(len(protos))]})
	}
	// who stalls: at least one consumer stays healthy
	nStall := 1 + r.Intn(maxInt(1, nCons-1))
	stall := map[int]bool{}
	for len(stall) < nStall {
		stall[r.Intn(nCons)] = true
	}
	if len(stall) == nCons {
		delete(stall, 0)
	}
	for s := 0; s < nStreams; s++ {
		pl.Ops = append(pl.Ops, RelayOp{Kind: "start_pub", Pub: s})
	}
	pl.Ops = append(pl.Ops, RelayOp{Kind: "settle"})
	for s := 0; s < nStreams; s++ {
		pl.Ops = append(pl.Ops, RelayOp{Kind: "send", Pub: s, N: 6})
	}
	for c := 0; c < nCons; c++ {
		pl.Ops = append(pl.Ops, RelayOp{Kind: "join", Cons: c})
	}
	pl.Ops = append(pl.Ops, RelayOp{Kind: "settle"})
	if withRtsp && r.Bool(0.3) {
		// a long healthy phase first: the players live through two liveness sweeps before anybody stalls (the sweep
		// compares counters with the snapshot it took the time before)
		// (a whole GOP per round: a player that waits for a key frame and is fed nothing for two sweeps would be swept too)
		for i := 0; i < 27; i++ {
			for s := 0; s < nStreams; s++ {
				pl.Ops = append(pl.Ops, RelayOp{Kind: "send", Pub: s, N: 14})
			}
			pl.Ops = append(pl.Ops, RelayOp{Kind: "settle"}, RelayOp{Kind: "advance", Ms: 10000})
		}
	}
	// main loop: ~1 unit batch per 300..1200 ms of simulated time, stalls and drips interleaved
	rounds := 25 + r.Intn(20)
	// slow variant: lal's default queues (1024 entries) and a stream of one message every 1.5 s - a stalled player's
	// queue never fills, so only the write timeout can disconnect it
	slow := !withRtsp && r.Bool(0.15)
	if slow {
		pl.Conf.QueueSize = 0
		rounds = 14 + r.Intn(5)
	}
	stallAt := map[int]int{}
	for c := range pl.Cons {
		if stall[c] {
			stallAt[c] = r.Intn(rounds / 2)
			if slow {
				stallAt[c] = 1 + r.Intn(2)
			}
		}
	}
	for round := 0; round < rounds; round++ {
		for c := range pl.Cons {
			if stall[c] && stallAt[c] == round {
				pl.Ops = append(pl.Ops, RelayOp{Kind: "stall", Cons: c, N: []int{0, 1, 7, 100, 5000}[r.Intn(5)]})
				if slow {
					pl.Ops[len(pl.Ops)-1].N = 0
				}
			} else if stall[c] && round > stallAt[c] && !slow {
				switch r.Intn(12) {
				case 0:
					pl.Ops = append(pl.Ops, RelayOp{Kind: "drip", Cons: c, N: 1 + r.Intn(3000)})
				case 1:
					if r.Bool(0.3) {
						pl.Ops = append(pl.Ops, RelayOp{Kind: "resume", Cons: c})
					}
				}
			}
		}
		for s := 0; s < nStreams; s++ {
			pl.Ops = append(pl.Ops, RelayOp{Kind: "send", Pub: s, N: 1 + r.Intn(3)})
			if slow {
				pl.Ops[len(pl.Ops)-1].N = 1
			}
		}
		pl.Ops = append(pl.Ops, RelayOp{Kind: "settle"})
		pl.Ops = append(pl.Ops, RelayOp{Kind: "advance", Ms: 300 + r.Intn(900)})
		if slow {
			pl.Ops[len(pl.Ops)-1].Ms = 1500
		}
	}
	// RTSP command connections have no write timeout: a stalled interleaved player is removed by the liveness sweep
	// (every 120 s), so the stream keeps flowing for a few more minutes of simulated time when one is stalled
	for c := range pl.Cons {
		if stall[c] && pl.Cons[c].Proto == "rtsp" {
			// first enough frames to fill its write queue for good (lal counts a queued packet as written) ...
			for i := 0; i < 10; i++ {
				for s := 0; s < nStreams; s++ {
					pl.Ops = append(pl.Ops, RelayOp{Kind: "send", Pub: s, N: 8})
				}
				pl.Ops = append(pl.Ops, RelayOp{Kind: "settle"}, RelayOp{Kind: "advance", Ms: 500})
			}
			if r.Bool(0.4) {
				// ... then the publishers leave and the stalled player stays behind, across two sweeps (healthy players
				// leave first: lal also sweeps players that have been fed nothing for two sweeps)
				for c2 := range pl.Cons {
					if !stall[c2] {
						pl.Ops = append(pl.Ops, RelayOp{Kind: "leave", Cons: c2})
					}
				}
				pl.Ops = append(pl.Ops, RelayOp{Kind: "settle"})
				for s := 0; s < nStreams; s++ {
					pl.Ops = append(pl.Ops, RelayOp{Kind: "stop_pub", Pub: s})
				}
				for i := 0; i < 27; i++ {
					pl.Ops = append(pl.Ops, RelayOp{Kind: "settle"}, RelayOp{Kind: "advance", Ms: 10000})
				}
				break
			}
			// ... then a slow trickle across two sweeps
			for i := 0; i < 27; i++ {
				for s := 0; s < nStreams; s++ {
					pl.Ops = append(pl.Ops, RelayOp{Kind: "send", Pub: s, N: 1})
				}
				pl.Ops = append(pl.Ops, RelayOp{Kind: "settle"}, RelayOp{Kind: "advance", Ms: 10000})
			}
			break
		}
	}
	return pl
}

// rtspFramingProblem: what an interleaved RTSP player received must be whole '$' frames carrying RTP / RTCP of its tracks.
func rtspFramingProblem(c *ConsState) string {
	a := c.Rtsp
	if a.Failed != "" && a.Ready {
		return "the interleaved stream no longer parses: " + a.Failed
	}
	for n, r := range a.Rtp {
		if r.Track < 0 || r.Track >= len(a.Tracks) {
			return fmt.Sprintf("frame #%d arrived on channel %d of no track", n, 2*r.Track)
		}
		p, err := rtpc.Parse(r.B)
		if err != nil {
			return fmt.Sprintf("frame #%d on channel %d is not an RTP packet: %v", n, 2*r.Track, err)
		}
		if int(p.PT) != a.Tracks[r.Track].PT {
			return fmt.Sprintf("frame #%d on channel %d carries payload type %d, the track's is %d", n, 2*r.Track, p.PT, a.Tracks[r.Track].PT)
		}
	}
	return ""
}

// CheckC15: a stalled consumer delays nobody, is disconnected, and what it got is well framed.
func CheckC15(k *sim.Kernel, rr *RelayRun) {
	// (1) the publisher is never delayed: every unit was processed at the simulated instant it was delivered
	for pi, p := range rr.Pubs {
		if p.Actor == nil {
			continue
		}
		if p.Actor.Closed && !p.Stopped {
			k.Violate("C15.publisher-disconnected", "pub%d was disconnected by lal while consumers were stalled", pi)
		}
		for i, su := range p.Actor.Sent {
			if su.DeliveredStep >= 0 && su.ProcessedStep < 0 && !p.Actor.Closed {
				k.Violate("C15.publisher-blocked", "pub%d: unit %d reached lal at %d ms but had not been processed when the run ended at %d ms (a write blocked under the stream lock?); blocked: %v",
					pi, i, su.DeliveredMs, k.NowMs(), k.BlockedLockWaiters())
			}
			if su.ProcessedStep >= 0 && su.ProcessedMs != su.DeliveredMs {
				k.Violate("C15.publisher-delayed", "pub%d: unit %d reached lal at %d ms but was only processed at %d ms", pi, i, su.DeliveredMs, su.ProcessedMs)
			}
		}
	}
	anyStall := false
	for ci, c := range rr.Cons {
		if !c.Joined {
			continue
		}
		name := fmt.Sprintf("cons%d(%s)", ci, c.Plan.Proto)
		F := rr.Forwardable(c.Plan.Stream)
		if !c.Stalled {
			// (2) healthy consumers of the same and of other streams get everything, at once
			switch c.Plan.Proto {
			case "rtmp", "flv", "wsflv":
				JudgeConsumer(k, "C15", name, c, F, rr.Plan.Conf)
				R := consItems(c)
				for j := range R {
					for p := range F {
						if F[p].equals(&R[j]) && F[p].Sent.ProcessedStep >= 0 && F[p].Sent.DeliveredStep > c.JoinDoneStep() {
							if R[j].Ms > F[p].Sent.ProcessedMs {
								k.Violate("C15.healthy-delayed", "%s: unit #%d was processed by lal at %d ms but reached this healthy consumer at %d ms", name, p, F[p].Sent.ProcessedMs, R[j].Ms)
							}
							break
						}
					}
				}
			case "rtsp":
				if c.ClosedByLal() && !c.Left {
					k.Violate("C15.healthy-disconnected", "%s: lal closed a healthy consumer", name)
				}
				if prob := rtspFramingProblem(c); prob != "" {
					k.Violate("C15.healthy-framing", "%s: %s", name, prob)
				}
				rc := ParseRtspSession(c.Rtsp)
				if len(rc.Problems) > 0 {
					k.Violate("C15.healthy-framing", "%s: %s", name, rc.Problems[0]) // includes sequence gaps: nothing may be dropped for a healthy player
				}
			case "ts", "wsts":
				if c.Http != nil && c.ClosedByLal() && !c.Left {
					k.Violate("C15.healthy-disconnected", "%s: lal closed a healthy consumer", name)
				}
				if c.Http != nil && len(c.Http.TsBytes) > 0 {
					tc := ParseTs(c.Http.TsBytes)
					if len(tc.Problems) > 0 {
						k.Violate("C15.healthy-framing", "%s: %s", name, tc.Problems[0])
					}
				}
			}
			continue
		}
		anyStall = true
		k.Probe("nontrivial")
		// (3) the stalled consumer is disconnected once its write timeout fires (10 s) provided lal kept
		// having data for it; bound: write timeout + slack, checked when it was never resumed
		pubActiveAfter := int64(0)
		for _, p := range rr.Pubs {
			if p.Plan.Stream == c.Plan.Stream && p.Actor != nil {
				for _, su := range p.Actor.Sent {
					if su.ProcessedStep >= 0 && su.ProcessedMs > pubActiveAfter {
						pubActiveAfter = su.ProcessedMs
					}
				}
			}
		}
		if c.Rtsp != nil {
			// no write timeout on RTSP command connections: the liveness sweep (2 x 120 s) removes it
			// lal counts a packet as written when it is queued: the sweep can only notice the stall once the queue is
			// full, i.e. after queue-size more packets (every frame is at least one packet)
			queueFullBy := int64(-1)
			after := 0
			for _, p := range rr.Pubs {
				if p.Plan.Stream != c.Plan.Stream || p.Actor == nil {
					continue
				}
				for ui, su := range p.Actor.Sent {
					if su.ProcessedStep >= 0 && su.ProcessedMs > c.StallAtMs && ui < len(p.Units) && isFrame(p.Units[ui].Kind) {
						after++
						if after == rr.Plan.Conf.QueueSize+8 {
							queueFullBy = su.ProcessedMs
						}
					}
				}
			}
			if queueFullBy < 0 {
				queueFullBy = 1 << 60
			}
			if c.ResumedAtMs == 0 && pubActiveAfter-queueFullBy > 250000 && !c.ClosedAtEnd && c.BlockedAtEnd {
				k.Violate("C15.stalled-not-disconnected", "%s stopped reading at %d ms; the stream kept flowing until %d ms but the liveness sweep never disconnected it", name, c.StallAtMs, pubActiveAfter)
			}
			if pubActiveAfter-queueFullBy > 250000 {
				k.Probe("c15_rtsp_sweep_judged")
			}
			// the publisher left and the stalled player stayed: nothing is written to it any more, so the sweep sees
			// a dead writer whatever the state of its queue
			pubLeft := false
			for _, p := range rr.Pubs {
				if p.Plan.Stream == c.Plan.Stream && p.Stopped {
					pubLeft = true
				}
			}
			if pubLeft && c.ResumedAtMs == 0 && rr.OpsEndMs-pubActiveAfter > 250000 && pubActiveAfter > c.StallAtMs {
				if !c.ClosedAtEnd && c.BlockedAtEnd {
					k.Violate("C15.stalled-not-disconnected", "%s stopped reading at %d ms; its publisher left after %d ms and %d ms later the liveness sweep still has not disconnected it", name, c.StallAtMs, pubActiveAfter, rr.OpsEndMs-pubActiveAfter)
				}
				k.Probe("c15_rtsp_sweep_after_pub_left")
			}
		} else if c.ResumedAtMs == 0 && !c.ClosedAtEnd && c.BlockedForMsAtEnd > 12500 {
			// RTMP / HTTP-FLV / HTTP-TS players have a 10 s write timeout: a write that has been waiting for the peer for
			// longer than that (plus slack) means the timeout is not in force for this session
			k.Violate("C15.stalled-not-disconnected", "%s stopped reading at %d ms; when the run ended lal's write to it had been blocked for %d ms (write timeout 10 s) and the session was still open", name, c.StallAtMs, c.BlockedForMsAtEnd)
		} else if c.ResumedAtMs == 0 && pubActiveAfter-c.StallAtMs > 14000 && !c.ClosedByLal() {
			var conn *sim.Conn
			if c.Rtmp != nil {
				conn = c.Rtmp.Conn
			} else {
				conn = c.Http.Conn
			}
			if conn.WriterBlocked() || conn.Window() == 0 {
				k.Violate("C15.stalled-not-disconnected", "%s stopped reading at %d ms; the stream kept flowing until %d ms but lal never disconnected it (blocked writer=%v)", name, c.StallAtMs, pubActiveAfter, conn.WriterBlocked())
			}
		}
		if c.ClosedByLal() {
			k.Probe("c15_stalled_disconnected")
		}
		// (4) framing of whatever it received: parses cleanly; units are published units, in order, no duplicate
		switch c.Plan.Proto {
		case "rtsp":
			if prob := rtspFramingProblem(c); prob != "" {
				k.Violate("C15.framing", "%s: %s", name, prob)
			}
		case "rtmp":
			if c.Rtmp.ParseErr != nil {
				k.Violate("C15.framing", "%s: the RTMP chunk stream it received does not parse: %v", name, c.Rtmp.ParseErr)
			}
		case "flv", "wsflv":
			if c.Http.Ws.Err != nil {
				k.Violate("C15.framing", "%s: the WebSocket stream it received does not parse: %v", name, c.Http.Ws.Err)
			}
			if c.Http.Flv.Err != nil {
				k.Violate("C15.framing", "%s: the FLV stream it received does not parse: %v", name, c.Http.Flv.Err)
			}
		case "ts", "wsts":
			if c.Http.Ws.Err != nil {
				k.Violate("C15.framing", "%s: the WebSocket stream it received does not parse: %v", name, c.Http.Ws.Err)
			}
			if len(c.Http.TsBytes) > 0 {
				b := c.Http.TsBytes
				b = b[:len(b)-len(b)%188] // the connection may end inside a packet
				tc := ParseTs(b)
				if tc.D.Err != nil {
					k.Violate("C15.framing", "%s: the TS stream it received does not parse: %v", name, tc.D.Err)
				}
			}
		}
		if c.Plan.Proto == "rtmp" || c.Plan.Proto == "flv" || c.Plan.Proto == "wsflv" {
			R := consItems(c)
			last := -1
			for j := range R {
				pos := -1
				for p := range F {
					if F[p].equals(&R[j]) && (p > last || !isFrame(F[p].U.Kind)) {
						pos = p
						break
					}
				}
				if pos < 0 {
					k.Violate("C15.stalled-content", "%s: item #%d %s is not a whole published unit in publish order (drops must be whole units)", name, j, describe(&R[j]))
				}
				if isFrame(F[pos].U.Kind) {
					if pos > last+1 && last >= 0 {
						k.Probe("c15_whole_unit_drop")
					}
					last = pos
				}
			}
		}
	}
	if !anyStall {
		return
	}
}

func init() {
	Register(&Check{
		ID:    "C15",
		Gen:   func(r *sim.Rng, tier string) json.RawMessage { return mustJSON(genC15Plan(r, tier)) },
		Sched: relaySched,
		Run: func(k *sim.Kernel, plan json.RawMessage) {
			var pl RelayPlan
			fromJSON(plan, &pl)
			rr := ExecRelay(k, pl)
			rr.OpsEndMs = k.NowMs()
			// let stalled consumers drain what lal still has for them, then judge
			for _, c := range rr.Cons {
				if !c.Stalled {
					continue
				}
				c.ClosedAtEnd = c.ClosedByLal()
				var conn *sim.Conn
				switch {
				case c.Rtmp != nil:
					conn = c.Rtmp.Conn
				case c.Http != nil:
					conn = c.Http.Conn
				case c.Rtsp != nil:
					conn = c.Rtsp.Conn
				}
				c.BlockedAtEnd = conn != nil && (conn.WriterBlocked() || conn.Window() == 0)
				if conn != nil {
					c.BlockedForMsAtEnd = conn.BlockedForMs()
				}
			}
			for i, c := range rr.Cons {
				if c.Stalled && !c.ClosedByLal() {
					rr.exec(k, RelayOp{Kind: "resume", Cons: i})
					c.ResumedAtMs = 0
				}
			}
			k.Settle()
			CheckC15(k, rr)
		},
		Shrink: relayShrink,
		Shape:  relayShape,
		Brief:  relayBrief,
	})
}

package scen

import (
	"bytes"
	"fmt"

	"simlal/sim"
	"simlal/sim/media"
)

// posOf maps every received item to a position of F: the smallest matching position greater than
// the previous item's, else the smallest matching position (-1: matches nothing).
func posOf(R []RItem, F []FUnit) []int {
	out := make([]int, len(R))
	prev := -1
	for j := range R {
		best, first := -1, -1
		for p := range F {
			if F[p].equals(&R[j]) {
				if first < 0 {
					first = p
				}
				if p > prev && best < 0 {
					best = p
				}
			}
		}
		if best < 0 {
			best = first
		}
		out[j] = best
		if best >= 0 {
			prev = best
		}
	}
	return out
}

// inForce returns the position of the latest unit of kind k before position p within p's incarnation (-1: none).
func inForce(F []FUnit, p int, k media.Kind) int {
	for q := p - 1; q >= 0 && F[q].Pub == F[p].Pub; q-- {
		if F[q].U.Kind == k {
			// (an in-flight header before a frame the consumer did receive was necessarily processed)
			return q
		}
	}
	return -1
}

// modelGops is the reference GOP cache: the GOPs (lists of F positions) formed by the units of b's
// incarnation that precede b; at most gopNum most recent GOPs are kept. Frames per GOP are NOT cut here.
func modelGops(F []FUnit, b int, gopNum int, pub int) [][]int {
	if gopNum <= 0 {
		return nil
	}
	start := b
	for start > 0 && F[start-1].Pub == pub {
		start--
	}
	var gops [][]int
	var lastHdr [2][]byte
	for p := start; p < b; p++ {
		u := F[p].U
		if F[p].Opt {
			continue
		}
		if u.Kind == media.KVideoSeq || u.Kind == media.KAudioSeq {
			// frames cached under a sequence header of different content are not replayable
			i := 0
			if u.Kind == media.KAudioSeq {
				i = 1
			}
			if lastHdr[i] != nil && !bytes.Equal(lastHdr[i], F[p].Want) {
				gops = nil
			}
			lastHdr[i] = F[p].Want
			continue
		}
		if !isFrame(u.Kind) {
			continue
		}
		if u.Kind == media.KVideo && u.Key {
			gops = append(gops, []int{p})
			if len(gops) > gopNum {
				gops = gops[1:]
			}
		} else if len(gops) > 0 {
			gops[len(gops)-1] = append(gops[len(gops)-1], p)
		}
	}
	return gops
}

// matchReplay checks that the replayed positions equal the cached GOPs, oldest first, each GOP complete
// or cut at the cap (cap or cap+1 frames are both accepted as "cut at the cap").
func matchReplay(replay []int, gops [][]int, cap int) string {
	i := 0
	for gi, g := range gops {
		want := len(g)
		alt := -1
		if cap > 0 && len(g) > cap {
			want = cap
			if len(g) > cap {
				alt = cap + 1
				if alt > len(g) {
					alt = len(g)
				}
			}
		}
		n := 0
		for n < len(g) && i+n < len(replay) && replay[i+n] == g[n] {
			n++
		}
		// n = how many frames of this GOP were replayed in order
		if n != want && n != alt {
			return fmt.Sprintf("cached GOP %d of %d (starting at unit #%d, %d frames, cap %d): %d frames replayed", gi+1, len(gops), g[0], len(g), cap, n)
		}
		i += n
	}
	if i != len(replay) {
		return fmt.Sprintf("replayed frame at unit #%d is not part of the %d most recent GOPs", replay[i], len(gops))
	}
	return ""
}

// CheckC02 evaluates the start-up property for the RTMP / FLV consumers of a relay run.
func CheckC02(k *sim.Kernel, rr *RelayRun) {
	for ci, c := range rr.Cons {
		if !c.Joined {
			continue
		}
		var gop, cap int
		switch c.Plan.Proto {
		case "rtmp":
			gop, cap = rr.Plan.Conf.RtmpGop, rr.Plan.Conf.RtmpGopCap
		case "flv", "wsflv":
			gop, cap = rr.Plan.Conf.FlvGop, rr.Plan.Conf.FlvGopCap
		default:
			continue
		}
		name := fmt.Sprintf("cons%d(%s)", ci, c.Plan.Proto)
		F := rr.Forwardable(c.Plan.Stream)
		R := consItems(c)
		if len(R) == 0 {
			continue
		}
		pos := posOf(R, F)
		for j, p := range pos {
			if p < 0 {
				k.Violate("C02.content", "%s: received item #%d %s equals no published unit", name, j, describe(&R[j]))
			}
		}
		if k.Tracing() {
			k.Note("== C02 %s joinSent=%d joinDone=%d gop=%d cap=%d pos=%v", name, c.JoinSentStep(), c.JoinDoneStep(), gop, cap, pos)
		}
		// (a)+(b): headers in force precede every frame
		lastV, lastA, lastM := -1, -1, -1 // index in R of the latest header items
		firstFrameSeen := false
		firstVideoSeen := false
		for j := range R {
			p := pos[j]
			u := F[p].U
			switch u.Kind {
			case media.KVideoSeq:
				lastV = j
			case media.KAudioSeq:
				lastA = j
			case media.KMeta:
				lastM = j
			case media.KVideo, media.KAudio:
				hdrKind := media.KVideoSeq
				last := lastV
				if u.Kind == media.KAudio {
					hdrKind, last = media.KAudioSeq, lastA
				}
				if q := inForce(F, p, hdrKind); q >= 0 {
					if last < 0 {
						k.Violate("C02.no-header", "%s: %s frame (unit #%d, ts=%d) was delivered without any preceding %s although one (unit #%d) was in force when it was published",
							name, u.Kind, p, u.Ts, hdrKind, q)
					}
					if !bytes.Equal(R[last].Payload, F[q].Want) {
						k.Violate("C02.stale-header", "%s: %s frame (unit #%d, ts=%d) is preceded by a %s that differs from the one in force when it was published (unit #%d)",
							name, u.Kind, p, u.Ts, hdrKind, q)
					}
				}
				if !firstFrameSeen {
					firstFrameSeen = true
					if q := inForce(F, p, media.KMeta); q >= 0 && (lastM < 0 || F[pos[lastM]].Pub != F[p].Pub) {
						k.Violate("C02.no-metadata", "%s: first frame (unit #%d) was delivered without the stream's metadata (unit #%d) before it", name, p, q)
					}
					k.Probe("nontrivial")
				}
				if u.Kind == media.KVideo && !firstVideoSeen {
					firstVideoSeen = true
					if !u.Key {
						// is it the publisher's own first video frame (a stream that starts with non-key frames)?
						own := true
						for q := p - 1; q >= 0 && F[q].Pub == F[p].Pub; q-- {
							if F[q].U.Kind == media.KVideo {
								own = false
							}
						}
						if own {
							k.Violate("C02.first-video-not-key.own-start", "%s: the publisher's stream itself starts with a non-key video frame (unit #%d) and the consumer, attached before it, was given that frame first", name, p)
						}
						k.Violate("C02.first-video-not-key", "%s: first video frame received (unit #%d, ts=%d) is not a key frame although it joined mid-stream", name, p, u.Ts)
					}
				}
			}
		}
		// (d) GOP replay exactness, (e) start point
		joinSent, joinDone := c.JoinSentStep(), c.JoinDoneStep()
		if joinSent < 0 || joinDone < 0 {
			continue
		}
		bMin := 0
		for bMin < len(F) && F[bMin].Sent.ProcessedStep >= 0 && F[bMin].Sent.ProcessedStep < joinSent {
			bMin++
		}
		bMax := len(F)
		for p := range F {
			if !F[p].Opt && F[p].Sent.DeliveredStep > joinDone {
				bMax = p
				break
			}
		}
		if bMax < bMin {
			bMax = bMin
		}
		hasOpt := false
		for p := 0; p < bMax && p < len(F); p++ {
			if F[p].Opt {
				hasOpt = true
			}
		}
		if hasOpt {
			k.Probe("c02_replay_check_skipped_opt")
			continue
		}
		var frames []int // positions of the frames in R, in order
		for j := range R {
			if isFrame(F[pos[j]].U.Kind) {
				frames = append(frames, pos[j])
			}
		}
		var lastProblem string
		ok := false
		for b := bMin; b <= bMax && !ok; b++ {
			pub := -1
			if b < len(F) {
				pub = F[b].Pub
			}
			if b > 0 && (pub < 0 || F[b-1].Pub != pub) {
				// b is the first unit of an incarnation (or past the end): the cache of the previous one
				// was cleared only if that publisher already left; model both by using the previous incarnation
				// when the consumer received frames of it
				if len(frames) > 0 && frames[0] < b {
					pub = F[b-1].Pub
				}
			}
			gops := modelGops(F, b, gop, pub)
			var replay []int
			i := 0
			for i < len(frames) && frames[i] < b {
				replay = append(replay, frames[i])
				i++
			}
			msg := matchReplay(replay, gops, cap)
			if msg != "" && (c.Left || c.Kicked || c.ClosedByLal()) && i == len(frames) && isPrefixOfGops(replay, gops) {
				msg = "" // the consumer went away during its prologue: what it got is a prefix of the replay
			}
			if msg != "" {
				lastProblem = fmt.Sprintf("assuming the consumer was admitted just before unit #%d: %s", b, msg)
				continue
			}
			// live part: contiguous from its first frame on
			live := frames[i:]
			bad := ""
			for x := 1; x < len(live); x++ {
				// every unit strictly between two consecutive live frames must be a non-frame or an in-flight (optional) unit
				for q := live[x-1] + 1; q < live[x]; q++ {
					if isFrame(F[q].U.Kind) && !F[q].Opt {
						bad = fmt.Sprintf("live frames jump from unit #%d to unit #%d (unit #%d missing)", live[x-1], live[x], q)
						break
					}
				}
				if live[x] <= live[x-1] {
					bad = fmt.Sprintf("live frame unit #%d after unit #%d (duplicate or reordered)", live[x], live[x-1])
				}
				if bad != "" {
					break
				}
			}
			if bad != "" {
				lastProblem = bad
				continue
			}
			if len(gops) > 0 && len(live) > 0 {
				// with a replay the consumer's gate is open: live starts at the first frame at/after b
				// (in-flight units in between may or may not have been processed)
				if live[0] < b {
					lastProblem = fmt.Sprintf("assuming admission just before unit #%d: live unit #%d precedes it", b, live[0])
					continue
				}
				gap := -1
				for q := b; q < live[0]; q++ {
					if isFrame(F[q].U.Kind) && !F[q].Opt {
						gap = q
						break
					}
				}
				if gap >= 0 {
					lastProblem = fmt.Sprintf("assuming admission just before unit #%d: replay of %d GOP(s) is followed by live unit #%d although unit #%d was due first (not contiguous)", b, len(gops), live[0], gap)
					continue
				}
			}
			ok = true
			if len(gops) > 0 {
				k.Probe("c02_replay_checked")
				if cap > 0 {
					for _, g := range gops {
						if len(g) > cap {
							k.Probe("c02_gop_cap_hit")
						}
					}
				}
			}
		}
		if !ok {
			k.Violate("C02.replay", "%s: what it received is not (most recent <= %d cached GOPs, cap %d) ++ live for any admission point in units #%d..#%d: %s",
				name, gop, cap, bMin, bMax, lastProblem)
		}
		// (e) a stream that currently has no video never holds a consumer back
		if bMax < len(F) && rr.Pubs[F[bMax].Pub].Plan.VideoCodec == 0 && !c.Left && !c.Kicked && !(c.Plan.Proto == "rtmp" && rr.Plan.Conf.MergeWrite > 0) {
			found := false
			for j := range R {
				if F[bMax].equals(&R[j]) {
					found = true
				}
			}
			if !found && F[bMax].Sent.ProcessedStep >= 0 {
				k.Violate("C02.held-back", "%s: the stream has no video, yet unit #%d (%s, ts=%d), published after the consumer had joined, was not delivered",
					name, bMax, F[bMax].U.Kind, F[bMax].U.Ts)
			}
		}
	}
}

func (c *ConsState) JoinSentStep() int {
	if c.Rtmp != nil {
		return c.Rtmp.JoinSentStep
	}
	if c.Http != nil {
		return c.Http.JoinSentStep
	}
	return -1
}

func isPrefixOfGops(replay []int, gops [][]int) bool {
	var flat []int
	for _, g := range gops {
		flat = append(flat, g...)
	}
	// a prefix of the replay with per-GOP cuts: every replayed position must appear in order in flat
	i := 0
	for _, p := range replay {
		for i < len(flat) && flat[i] != p {
			i++
		}
		if i == len(flat) {
			return false
		}
		i++
	}
	return true
}

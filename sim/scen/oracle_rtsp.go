package scen

import (
	"bytes"
	"encoding/base64"
	"encoding/hex"
	"fmt"
	"strings"

	"simlal/sim"
	"simlal/sim/actors"
	"simlal/sim/media"
	"simlal/sim/rtpc"
)

// RtspContent is what an independent RTP depacketiser recovers from an RTSP player's session.
type RtspContent struct {
	Video    []rtpc.Unit
	Audio    []rtpc.Unit
	VTrack   *actors.RtspTrack
	ATrack   *actors.RtspTrack
	Problems []string
}

// ParseRtspSession depacketises the RTP packets an RTSP player received (in arrival order per track; lal's own
// sequence numbers must be consecutive, which is checked).
func ParseRtspSession(a *actors.RtspClient) *RtspContent {
	rc := &RtspContent{}
	type st struct {
		d       rtpc.Depacketiser
		have    bool
		lastSeq uint16
		ssrc    uint32
		units   int
	}
	sts := make([]*st, len(a.Tracks))
	for i := range a.Tracks {
		t := &a.Tracks[i]
		s := &st{}
		switch t.Enc {
		case "H264":
			s.d.Codec = rtpc.H264
			rc.VTrack = t
		case "H265":
			s.d.Codec = rtpc.H265
			rc.VTrack = t
		case "MPEG4-GENERIC":
			s.d.Codec = rtpc.AAC
			rc.ATrack = t
		default:
			s.d.Codec = rtpc.Raw
			rc.ATrack = t
		}
		sts[i] = s
	}
	for n, r := range a.Rtp {
		if r.Track < 0 || r.Track >= len(sts) {
			rc.Problems = append(rc.Problems, fmt.Sprintf("RTP packet #%d arrived on a channel / port of no track (%d)", n, r.Track))
			continue
		}
		p, err := rtpc.Parse(r.B)
		if err != nil {
			rc.Problems = append(rc.Problems, fmt.Sprintf("RTP packet #%d of track %d does not parse: %v", n, r.Track, err))
			continue
		}
		s := sts[r.Track]
		t := &a.Tracks[r.Track]
		if int(p.PT) != t.PT {
			rc.Problems = append(rc.Problems, fmt.Sprintf("RTP packet #%d of track %d has payload type %d, the SDP says %d", n, r.Track, p.PT, t.PT))
		}
		if s.have && p.Seq != s.lastSeq+1 {
			rc.Problems = append(rc.Problems, fmt.Sprintf("RTP packet #%d of track %d has sequence number %d after %d", n, r.Track, p.Seq, s.lastSeq))
		}
		if s.have && p.Ssrc != s.ssrc {
			rc.Problems = append(rc.Problems, fmt.Sprintf("RTP packet #%d of track %d changes SSRC", n, r.Track))
		}
		s.have, s.lastSeq, s.ssrc = true, p.Seq, p.Ssrc
		us := s.d.Feed(p)
		if s.d.Err != nil {
			// a player that is let in at an arbitrary packet (out_wait_key_frame_flag off) may start in the middle of a
			// fragmented NAL unit: a depacketiser discards the fragments up to the next start
			if !(s.units == 0 && strings.Contains(s.d.Err.Error(), "fragment without start")) {
				rc.Problems = append(rc.Problems, fmt.Sprintf("RTP packet #%d of track %d: %v", n, r.Track, s.d.Err))
			}
			s.d.Err = nil
		}
		s.units += len(us)
		if t.Audio {
			rc.Audio = append(rc.Audio, us...)
		} else {
			rc.Video = append(rc.Video, us...)
		}
	}
	return rc
}

func tickDiff(a, b uint32) int64 {
	return int64(int32(a - b))
}

// CompareRtspToPublished checks an RTSP player's recovered units against the published units of one incarnation:
// same NAL units (AUD dropped; parameter sets may be re-inserted before key frames) and audio frames, in order, exactly
// once from the player's start, RTP timestamp = published ms at the clock rate within one tick, SDP consistent
// with the published sequence headers.
func CompareRtspToPublished(rc *RtspContent, units []media.Unit, hevc bool, aacSr int, complete bool, sdpSps, sdpPps, sdpVps []byte) (problem string, nVideo, nAudio int) {
	var pv [][]byte
	var pvu []*media.Unit
	var pa []*media.Unit
	for i := range units {
		u := &units[i]
		switch u.Kind {
		case media.KVideo:
			if len(u.Msg.Payload) <= 5 {
				continue // lal ignores video messages without a NAL payload
			}
			for _, n := range u.Nals {
				if hevc {
					if _, aud, _ := isHevcSkippable(n); aud {
						continue
					}
				} else {
					if _, aud := isAvcParamOrAud(n); aud {
						continue
					}
				}
				pv = append(pv, n)
				pvu = append(pvu, u)
			}
		case media.KAudio:
			if len(u.Msg.Payload) <= 2 {
				continue
			}
			pa = append(pa, u)
		}
	}
	if len(rc.Video) > 0 {
		if rc.VTrack == nil || rc.VTrack.Clock != 90000 {
			return "video RTP arrives but the SDP declares no 90 kHz video track", 0, 0
		}
		// alignment: small units need not be unique, so prefer a start whose timestamp agrees as well
		start := -1
		for pass := 0; pass < 2 && start < 0; pass++ {
			for i := range pv {
				if !bytes.Equal(pv[i], rc.Video[0].Data) {
					continue
				}
				if d := tickDiff(rc.Video[0].Ts, uint32(uint64(pvu[i].Ts)*90)); pass == 0 && (d < -1 || d > 1) {
					continue
				}
				ok := true
				for j := 1; j < 3 && j < len(rc.Video) && i+j < len(pv); j++ {
					ok = ok && bytes.Equal(pv[i+j], rc.Video[j].Data)
				}
				if ok {
					start = i
					break
				}
			}
		}
		if start < 0 {
			return fmt.Sprintf("first video NAL unit received over RTP (%d bytes, %x...) equals no published NAL unit", len(rc.Video[0].Data), head(rc.Video[0].Data, 10)), 0, 0
		}
		j := start
		for n, v := range rc.Video {
			// parameter sets re-inserted before key frames are tolerated
			if j < len(pv) && !bytes.Equal(pv[j], v.Data) {
				isPar := false
				if hevc {
					isPar, _, _ = isHevcSkippable(v.Data)
				} else {
					isPar, _ = isAvcParamOrAud(v.Data)
				}
				if isPar && (bytes.Equal(v.Data, sdpSps) || bytes.Equal(v.Data, sdpPps) || bytes.Equal(v.Data, sdpVps)) {
					continue
				}
			}
			if j >= len(pv) {
				return fmt.Sprintf("RTP carries video NAL unit #%d after its start but only %d were published from there", n, len(pv)-start), 0, 0
			}
			if !bytes.Equal(pv[j], v.Data) {
				return fmt.Sprintf("video NAL unit #%d received over RTP (%d bytes, %x...) differs from published NAL %d of unit %d (ts=%d, %d bytes, %x...): not byte-identical / in order / exactly once",
					n, len(v.Data), head(v.Data, 10), j, pvu[j].Idx, pvu[j].Ts, len(pv[j]), head(pv[j], 10)), 0, 0
			}
			want := uint32(uint64(pvu[j].Ts) * 90)
			if d := tickDiff(v.Ts, want); d < -1 || d > 1 {
				return fmt.Sprintf("video NAL of unit %d (ts=%d ms): RTP timestamp %d is not 90*ts = %d (off by %d ticks)", pvu[j].Idx, pvu[j].Ts, v.Ts, want, d), 0, 0
			}
			j++
		}
		nVideo = j - start
		if complete && j != len(pv) {
			return fmt.Sprintf("RTP video ends after NAL %d (unit %d) but %d more NAL units were published", j-1, pvu[j-1].Idx, len(pv)-j), 0, 0
		}
	}
	if len(rc.Audio) > 0 {
		if rc.ATrack == nil {
			return "audio RTP arrives but the SDP declares no audio track", 0, 0
		}
		clock := rc.ATrack.Clock
		start := -1
		for pass := 0; pass < 2 && start < 0; pass++ {
			for i, u := range pa {
				if !bytes.Equal(u.Audio, rc.Audio[0].Data) {
					continue
				}
				if d := tickDiff(rc.Audio[0].Ts, uint32(uint64(u.Ts)*uint64(clock)/1000)); pass == 0 && (d < -1 || d > 1) {
					continue
				}
				start = i
				break
			}
		}
		if start < 0 {
			return fmt.Sprintf("first audio frame received over RTP (%d bytes) equals no published frame", len(rc.Audio[0].Data)), 0, 0
		}
		for n, a := range rc.Audio {
			if start+n >= len(pa) {
				return fmt.Sprintf("RTP carries %d audio frames after its start but only %d were published from there", len(rc.Audio), len(pa)-start), 0, 0
			}
			u := pa[start+n]
			if !bytes.Equal(u.Audio, a.Data) {
				return fmt.Sprintf("audio frame #%d received over RTP (%d bytes) differs from published unit %d (ts=%d, %d bytes)", n, len(a.Data), u.Idx, u.Ts, len(u.Audio)), 0, 0
			}
			want := uint32(uint64(u.Ts) * uint64(clock) / 1000)
			if d := tickDiff(a.Ts, want); d < -1 || d > 1 {
				return fmt.Sprintf("audio unit %d (ts=%d ms): RTP timestamp %d is not ts*%d/1000 = %d (off by %d ticks)", u.Idx, u.Ts, a.Ts, clock, want, d), 0, 0
			}
		}
		nAudio = len(rc.Audio)
		if complete && start+len(rc.Audio) != len(pa) {
			return fmt.Sprintf("RTP audio ends after unit %d but %d more audio frames were published", pa[start+len(rc.Audio)-1].Idx, len(pa)-start-len(rc.Audio)), 0, 0
		}
	}
	return "", nVideo, nAudio
}

// checkSdpAgainstPublished: the SDP lal serves must describe the published codecs and carry their configuration.
func checkSdpAgainstPublished(k *sim.Kernel, name string, rc *RtspContent, hevc bool, aacSr int, sps, pps, vps []byte, hasAudio bool) {
	if t := rc.VTrack; t != nil {
		want := "H264"
		if hevc {
			want = "H265"
		}
		if t.Enc != want {
			k.Violate("C06.sdp", "%s: SDP declares %s for a %s stream", name, t.Enc, want)
		}
		b64 := base64.StdEncoding.EncodeToString
		if !hevc {
			if v := t.Fmtp["sprop-parameter-sets"]; v != b64(sps)+","+b64(pps) {
				k.Violate("C06.sdp", "%s: sprop-parameter-sets=%s is not the published SPS,PPS (%s,%s)", name, v, b64(sps), b64(pps))
			}
		} else {
			if t.Fmtp["sprop-vps"] != b64(vps) || t.Fmtp["sprop-sps"] != b64(sps) || t.Fmtp["sprop-pps"] != b64(pps) {
				k.Violate("C06.sdp", "%s: sprop-vps/sps/pps are not the published parameter sets", name)
			}
		}
	}
	if t := rc.ATrack; t != nil && hasAudio && t.Enc == "MPEG4-GENERIC" {
		asc := media.AacSeqHeaderPayload(aacSr, 2)[2:]
		if t.Fmtp["config"] != hex.EncodeToString(asc) && t.Fmtp["config"] != fmt.Sprintf("%X", asc) {
			k.Violate("C06.sdp", "%s: AAC config=%s is not the published AudioSpecificConfig %x", name, t.Fmtp["config"], asc)
		}
		if t.Clock != aacRates[aacSr] {
			k.Violate("C06.sdp", "%s: AAC clock rate %d for sampling-rate index %d (%d Hz)", name, t.Clock, aacSr, aacRates[aacSr])
		}
	}
}

func base64Std(b []byte) string { return base64.StdEncoding.EncodeToString(b) }

// checkStaleSdp: an RTSP player that sent DESCRIBE after a publisher incarnation had left (its connection closed
// and lal's teardown done) must not be answered with that incarnation's stream description.
func checkStaleSdp(k *sim.Kernel, rr *RelayRun, accepted map[int][]*PubState, rule string) {
	for ci, c := range rr.Cons {
		if c.Rtsp == nil || c.Rtsp.SdpRecv == "" || c.Rtsp.DescribeStep <= 0 {
			continue
		}
		var dead, alive []*PubState
		for _, p := range accepted[c.Plan.Stream] {
			// dead: lal had closed the connection and the connection's goroutine had released its last mutex (the
			// teardown under the group lock was over) before the DESCRIBE was even handed to the network
			if p.Actor.ClosedStep >= 0 && p.Actor.ClosedStep < c.Rtsp.DescribeStep && p.Actor.Conn.Idle2() && p.Actor.Conn.LastUnlockStep() < c.Rtsp.DescribeStep {
				dead = append(dead, p)
			} else {
				alive = append(alive, p)
			}
		}
		carries := func(ps []*PubState, kind media.Kind, b []byte) *PubState {
			for _, p := range ps {
				for i := range p.Units {
					if p.Units[i].Kind == kind && bytes.Contains(p.Units[i].Msg.Payload, b) {
						return p
					}
				}
			}
			return nil
		}
		for _, t := range actors.ParseSdpTracks(c.Rtsp.SdpRecv) {
			var blob []byte
			kind := media.KVideoSeq
			switch t.Enc {
			case "H264":
				if parts := strings.Split(t.Fmtp["sprop-parameter-sets"], ","); len(parts) == 2 {
					blob, _ = base64.StdEncoding.DecodeString(parts[1])
				}
			case "H265":
				blob, _ = base64.StdEncoding.DecodeString(t.Fmtp["sprop-pps"])
			case "MPEG4-GENERIC":
				kind = media.KAudioSeq
				blob, _ = hex.DecodeString(t.Fmtp["config"])
			}
			if len(blob) == 0 {
				continue
			}
			if d := carries(dead, kind, blob); d != nil && carries(alive, kind, blob) == nil {
				k.Violate(rule, "cons%d(%s) sent DESCRIBE after publisher incarnation %d had left, yet the SDP it got describes that publisher's %s parameters (%x)", ci, c.Plan.Proto, d.Plan.Inc, t.Enc, blob)
			}
			k.Probe("c16_rtsp_sdp_checked")
		}
	}
}

package scen

import (
	"encoding/base64"
	"encoding/binary"
	"encoding/json"
	"fmt"
	"net"
	"strings"
	"time"

	"simlal/sim"
	"simlal/sim/actors"
	"simlal/sim/media"
	"simlal/sim/rtpc"
)

// C13: no input on the RTSP, RTP/RTCP, GB28181, WebSocket or HTTP surfaces - and no response of an upstream server
// while lal is the client - terminates lal; malformed input closes that session only.
//
// Like C04 this is seeded, structure-aware mutation (no coverage feedback): every run picks one surface, drives a
// valid exchange up to a seeded point and then sends mutated requests / packets / responses, next to a well-behaved
// RTMP stream. Oracle: the worker process survives (a panic, fatal error or os.Exit is captured by the orchestrator),
// the bystander stream stays byte-exact, and a fresh well-behaved client is still served on the same surface.

type C13Item struct {
	Kind  string `json:"k"`
	S     string `json:"s,omitempty"` // text payload (requests, SDP, JSON)
	N     int    `json:"n,omitempty"`
	Shape int    `json:"shape,omitempty"`
	Seed  uint64 `json:"seed,omitempty"`
	Track int    `json:"tr,omitempty"`
	Rtcp  bool   `json:"rtcp,omitempty"`
}

type C13Plan struct {
	Conf    LalConf         `json:"conf"`
	Sched   sim.SchedParams `json:"sched"`
	Surface string          `json:"surface"` // rtsp_cmd rtsp_pub_media rtsp_sub ws_rtsp gb_udp gb_tcp http api up_rtmp up_rtsp
	Tcp     bool            `json:"tcp"`
	Video   string          `json:"video"`
	Audio   string          `json:"audio"`
	Sdp     string          `json:"sdp,omitempty"` // mutated SDP for ANNOUNCE (empty: a valid one)
	Items   []C13Item       `json:"items"`
	ByUnits int             `json:"by_units"`
	GbStorm int             `json:"gb_storm,omitempty"` // GB28181: rounds of (later packet buffered, earlier packet malformed) before the items
	V       int             `json:"v,omitempty"`        // generator version of the hostile-shape tables (replays of older plans keep their shapes)
}

// c13V is the shape-table version of the plan being run (set at the start of each run).
var c13V int

var c13Surfaces = []string{"rtsp_cmd", "rtsp_cmd", "rtsp_pub_media", "rtsp_pub_media", "rtsp_pub_media", "rtsp_sub", "ws_rtsp", "gb_udp", "gb_udp", "gb_tcp", "http", "api", "up_rtmp", "up_rtsp"}

// ---- mutated pieces ------------------------------------------------------------------------------------------------------------

func c13ValidSdp(video, audio string, aacIdx int) string {
	p := C07Plan{Video: video, Audio: audio, AacSrIdx: aacIdx, SdpParams: true, MaxPayload: 1200}
	return buildC07(&p).sdp()
}

// c13MutSdp mutates one aspect of a valid SDP.
func c13MutSdp(r *sim.Rng, sdp string) string {
	lines := strings.Split(strings.TrimSuffix(sdp, "\r\n"), "\r\n")
	pick := func(prefix string) int {
		var idx []int
		for i, l := range lines {
			if strings.HasPrefix(l, prefix) {
				idx = append(idx, i)
			}
		}
		if len(idx) == 0 {
			return -1
		}
		return idx[r.Intn(len(idx))]
	}
	sel := r.Intn(20)
	if sel >= 16 {
		sel = 0 // clock rates are used as divisors in several places: weight them
	}
	if c13V >= 2 && r.Bool(0.12) {
		// a media section with a static payload type and no rtpmap (codecs a server may know by number only), in place of
		// or next to the existing sections
		kind := []string{"audio", "audio", "video"}[r.Intn(3)]
		pt := []int{0, 3, 4, 5, 8, 9, 10, 11, 14, 15, 18, 25, 26, 31, 32, 33, 34, 35, 72, 95, 127}[r.Intn(21)]
		sec := []string{fmt.Sprintf("m=%s 0 RTP/AVP %d", kind, pt), "a=control:streamid=7"}
		if r.Bool(0.5) {
			// replace every section of that kind
			var kept []string
			skip := false
			for _, l := range lines {
				if strings.HasPrefix(l, "m=") {
					skip = strings.HasPrefix(l, "m="+kind)
				}
				if !skip {
					kept = append(kept, l)
				}
			}
			lines = kept
		}
		lines = append(lines, sec...)
		return strings.Join(lines, "\r\n") + "\r\n"
	}
	switch sel {
	case 0: // clock rates
		if i := pick("a=rtpmap"); i >= 0 {
			f := strings.Split(lines[i], "/")
			if len(f) >= 2 {
				f[1] = []string{"0", "0", "0", "1", "999", "1000", "-1", "-90000", "99999999999999999999", "x", ""}[r.Intn(11)]
				lines[i] = strings.Join(f, "/")
			}
		}
	case 1: // encoding names
		if i := pick("a=rtpmap"); i >= 0 {
			lines[i] = strings.NewReplacer("H264", []string{"H263", "h264", "", "VP8"}[r.Intn(4)], "H265", "H266", "MPEG4-GENERIC", []string{"mpeg4-generic", "MP4A-LATM", "L16"}[r.Intn(3)]).Replace(lines[i])
		}
	case 2: // drop a line
		i := r.Intn(len(lines))
		lines = append(lines[:i], lines[i+1:]...)
	case 3: // rtpmap forms
		if i := pick("a=rtpmap"); i >= 0 {
			lines[i] = []string{"a=rtpmap", "a=rtpmap:", "a=rtpmap:96", "a=rtpmap:96 ", "a=rtpmap:x H264/90000", "a=rtpmap:96 H264", "a=rtpmap:96 /", "a=rtpmap:96 H264/90000/2/3/4", "a=rtpmap:-1 H264/90000"}[r.Intn(9)]
		}
	case 4: // fmtp forms
		if i := pick("a=fmtp"); i >= 0 {
			lines[i] = []string{"a=fmtp", "a=fmtp:", "a=fmtp:96", "a=fmtp:96 ", "a=fmtp:96 ;", "a=fmtp:96 a", "a=fmtp:96 a=", "a=fmtp:x a=b", "a=fmtp:96 sprop-parameter-sets=", "a=fmtp:96 sprop-parameter-sets=,", "a=fmtp:96 sprop-parameter-sets=Z0I=",
				"a=fmtp:96 sprop-parameter-sets=!!!,###", "a=fmtp:96 sprop-parameter-sets=Zw==,aA==", "a=fmtp:97 config=", "a=fmtp:97 config=1", "a=fmtp:97 config=zz", "a=fmtp:97 config=12", "a=fmtp:97 config=ffff", "a=fmtp:97 config=0000",
				"a=fmtp:97 mode=AAC-hbr;sizelength=0;indexlength=0;config=1210", "a=fmtp:98 sprop-vps=;sprop-sps=;sprop-pps=", "a=fmtp:98 sprop-vps=QA==;sprop-sps=Qg==;sprop-pps=RA=="}[r.Intn(22)]
		}
	case 5: // control forms
		if i := pick("a=control"); i >= 0 {
			lines[i] = []string{"a=control", "a=control:", "a=control:*", "a=control:rtsp://", "a=control:/", "a=control:streamid=0", "a=control:" + strings.Repeat("x", 3000)}[r.Intn(7)]
		}
	case 6: // m= forms
		if i := pick("m="); i >= 0 {
			lines[i] = []string{"m=", "m=video", "m=video 0", "m=video 0 RTP/AVP", "m=video 0 RTP/AVP x", "m=audio 0 RTP/AVP 0", "m=audio 0 RTP/AVP 8", "m=audio 0 RTP/AVP 14", "m=application 0 RTP/AVP 107", "m=video 0 RTP/AVP 96 97 98", "m=text 0 RTP/AVP 96"}[r.Intn(11)]
		}
	case 7: // duplicate a media section
		lines = append(lines, lines[len(lines)/2:]...)
	case 8: // bare LF
		return strings.Join(lines, "\n") + "\n"
	case 9: // truncated
		s := strings.Join(lines, "\r\n") + "\r\n"
		return s[:r.Intn(len(s)+1)]
	case 10: // garbage
		return string(randBytes(r.U64(), r.Intn(300)))
	case 11:
		return ""
	case 12: // swapped payload types between sections
		for i := range lines {
			lines[i] = strings.NewReplacer(":96 ", ":97 ", ":97 ", ":96 ", ":98 ", ":97 ").Replace(lines[i])
		}
	case 13: // folded fmtp (a continuation line)
		if i := pick("a=fmtp"); i >= 0 && len(lines[i]) > 20 {
			lines[i] = lines[i][:20] + "\r\n" + lines[i][20:]
		}
	case 14: // very long line
		lines = append(lines, "a=x:"+strings.Repeat("A", 70000))
	case 15: // no audio/video distinction
		for i := range lines {
			lines[i] = strings.Replace(lines[i], "m=audio", "m=video", 1)
		}
	}
	return strings.Join(lines, "\r\n") + "\r\n"
}

// c13RtpHostile builds a hostile RTP packet for a payload kind.
func c13RtpHostile(r *sim.Rng, pt uint8, kind string, seq uint16) []byte {
	hdr := func(b0, b1 byte) []byte {
		h := make([]byte, 12)
		h[0], h[1] = b0, b1
		binary.BigEndian.PutUint16(h[2:], seq)
		binary.BigEndian.PutUint32(h[4:], uint32(r.Intn(1<<31)))
		binary.BigEndian.PutUint32(h[8:], 0x11110000)
		return h
	}
	ok := hdr(0x80, pt)
	if c13V >= 2 && r.Bool(0.15) {
		// complete CSRC list and / or extension, then padding counts around every boundary of the packet
		cc := r.Intn(4)
		b0 := byte(0xa0) | byte(cc)
		ext := r.Bool(0.5)
		if ext {
			b0 |= 0x10
		}
		p := hdr(b0, pt)
		p = append(p, randBytes(r.U64(), 4*cc)...)
		if ext {
			words := r.Intn(3)
			p = append(p, 0xbe, 0xde, 0, byte(words))
			p = append(p, randBytes(r.U64(), 4*words)...)
		}
		off := len(p)
		p = append(p, randBytes(r.U64(), 1+r.Intn(8))...)
		rest := len(p) - off
		p[len(p)-1] = []byte{byte(rest - 1), byte(rest), byte(rest + 1), byte(len(p) - 12 - 1), byte(len(p) - 12), 1, byte(rest + 3)}[r.Intn(7)]
		return p
	}
	switch r.Intn(14) {
	case 0:
		return randBytes(r.U64(), r.Intn(16))
	case 1: // header only / one body byte
		return append(ok, randBytes(r.U64(), r.Intn(3))...)
	case 2: // padding bit with impossible counts
		p := append(hdr(0xa0, pt), randBytes(r.U64(), r.Intn(6))...)
		if len(p) > 12 {
			p[len(p)-1] = []byte{0, 1, 200, 255, byte(len(p) - 12), byte(len(p) - 11)}[r.Intn(6)]
		}
		return p
	case 3: // extension bit with lengths beyond the packet
		p := append(hdr(0x90, pt), 0xbe, 0xde)
		p = append(p, []byte{0, 0, 0, 1, 0xff, 0xff, 0, 200}[2*r.Intn(4):][:2]...)
		return append(p, randBytes(r.U64(), r.Intn(8))...)
	case 4: // CSRC count without the list
		return append(hdr(0x80|byte(1+r.Intn(15)), pt), randBytes(r.U64(), r.Intn(10))...)
	case 5: // versions
		return append(hdr([]byte{0x00, 0x40, 0xc0}[r.Intn(3)], pt), 0x65, 1, 2)
	case 6: // marker / pt variants
		return append(hdr(0x80, []byte{pt | 0x80, 0, 8, 14, 127, 72, 73}[r.Intn(7)]), 0x65, 1, 2, 3)
	}
	switch kind {
	case "avc":
		b := [][]byte{{0x7c}, {0x7c, 0x85}, {0x7c, 0x05}, {0x7c, 0x45}, {0x7c, 0xc5, 1}, {0x78}, {0x78, 0}, {0x78, 0, 0}, {0x78, 0, 0, 0, 0}, {0x78, 0xff, 0xff, 1}, {0x78, 0, 1}, {0x78, 0, 2, 0x67},
			{0x79, 1, 2}, {0x7a, 1}, {0x7b}, {0x7d, 0x85, 1}, {0x7e}, {0x7f}, {0x00}, {0x1d, 1}, {0x67}, {0x68}, {0x65}, {0x09}}[r.Intn(24)]
		return append(ok, b...)
	case "hevc":
		b := [][]byte{{0x62}, {0x62, 1}, {0x62, 1, 0x93}, {0x62, 1, 0x13}, {0x62, 1, 0x53}, {0x60}, {0x60, 1}, {0x60, 1, 0}, {0x60, 1, 0, 0}, {0x60, 1, 0xff, 0xff, 1}, {0x60, 1, 0, 1, 0x40},
			{0x64, 1, 1}, {0x7e, 1}, {0x40}, {0x40, 1}, {0x26}, {0x26, 1}, {0x42, 1}, {0x44, 1}}[r.Intn(19)]
		return append(ok, b...)
	case "aac":
		b := [][]byte{{}, {0}, {0, 0x10}, {0, 0x10, 0}, {0, 0x10, 0xff, 0xf8}, {0xff, 0xff}, {0xff, 0xff, 1, 2, 3}, {0, 0x20, 0, 8, 0, 8, 1}, {0, 0x20, 0, 8, 0, 8, 0xaa, 0xbb}, {0, 0x30, 0, 8, 0, 8, 0, 8, 1, 2, 3}, {0, 0x20, 0xff, 0xf8, 0xff, 0xf8}, {0, 0x08, 0xff}, {0, 0, 1, 2}, {0x7f, 0xf8, 0, 0}}[r.Intn(14)]
		return append(ok, b...)
	}
	return append(ok, randBytes(r.U64(), r.Intn(40))...)
}

func c13RtcpHostile(r *sim.Rng) []byte {
	sr := rtpc.SenderReport(0x11110000, 1, 2, 3, 4, 5)
	switch r.Intn(10) {
	case 0:
		return nil
	case 1:
		return []byte{0x80}
	case 2:
		return []byte{0x80, 200}
	case 3:
		return sr[:r.Intn(len(sr))]
	case 4:
		b := append([]byte{}, sr...)
		b[1] = []byte{0, 199, 201, 202, 203, 204, 205, 255}[r.Intn(8)]
		return b
	case 5:
		b := append([]byte{}, sr...)
		binary.BigEndian.PutUint16(b[2:], []uint16{0, 1, 0xffff, 100}[r.Intn(4)])
		return b
	case 6:
		return append(append([]byte{}, sr...), sr...)
	case 7:
		b := append([]byte{}, sr...)
		b[0] = []byte{0x00, 0x40, 0xc0, 0xbf, 0xa0}[r.Intn(5)]
		return b
	default:
		return randBytes(r.U64(), r.Intn(40))
	}
}

// c13PsHostile builds a GB28181 RTP packet whose PS payload is structurally mutated.
func c13PsHostile(r *sim.Rng, seq uint16, ts uint32) []byte {
	pack := []byte{0, 0, 1, 0xba, 0x44, 0, 4, 0, 4, 1, 0, 0, 3, 0xf8 | byte([]int{0, 1, 2, 7}[r.Intn(4)])}
	pack = append(pack, make([]byte, int(pack[13]&7))...)
	sys := []byte{0, 0, 1, 0xbb, 0, 12, 0x80, 0, 1, 4, 0xe1, 0x7f, 0xe0, 0xe0, 0x80, 0xc0, 0xc0, 0x08}
	psm := []byte{0, 0, 1, 0xbc, 0, 18, 0xe1, 0xff, 0, 0, 0, 8, 0x1b, 0xe0, 0, 0, 0x0f, 0xc0, 0, 0, 0, 0, 0, 0}
	pes := func(id byte, body []byte, withPts bool) []byte {
		h := []byte{0, 0, 1, id, 0, 0, 0x80, 0, 0}
		if withPts {
			h[7], h[8] = 0x80, 5
			h = append(h, 0x21, 0, 1, 0, 1)
		}
		n := len(h) - 6 + len(body)
		h[4], h[5] = byte(n>>8), byte(n)
		return append(h, body...)
	}
	nal := append([]byte{0, 0, 0, 1, 0x65}, randBytes(r.U64(), r.Intn(40))...)
	var ps []byte
	switch r.Intn(16) {
	case 0:
		ps = randBytes(r.U64(), r.Intn(60))
	case 1: // every prefix of a valid pack
		full := append(append(append(append([]byte{}, pack...), sys...), psm...), pes(0xe0, nal, true)...)
		ps = full[:r.Intn(len(full)+1)]
	case 2: // start codes only
		ps = [][]byte{{0, 0, 1}, {0, 0, 1, 0xba}, {0, 0, 1, 0xbb}, {0, 0, 1, 0xbc}, {0, 0, 1, 0xe0}, {0, 0, 1, 0xc0}, {0, 0, 1, 0xbd}, {0, 0, 1, 0xba, 0x44}, {0, 0, 1, 0xbb, 0}, {0, 0, 1, 0xe0, 0}}[r.Intn(10)]
	case 3: // lengths
		p := pes(0xe0, nal, true)
		binary.BigEndian.PutUint16(p[4:], []uint16{0, 1, 2, 3, 0xffff, uint16(len(p))}[r.Intn(6)])
		ps = append(append([]byte{}, pack...), p...)
	case 4: // header data length beyond the packet
		p := pes([]byte{0xe0, 0xc0}[r.Intn(2)], nal, true)
		p[8] = []byte{0, 1, 4, 6, 200, 255}[r.Intn(6)]
		ps = append(append([]byte{}, pack...), p...)
	case 5: // system header / psm lengths
		s2 := append([]byte{}, sys...)
		binary.BigEndian.PutUint16(s2[4:], []uint16{0, 1, 0xffff, 200}[r.Intn(4)])
		m2 := append([]byte{}, psm...)
		binary.BigEndian.PutUint16(m2[4:], []uint16{0, 1, 3, 0xffff, 200}[r.Intn(5)])
		ps = append(append(append([]byte{}, pack...), s2...), m2...)
	case 6: // psm with inconsistent inner lengths
		m2 := append([]byte{}, psm...)
		binary.BigEndian.PutUint16(m2[8:], []uint16{1, 0xffff, 100}[r.Intn(3)])
		binary.BigEndian.PutUint16(m2[10:], []uint16{0, 1, 0xffff, 100}[r.Intn(4)])
		ps = append(append([]byte{}, pack...), m2...)
	case 7: // PES without a pack header, audio first
		ps = pes(0xc0, randBytes(r.U64(), r.Intn(30)), r.Bool(0.5))
	case 8: // PES flags without the fields
		p := pes(0xe0, nal, false)
		p[7] = []byte{0x80, 0xc0, 0x40, 0xff}[r.Intn(4)]
		ps = append(append([]byte{}, pack...), p...)
	case 9: // pack header stuffing beyond the end
		ps = append([]byte{}, pack[:14]...)
	case 10: // unknown stream types in a valid psm
		m2 := append([]byte{}, psm...)
		m2[12] = []byte{0, 0x24, 0x90, 0x91, 0x0f, 0xff}[r.Intn(6)]
		m2[16] = []byte{0, 0x1b, 0x24, 0x90, 0xff}[r.Intn(5)]
		ps = append(append(append(append([]byte{}, pack...), sys...), m2...), pes(0xe0, nal, true)...)
	case 11: // valid
		ps = append(append(append(append([]byte{}, pack...), sys...), psm...), pes(0xe0, nal, true)...)
	case 12: // valid audio with odd payloads
		ps = append(append(append([]byte{}, pack...), psm...), pes(0xc0, [][]byte{{}, {0xff}, {0xff, 0xf1}, {0xff, 0xf1, 0x50, 0x80, 0, 0x1f, 0xfc}, {0xff, 0xf1, 0x50, 0x80, 0xff, 0xff, 0xfc, 1, 2}}[r.Intn(5)], true)...)
	case 13: // NAL boundaries
		ps = append(append([]byte{}, pack...), pes(0xe0, [][]byte{{}, {0}, {0, 0, 1}, {0, 0, 0, 1}, {0, 0, 0, 1, 0x67}, {0, 0, 1, 0x09}, {0, 0, 0, 1, 0x40, 1}, {0, 0, 0, 1, 0, 0, 0, 1}}[r.Intn(8)], true)...)
	case 14: // private streams / padding
		ps = append(append([]byte{}, pack...), pes([]byte{0xbd, 0xbe, 0xbf, 0xf0, 0xff, 0x00}[r.Intn(6)], randBytes(r.U64(), r.Intn(20)), r.Bool(0.5))...)
	case 15: // many packs in one packet
		for i := 0; i < 3; i++ {
			ps = append(append(ps, pack...), pes(0xe0, nal, true)...)
		}
	}
	if c13V >= 2 && r.Bool(0.15) {
		return c13RtpHostile(r, 96, "raw", seq)
	}
	p := rtpc.Packet{PT: 96, Seq: seq, Ts: ts, Ssrc: 0x33330000, Payload: ps, Marker: r.Bool(0.5)}
	b := p.Marshal()
	if r.Bool(0.08) {
		b = b[:r.Intn(len(b)+1)] // torn RTP header
	}
	return b
}

func c13RtspRequests(r *sim.Rng, url string, n int) []C13Item {
	var out []C13Item
	cseq := 100
	for i := 0; i < n; i++ {
		cseq++
		m := []string{"OPTIONS", "ANNOUNCE", "DESCRIBE", "SETUP", "RECORD", "PLAY", "TEARDOWN", "PAUSE", "GET_PARAMETER", "SET_PARAMETER", "FOO", ""}[r.Intn(12)]
		u := []string{url, url, url, "*", "", "rtsp://", "rtsp://[::1", "rtsp://127.0.0.1:5544", "rtsp://127.0.0.1:5544/", "rtsp://127.0.0.1:5544/live", "/live/x", url + "/streamid=0", url + "/streamid=9", "rtsp://127.0.0.1:5544/live/%zz", "http://a/b", url + "?" + strings.Repeat("a=b&", 2000)}[r.Intn(16)]
		hdr := fmt.Sprintf("CSeq: %d\r\n", cseq)
		switch r.Intn(14) {
		case 0:
			hdr = ""
		case 1:
			hdr += "Transport: " + []string{"", "RTP/AVP/TCP;interleaved=", "RTP/AVP/TCP;interleaved=a-b", "RTP/AVP/TCP;interleaved=0", "RTP/AVP/TCP;interleaved=999999-1000000", "RTP/AVP/TCP;interleaved=-1-0", "RTP/AVP;unicast;client_port=",
				"RTP/AVP;unicast;client_port=70000-70001", "RTP/AVP;unicast;client_port=5-", "RTP/AVP;unicast;client_port=1-2-3", "RTP/AVP;unicast;client_port=0-0", "RTP/AVP/TCP;unicast;interleaved=0-1", "RTP/AVP;unicast;client_port=20100-20101", "x",
				// the key with nothing behind it, the key as a prefix of another word, separators only
				"RTP/AVP;unicast;client_port", "RTP/AVP/TCP;unicast;interleaved", "RTP/AVP;unicast;client_ports=1-2", "RTP/AVP;client_port;interleaved", ";;;", "RTP/AVP;unicast;client_port=;", "RTP/AVP/TCP;interleaved=0-1;client_port"}[r.Intn(21)] + "\r\n"
		case 2:
			hdr += "Content-Length: " + []string{"-1", "0", "5", "99999999", "abc", "18446744073709551616", ""}[r.Intn(7)] + "\r\n"
		case 3:
			hdr += "Authorization: " + []string{"", "Basic", "Basic !!!", "Basic " + base64.StdEncoding.EncodeToString([]byte("nocolon")), "Basic " + base64.StdEncoding.EncodeToString([]byte("a:b:c")), "Digest", "Digest username=", `Digest username="x`, `Digest username="x", realm="y", nonce="z", uri="u", response="r"`, "Bearer x"}[r.Intn(10)] + "\r\n"
		case 4:
			hdr += "no colon here\r\n"
		case 5:
			hdr += "X-Long: " + strings.Repeat("y", 100000) + "\r\n"
		case 6:
			hdr += "Session: \r\nRange: npt=\r\nAccept: \r\n"
		}
		body := ""
		if m == "ANNOUNCE" || r.Bool(0.1) {
			body = c13MutSdp(r, c13ValidSdp("avc", "aac", 4))
			if !strings.Contains(hdr, "Content-Length") {
				hdr += fmt.Sprintf("Content-Type: application/sdp\r\nContent-Length: %d\r\n", len(body))
			}
		}
		ver := []string{"RTSP/1.0", "RTSP/1.0", "RTSP/1.0", "RTSP/2.0", "HTTP/1.1", "", "RTSP"}[r.Intn(7)]
		line := m + " " + u + " " + ver
		if r.Bool(0.05) {
			line = []string{"", " ", "OPTIONS", "OPTIONS *", strings.Repeat("A", 9000)}[r.Intn(5)]
		}
		out = append(out, C13Item{Kind: "req", S: line + "\r\n" + hdr + "\r\n" + body})
	}
	return out
}

func c13ApiBodies(r *sim.Rng, n int) []C13Item {
	paths := []string{"/api/ctrl/start_relay_pull", "/api/ctrl/stop_relay_pull", "/api/ctrl/kick_session", "/api/ctrl/start_rtp_pub", "/api/ctrl/add_ip_blacklist", "/api/stat/group", "/api/stat/all_group", "/api/stat/lal_info", "/api/", "/lal.html", "/api/ctrl/unknown"}
	var out []C13Item
	for i := 0; i < n; i++ {
		p := paths[r.Intn(len(paths))]
		body := []string{"", "{", "}", "[]", "null", "0", `""`, "{}", `{"stream_name":null}`, `{"stream_name":1}`, `{"stream_name":["a"]}`, `{"stream_name":{"a":1}}`, `{"stream_name":"x","url":"rtmp://"}`, `{"stream_name":"x","url":"://"}`,
			`{"stream_name":"x","url":"rtsp://10.9.9.8"}`, `{"stream_name":"x","url":"rtmp://10.9.9.9/a?x?y"}`, `{"stream_name":"x","url":"rtmp://10.9.9.9?x?y"}`, `{"stream_name":"x","url":"rtmp://10.9.9.9/live/a?b=c?d=e/f"}`,
			`{"stream_name":"x","url":"rtmp://10.9.9.9:99999/live/x"}`, `{"stream_name":"x","url":"rtmp://[::1/live/x"}`, `{"stream_name":"x","url":"rtsp://10.9.9.8:554/%zz"}`, `{"stream_name":"x","url":"rtsp://u:p@10.9.9.8:554"}`, `{"stream_name":"x","url":"http://10.9.9.9/live/x.flv"}`, `{"url":"rtmp://10.9.9.9:1935/live/x","pull_timeout_ms":-1,"pull_retry_num":-5,"auto_stop_pull_after_no_out_ms":-9}`, `{"url":"rtmp://10.9.9.9:1935/live/x","pull_timeout_ms":1e99}`,
			`{"stream_name":"x","session_id":""}`, `{"stream_name":"","session_id":"RTMPPUBSUB1"}`, `{"stream_name":"by","session_id":"nosuch"}`, `{"stream_name":"x","port":-1,"timeout_ms":-1,"is_tcp_flag":7}`, `{"stream_name":"x","port":99999}`, `{"stream_name":"x","port":"a"}`,
			`{"ip":"","duration_sec":-1}`, `{"ip":"not an ip","duration_sec":99999999999}`, `{"ip":1}`, `{"stream_name":"` + strings.Repeat("s", 70000) + `"}`, strings.Repeat("[", 20000), `{"a":` + strings.Repeat("{\"a\":", 5000) + "1" + strings.Repeat("}", 5000) + "}", "\xff\xfe\x00"}[r.Intn(38)]
		q := []string{"", "?stream_name=", "?stream_name=by", "?stream_name=%zz", "?x=" + strings.Repeat("q", 9000), "?stream_name=a&stream_name=b"}[r.Intn(6)]
		out = append(out, C13Item{Kind: "api", S: p + q, N: r.Intn(3), Shape: len(body), Seed: r.U64()})
		out[len(out)-1].S += "\n" + body
	}
	return out
}

func c13HttpRequests(r *sim.Rng, n int) []C13Item {
	var out []C13Item
	for i := 0; i < n; i++ {
		path := []string{"/live/by.flv", "/live/by.ts", "/live/.flv", "/live/", "/live", "/", "/live/by", "/live/by.m3u8", "/hls/by.m3u8", "/hls/by/playlist.m3u8", "/hls/by-0.ts", "/hls/.ts", "/hls/", "/live/by.flv?" + strings.Repeat("a", 9000), "/live/%zz.flv", "/live/a/b/c.flv", "//live//by.flv", "/live/by.flv#x", "*", "/live/by.mp4"}[r.Intn(20)]
		method := []string{"GET", "GET", "GET", "POST", "HEAD", "OPTIONS", "PUT", "DELETE", "CONNECT", "X"}[r.Intn(10)]
		hdr := "Host: sim\r\n"
		switch r.Intn(10) {
		case 0:
			hdr += "Connection: Upgrade\r\nUpgrade: websocket\r\nSec-WebSocket-Version: 13\r\nSec-WebSocket-Key: " + []string{"", "x", "dGhlIHNhbXBsZSBub25jZQ==", strings.Repeat("k", 5000)}[r.Intn(4)] + "\r\n"
		case 1:
			hdr += "Connection: Upgrade\r\nUpgrade: websocket\r\n"
		case 2:
			hdr += "Range: bytes=" + []string{"0-", "-1", "5-1", "a-b", "0-99999999999999999999"}[r.Intn(5)] + "\r\n"
		case 3:
			hdr += "Content-Length: " + []string{"-1", "5", "abc"}[r.Intn(3)] + "\r\n"
		case 4:
			hdr += "Transfer-Encoding: chunked\r\n"
		case 5:
			hdr = ""
		}
		out = append(out, C13Item{Kind: "http", S: method + " " + path + " HTTP/1.1\r\n" + hdr + "\r\n" + []string{"", "", "5\r\nhello\r\n0\r\n\r\n", "zz\r\n", "hello"}[r.Intn(5)]})
	}
	return out
}

// c13UpstreamRtsp: what the stub RTSP origin answers to lal's n-th request.
func c13UpstreamRtsp(r *sim.Rng, n int) []C13Item {
	sdp := c13ValidSdp("avc", "aac", 4)
	var out []C13Item
	for i := 0; i < n; i++ {
		status := []string{"RTSP/1.0 200 OK", "RTSP/1.0 200 OK", "RTSP/1.0 200 OK", "RTSP/1.0 401 Unauthorized", "RTSP/1.0 404 Not Found", "RTSP/1.0 302 Moved", "RTSP/1.0 999", "RTSP/1.0", "HTTP/1.1 200 OK", "", "RTSP/1.0 abc OK", "RTSP/1.0 200"}[r.Intn(12)]
		hdr := "CSeq: %CSEQ%\r\n"
		switch r.Intn(12) {
		case 0:
			hdr = ""
		case 1:
			hdr = "CSeq: 9999\r\n"
		case 2:
			hdr += "WWW-Authenticate: " + []string{"", "Basic", `Basic realm="x"`, "Digest", `Digest realm="x"`, `Digest realm="x", nonce="`, `Digest nonce="n", realm="r", algorithm="SHA-256"`, "Foo bar"}[r.Intn(8)] + "\r\n"
		case 3:
			hdr += "Transport: " + []string{"", "RTP/AVP/TCP;interleaved=0-1", "RTP/AVP/TCP;interleaved=", "RTP/AVP;unicast;server_port=", "RTP/AVP;unicast;server_port=a-b", "RTP/AVP;unicast;client_port=1-2;server_port=70000-70001", "RTP/AVP;unicast;server_port=6000-6001", "x", "RTP/AVP;unicast;client_port=1-2;server_port", "RTP/AVP/TCP;interleaved", "RTP/AVP;unicast;server_port;client_port"}[r.Intn(11)] + "\r\n"
		case 4:
			hdr += "Session: " + []string{"", ";timeout=", "abc;timeout=x", strings.Repeat("s", 5000)}[r.Intn(4)] + "\r\n"
		case 5:
			hdr += "Content-Base: " + []string{"", "rtsp://", "%zz"}[r.Intn(3)] + "\r\n"
		case 6:
			hdr += "Public: \r\n"
		}
		body := ""
		if r.Bool(0.5) {
			body = sdp
			if r.Bool(0.6) {
				body = c13MutSdp(r, sdp)
			}
			cl := len(body)
			if r.Bool(0.15) {
				cl = []int{0, 1, len(body) + 50, -1, 99999999}[r.Intn(5)]
			}
			hdr += fmt.Sprintf("Content-Type: application/sdp\r\nContent-Length: %d\r\n", cl)
		}
		out = append(out, C13Item{Kind: "resp", S: status + "\r\n" + hdr + "\r\n" + body, N: r.Intn(4), Seed: r.U64()})
	}
	return out
}

func genC13Plan(r *sim.Rng, tier string) C13Plan {
	var p C13Plan
	p.Conf = LalConf{ApiEnable: true, FlvEnable: true, TsEnable: true, HlsEnable: true, HlsFragMs: 500, HlsFragNum: 3, RtspEnable: true, WsRtspEnable: true, RtmpGop: 1, FlvGop: 1, NoHook: r.Bool(0.5)}
	p.Sched = GenSched(r.Fork("sched"), tier == "thorough")
	p.Sched.MaxSteps = 200000
	p.Surface = c13Surfaces[r.Intn(len(c13Surfaces))]
	p.V = 2
	if (p.Surface == "gb_udp" || p.Surface == "gb_tcp") && r.Bool(0.25) {
		p.GbStorm = []int{40, 1030, 1100, 2100}[r.Intn(4)]
	}
	p.Tcp = r.Bool(0.5)
	p.Video = []string{"avc", "avc", "hevc", ""}[r.Intn(4)]
	p.Audio = []string{"aac", "aac", "pcma", "opus", ""}[r.Intn(5)]
	if p.Video == "" && p.Audio == "" {
		p.Video = "avc"
	}
	p.ByUnits = 10 + r.Intn(10)
	n := 4 + r.Intn(16)
	if tier == "thorough" {
		n = 8 + r.Intn(60)
	}
	url := fmt.Sprintf("rtsp://127.0.0.1:%d/live/h13", PortRtsp)
	switch p.Surface {
	case "rtsp_cmd":
		p.Items = c13RtspRequests(r, url, n)
		if r.Bool(0.5) {
			// interleaved frames on a connection that has no session
			for i := 0; i < 3; i++ {
				p.Items = append(p.Items, C13Item{Kind: "ileave", Shape: r.Intn(256), N: []int{0, 1, 4, 11, 12, 13, 100, 65535}[r.Intn(8)], Seed: r.U64()})
			}
		}
	case "rtsp_pub_media":
		if r.Bool(0.35) {
			p.Sdp = c13MutSdp(r, c13ValidSdp(p.Video, p.Audio, r.Intn(len(aacRates))))
		}
		for i := 0; i < n*2; i++ {
			p.Items = append(p.Items, C13Item{Kind: "rtp", Track: r.Intn(2), Rtcp: r.Bool(0.25), Seed: r.U64()})
		}
		if r.Bool(0.3) {
			p.Items = append(p.Items, c13RtspRequests(r, url, 3)...)
		}
	case "rtsp_sub":
		p.Items = append(p.Items, C13Item{Kind: "play"})
		for i := 0; i < n; i++ {
			if r.Bool(0.5) {
				p.Items = append(p.Items, C13Item{Kind: "rtp", Track: r.Intn(2), Rtcp: r.Bool(0.6), Seed: r.U64()})
			} else {
				p.Items = append(p.Items, c13RtspRequests(r, url, 1)...)
			}
		}
	case "ws_rtsp":
		p.Items = append(p.Items, C13Item{Kind: "wshs", Shape: r.Intn(6)})
		for i := 0; i < n; i++ {
			it := c13RtspRequests(r, url, 1)[0]
			it.Kind = "wsframe"
			it.Shape = r.Intn(64)
			p.Items = append(p.Items, it)
		}
	case "gb_udp", "gb_tcp":
		for i := 0; i < n*3; i++ {
			p.Items = append(p.Items, C13Item{Kind: "ps", Seed: r.U64(), N: r.Intn(4)})
		}
	case "http":
		p.Items = c13HttpRequests(r, n)
	case "api":
		p.Items = c13ApiBodies(r, n)
	case "up_rtmp":
		for i := 0; i < 1+r.Intn(3); i++ {
			p.Items = append(p.Items, C13Item{Kind: "origin", Shape: []int{0, 1, 2, 3, 4, 4, 4, 5, 6, 7}[r.Intn(10)], N: r.Intn(400), Seed: r.U64()})
		}
	case "up_rtsp":
		p.Items = c13UpstreamRtsp(r, 2+r.Intn(6))
		for i := 0; i < r.Intn(8); i++ {
			p.Items = append(p.Items, C13Item{Kind: "rtp", Track: r.Intn(2), Rtcp: r.Bool(0.3), Seed: r.U64()})
		}
	}
	return p
}

// ---- execution -------------------------------------------------------------------------------------------------------------------

type rawPeer struct {
	conn   *sim.Conn
	in     []byte
	closed bool
}

func (p *rawPeer) OnData(c *sim.Conn, b []byte) { p.in = append(p.in, b...) }
func (p *rawPeer) OnClose(c *sim.Conn)          { p.closed = true }

func c13Kind(p *C13Plan, track int) string {
	if track == 0 && p.Video != "" {
		return p.Video
	}
	switch p.Audio {
	case "aac":
		return "aac"
	case "":
		return p.Video
	}
	return "raw"
}

// rtspOriginStub answers lal's RTSP client with scripted (mutated) responses.
type rtspOriginStub struct {
	k      *sim.Kernel
	conn   *sim.Conn
	buf    []byte
	script []C13Item
	next   int
	closed bool
}

func (s *rtspOriginStub) OnData(c *sim.Conn, b []byte) {
	s.buf = append(s.buf, b...)
	for {
		if len(s.buf) > 0 && s.buf[0] == '$' {
			if len(s.buf) < 4 {
				return
			}
			n := 4 + int(s.buf[2])<<8 + int(s.buf[3])
			if len(s.buf) < n {
				return
			}
			s.buf = s.buf[n:]
			continue
		}
		i := strings.Index(string(s.buf), "\r\n\r\n")
		if i < 0 {
			return
		}
		head := string(s.buf[:i])
		s.buf = s.buf[i+4:]
		cseq := "0"
		for _, l := range strings.Split(head, "\r\n") {
			if strings.HasPrefix(strings.ToLower(l), "cseq:") {
				cseq = strings.TrimSpace(l[5:])
			}
		}
		if s.next >= len(s.script) {
			c.CloseByPeer()
			return
		}
		it := s.script[s.next]
		s.next++
		if it.Kind != "resp" {
			continue
		}
		c.Send([]byte(strings.ReplaceAll(it.S, "%CSEQ%", cseq)))
		if it.N == 3 {
			c.CloseByPeer()
			return
		}
	}
}
func (s *rtspOriginStub) OnClose(c *sim.Conn) { s.closed = true }

func runC13(k *sim.Kernel, p C13Plan) {
	c13V = p.V
	// upstream stubs must exist before the server dials
	var origin *rtspOriginStub
	k.RegisterStub("10.9.9.8:554", func(c *sim.Conn) (sim.ConnHandler, time.Duration) {
		origin = &rtspOriginStub{k: k, conn: c, script: p.Items}
		return origin, 0
	})
	nOrigin := 0
	k.RegisterStub(originHostPort, func(c *sim.Conn) (sim.ConnHandler, time.Duration) {
		st := actors.NewRtmpServerStub(k, fmt.Sprintf("origin%d", nOrigin), c)
		var it C13Item
		if nOrigin < len(p.Items) {
			it = p.Items[nOrigin]
		}
		nOrigin++
		r := sim.NewRng(it.Seed)
		switch it.Shape {
		case 0:
			st.Garbage = randBytes(it.Seed, it.N)
		case 1: // a _result with mutated AMF
			st.Garbage = rawChunk(WireItem{Csid: 3, Type: 20, Fmt: 0, Len: -1}, genPayload(WireItem{Gen: []string{"amf_nest_obj", "amf_bigcount", "amf_shortlong", "rand"}[r.Intn(4)], N: 5000, Seed: it.Seed}))
		case 2:
			st.DieAfterConnect = true
		case 3:
			st.DieAfterHandshake = true
		case 4: // valid handshake, then media the client never asked for / odd control messages
			ctl := rawChunk(WireItem{Csid: 2, Type: r.Intn(8), Fmt: 0, Len: -1}, randBytes(it.Seed, r.Intn(8)))
			if c13V >= 2 && r.Bool(0.6) {
				// user control messages: every event type with 0..8 bytes behind it
				sh := r.Intn(64)
				if r.Bool(0.5) {
					sh = []int{6, 7, 3, 0}[r.Intn(4)] // ping request / response, set buffer length, stream begin: the ones with fields
				}
				ctl = rawChunk(WireItem{Csid: 2, Type: 4, Fmt: 0, Len: -1}, genPayload(WireItem{Gen: "userctl", Shape: sh, N: r.Intn(9), Seed: it.Seed}))
			}
			st.Garbage = append(ctl, rawChunk(WireItem{Csid: 6, Type: 9, Fmt: 0, Msid: 1, Len: -1}, genPayload(WireItem{Gen: "video_hdr", Shape: r.Intn(64), N: r.Intn(9), Seed: it.Seed}))...)
		case 5: // onStatus / _result with odd argument types
			st.Garbage = rawChunk(WireItem{Csid: 3, Type: 20, Fmt: 0, Len: -1}, cmdPayload(WireItem{Name: []string{"_result", "onStatus", "_error", "onBWDone"}[r.Intn(4)], Shape: r.Intn(10), N: r.Intn(5)}))
		case 6: // chunk headers
			st.Garbage = rawChunk(WireItem{Kind: "badchunk", Fmt: r.Intn(4), Csid: []int{0, 1, 2, 64, 65535}[r.Intn(5)], Shape: r.Intn(3), Type: 20, Len: []int{-1, 0, 0xFFFFFF, 70000}[r.Intn(4)], Ts: 0xFFFFFF}, randBytes(it.Seed, it.N))
		default:
			st.Mute = true
		}
		return st, 0
	})
	w := StartWorld(k, p.Conf)
	// bystander
	by := &PubState{Plan: PubPlan{Stream: 0, Inc: 0, VideoCodec: media.CodecAVC, AudioCodec: media.SoundAAC, AacSr: 4}}
	by.Units = admUnits(0, p.ByUnits, true)
	by.Actor = actors.NewRtmpClient(k, "bypub", actors.RolePublish, "live", "by")
	by.Actor.Connect(PortRtmp, 1)
	w.Observe(by.Actor.Observe)
	k.Settle()
	cons := &ConsState{Plan: ConsPlan{Stream: 0, Proto: "rtmp"}, Joined: true}
	cons.Rtmp = actors.NewRtmpClient(k, "bysub", actors.RolePlay, "live", "by")
	cons.Rtmp.Connect(PortRtmp, 2)
	w.Observe(cons.Rtmp.Observe)
	k.Settle()
	sent := 0
	feed := func(n int) {
		for i := 0; i < n && sent < len(by.Units); i++ {
			by.Actor.Publish(by.Units[sent].Msg)
			sent++
		}
		k.Settle()
	}
	feed(6)
	r := sim.NewRng(sim.Mix(k.Seed, 0xc13))
	url := fmt.Sprintf("rtsp://127.0.0.1:%d/live/h13", PortRtsp)
	seq := uint16(r.Intn(65536))

	switch p.Surface {
	case "rtsp_cmd":
		peer := &rawPeer{}
		peer.conn = k.Connect(PortRtsp, "hostile", 30, peer)
		for _, it := range p.Items {
			if peer.conn == nil || peer.closed {
				break
			}
			switch it.Kind {
			case "req":
				peer.conn.Send([]byte(it.S))
			case "ileave":
				b := randBytes(it.Seed, it.N)
				peer.conn.Send(append([]byte{'$', byte(it.Shape), byte(len(b) >> 8), byte(len(b))}, b...))
			}
			k.Settle()
			feed(1)
		}
		if peer.conn != nil && !peer.closed {
			peer.conn.CloseByPeer()
		}
	case "rtsp_pub_media":
		pub := actors.NewRtspClient(k, "hostile", "pub", url, p.Tcp)
		valid := c13ValidSdp(p.Video, p.Audio, 4)
		pub.Sdp = valid
		if p.Sdp != "" {
			pub.Sdp = p.Sdp
		}
		pub.Tracks = actors.ParseSdpTracks(pub.Sdp)
		if len(pub.Tracks) == 0 {
			pub.Tracks = actors.ParseSdpTracks(valid)
		}
		pub.ClientPort = 20000
		pub.Connect(PortRtsp, 30)
		k.Settle()
		for _, it := range p.Items {
			if pub.Closed {
				break
			}
			switch it.Kind {
			case "rtp":
				if !pub.Ready && !pub.AnnounceOK {
					continue
				}
				tr := it.Track % len(pub.Tracks)
				rr := sim.NewRng(it.Seed)
				seq++
				var b []byte
				if it.Rtcp {
					b = c13RtcpHostile(rr)
				} else {
					b = c13RtpHostile(rr, uint8(pub.Tracks[tr].PT), c13Kind(&p, tr), seq)
				}
				if p.Tcp || pub.Tracks[tr].ServerRtp > 0 {
					pub.SendRaw(tr, it.Rtcp, b)
				}
			case "req":
				pub.Conn.Send([]byte(it.S))
			}
			k.Settle()
			feed(1)
		}
		pub.Leave(k.Seed%2 == 0)
	case "rtsp_sub":
		sub := actors.NewRtspClient(k, "hostile", "play", fmt.Sprintf("rtsp://127.0.0.1:%d/live/by", PortRtsp), p.Tcp)
		sub.ClientPort = 20000
		sub.Connect(PortRtsp, 30)
		k.Settle()
		feed(2)
		for _, it := range p.Items {
			if sub.Closed {
				break
			}
			switch it.Kind {
			case "rtp":
				if len(sub.Tracks) == 0 || (!p.Tcp && sub.Tracks[it.Track%len(sub.Tracks)].ServerRtp == 0) {
					continue
				}
				rr := sim.NewRng(it.Seed)
				seq++
				tr := it.Track % len(sub.Tracks)
				if it.Rtcp {
					sub.SendRaw(tr, true, c13RtcpHostile(rr))
				} else {
					sub.SendRaw(tr, false, c13RtpHostile(rr, uint8(sub.Tracks[tr].PT), "avc", seq))
				}
			case "req":
				sub.Conn.Send([]byte(it.S))
			}
			k.Settle()
			feed(1)
		}
		sub.Leave(k.Seed%2 == 0)
	case "ws_rtsp":
		peer := &rawPeer{}
		peer.conn = k.Connect(PortWsRtsp, "hostile", 30, peer)
		for _, it := range p.Items {
			if peer.conn == nil || peer.closed {
				break
			}
			switch it.Kind {
			case "wshs":
				hs := []string{
					"GET /live/by HTTP/1.1\r\nHost: sim\r\nConnection: Upgrade\r\nUpgrade: websocket\r\nSec-WebSocket-Version: 13\r\nSec-WebSocket-Key: dGhlIHNhbXBsZSBub25jZQ==\r\nSec-WebSocket-Protocol: rtsp\r\n\r\n",
					"GET /live/by HTTP/1.1\r\nHost: sim\r\nConnection: Upgrade\r\nUpgrade: websocket\r\n\r\n",
					"GET / HTTP/1.1\r\n\r\n",
					"POST /live/by HTTP/1.1\r\nHost: sim\r\nConnection: Upgrade\r\nUpgrade: websocket\r\nSec-WebSocket-Key: x\r\nContent-Length: 5\r\n\r\nhello",
					"OPTIONS rtsp://127.0.0.1/live/by RTSP/1.0\r\nCSeq: 1\r\n\r\n",
					"GET /live/by HTTP/1.1\r\nHost: sim\r\nConnection: Upgrade\r\nUpgrade: websocket\r\nSec-WebSocket-Version: 13\r\nSec-WebSocket-Key: " + strings.Repeat("k", 9000) + "\r\n\r\n",
				}[it.Shape%6]
				peer.conn.Send([]byte(hs))
			case "wsframe":
				pl := []byte(it.S)
				var f []byte
				b0 := []byte{0x82, 0x81, 0x02, 0x88, 0x89, 0x8a, 0x80, 0xf2}[it.Shape%8]
				mask := byte(0x80)
				if it.Shape&8 != 0 {
					mask = 0
				}
				switch (it.Shape >> 4) & 3 {
				case 0:
					switch {
					case len(pl) < 126:
						f = []byte{b0, mask | byte(len(pl))}
					case len(pl) < 65536:
						f = []byte{b0, mask | 126, byte(len(pl) >> 8), byte(len(pl))}
					default:
						f = []byte{b0, mask | 127, 0, 0, 0, 0, byte(len(pl) >> 24), byte(len(pl) >> 16), byte(len(pl) >> 8), byte(len(pl))}
					}
				case 1: // declared 64-bit length far beyond the data
					f = []byte{b0, mask | 127, 0x7f, 0xff, 0xff, 0xff, 0xff, 0xff, 0xff, 0xff}
				case 2: // declared 16-bit length beyond the data
					f = []byte{b0, mask | 126, 0xff, 0xff}
				case 3: // negative 64-bit length
					f = []byte{b0, mask | 127, 0xff, 0xff, 0xff, 0xff, 0xff, 0xff, 0xff, 0xff}
				}
				if mask != 0 {
					f = append(f, 1, 2, 3, 4)
					m := []byte{1, 2, 3, 4}
					pl = append([]byte{}, pl...)
					for i := range pl {
						pl[i] ^= m[i%4]
					}
				}
				peer.conn.Send(append(f, pl...))
			}
			k.Settle()
			feed(1)
		}
		if peer.conn != nil && !peer.closed {
			peer.conn.CloseByPeer()
		}
	case "gb_udp", "gb_tcp":
		tcp := p.Surface == "gb_tcp"
		body, _ := json.Marshal(map[string]interface{}{"stream_name": "gb13", "port": 0, "timeout_ms": 60000, "is_tcp_flag": map[bool]int{true: 1, false: 0}[tcp]})
		res := w.Api("api-rtppub", "/api/ctrl/start_rtp_pub", body)
		port := 0
		if d, ok := res.JSON["data"].(map[string]interface{}); ok {
			if f, ok := d["port"].(float64); ok {
				port = int(f)
			}
		}
		if !res.Done || res.ErrorCode() != 0 || port == 0 {
			k.Violate("C13.gb-start", "start_rtp_pub with a valid request failed: %d %s", res.Status, res.Body)
		}
		var peer *rawPeer
		if tcp {
			peer = &rawPeer{}
			peer.conn = k.Connect(port, "hostile", 30, peer)
			k.Settle()
		}
		ts := uint32(r.Intn(1 << 30))
		// many rounds of "a later packet waits in the reorder list while the packet before it fails to parse": each
		// round resets the unpacker with something still buffered
		for i := 0; i < p.GbStorm; i++ {
			if tcp && (peer.conn == nil || peer.closed) {
				break
			}
			seq += 2
			ts += 3600
			later := rtpc.Packet{PT: 96, Seq: seq, Ts: ts, Ssrc: 0x33330000, Payload: []byte{0, 0, 1, 0xba, 0x44, 0, 4, 0, 4, 1, 0, 0, 3, 0xf8}}
			bad := rtpc.Packet{PT: 96, Seq: seq - 1, Ts: ts, Ssrc: 0x33330000, Payload: []byte{0, 0, 1, byte(0x10 + i%7), 1, 2, 3, 4}}
			for _, q := range []rtpc.Packet{later, bad} {
				b := q.Marshal()
				if tcp {
					peer.conn.Send(append([]byte{byte(len(b) >> 8), byte(len(b))}, b...))
				} else {
					k.UDPSend(net.UDPAddr{IP: net.IPv4(10, 0, 30, 1), Port: 40000}, port, b)
				}
			}
			if i%16 == 15 {
				k.Settle()
			}
		}
		if p.GbStorm > 0 {
			k.Settle()
			feed(1)
			k.Probe("c13_gb_reset_storm")
		}
		for _, it := range p.Items {
			seq++
			ts += 3600
			b := c13PsHostile(sim.NewRng(it.Seed), seq, ts)
			if tcp {
				if peer.conn == nil || peer.closed {
					break
				}
				l := len(b)
				if it.N == 3 {
					l = []int{0, 1, 65535, len(b) + 7}[int(it.Seed%4)] // framing length that lies
				}
				peer.conn.Send(append([]byte{byte(l >> 8), byte(l)}, b...))
			} else {
				k.UDPSend(net.UDPAddr{IP: net.IPv4(10, 0, 30, 1), Port: 40000}, port, b)
			}
			k.Settle()
			feed(1)
		}
		if tcp && peer.conn != nil && !peer.closed {
			peer.conn.CloseByPeer()
		}
	case "http":
		for i, it := range p.Items {
			peer := &rawPeer{}
			peer.conn = k.Connect(PortHttp, fmt.Sprintf("hostile%d", i), 30+i, peer)
			if peer.conn == nil {
				k.Violate("C13.listener-gone", "the HTTP listener no longer accepts connections")
			}
			peer.conn.Send([]byte(it.S))
			k.Settle()
			feed(1)
			if !peer.closed {
				if i%2 == 0 {
					peer.conn.CloseByPeer()
				} else {
					peer.conn.ResetByPeer()
				}
			}
			k.Settle()
		}
	case "api":
		for i, it := range p.Items {
			parts := strings.SplitN(it.S, "\n", 2)
			body := []byte(parts[1])
			method := []string{"POST", "GET", "PUT"}[it.N%3]
			req := fmt.Sprintf("%s %s HTTP/1.1\r\nHost: sim\r\nContent-Type: application/json\r\nContent-Length: %d\r\nConnection: close\r\n\r\n%s", method, parts[0], len(body), body)
			peer := &rawPeer{}
			peer.conn = k.Connect(PortApi, fmt.Sprintf("hostile%d", i), 30+i, peer)
			if peer.conn == nil {
				k.Violate("C13.listener-gone", "the HTTP-API listener no longer accepts connections")
			}
			peer.conn.Send([]byte(req))
			k.Settle()
			feed(1)
			if !peer.closed {
				peer.conn.CloseByPeer()
			}
			k.Settle()
		}
	case "up_rtmp":
		body, _ := json.Marshal(map[string]interface{}{"url": "rtmp://" + originHostPort + "/live/up13", "stream_name": "up13", "pull_timeout_ms": 3000, "pull_retry_num": len(p.Items), "auto_stop_pull_after_no_out_ms": -1})
		w.Api("api-pull", "/api/ctrl/start_relay_pull", body)
		for i := 0; i < len(p.Items)+2; i++ {
			k.Advance(1100 * time.Millisecond)
			feed(1)
		}
		w.Api("api-stoppull", "/api/ctrl/stop_relay_pull?stream_name=up13", nil)
	case "up_rtsp":
		body, _ := json.Marshal(map[string]interface{}{"url": "rtsp://10.9.9.8:554/live/up13", "stream_name": "up13", "pull_timeout_ms": 3000, "pull_retry_num": 1, "auto_stop_pull_after_no_out_ms": -1, "rtsp_mode": map[bool]int{true: 0, false: 1}[p.Tcp]})
		w.Api("api-pull", "/api/ctrl/start_relay_pull", body)
		k.Settle()
		for _, it := range p.Items {
			if it.Kind != "rtp" || origin == nil || origin.closed {
				continue
			}
			rr := sim.NewRng(it.Seed)
			seq++
			b := c13RtpHostile(rr, 96, "avc", seq)
			if it.Rtcp {
				b = c13RtcpHostile(rr)
			}
			ch := byte(2*(it.Track%2) + map[bool]int{true: 1, false: 0}[it.Rtcp])
			origin.conn.Send(append([]byte{'$', ch, byte(len(b) >> 8), byte(len(b))}, b...))
			k.Settle()
			feed(1)
		}
		k.Advance(3500 * time.Millisecond)
		w.Api("api-stoppull", "/api/ctrl/stop_relay_pull?stream_name=up13", nil)
		if origin != nil && !origin.closed {
			origin.conn.CloseByPeer()
		}
	}
	k.Settle()
	feed(len(by.Units))
	k.Advance(1500 * time.Millisecond)
	// ---- oracles
	if by.Actor.Closed {
		k.Violate("C13.bystander-disconnected", "the well-behaved publisher on another stream was disconnected (surface %s)", p.Surface)
	}
	if cons.Rtmp.Closed {
		k.Violate("C13.bystander-disconnected", "the well-behaved player on another stream was disconnected (surface %s)", p.Surface)
	}
	rr := &RelayRun{W: w, Pubs: []*PubState{by}, Cons: []*ConsState{cons}}
	rr.Plan.Conf = p.Conf
	JudgeConsumer(k, "C13", "bystander", cons, rr.Forwardable(0), p.Conf)
	// a fresh well-behaved client is still served on the surface
	switch p.Surface {
	case "rtsp_cmd", "rtsp_pub_media", "rtsp_sub", "up_rtsp", "gb_udp", "gb_tcp":
		probe := actors.NewRtspClient(k, "probe", "play", fmt.Sprintf("rtsp://127.0.0.1:%d/live/by", PortRtsp), true)
		probe.DescribeOnly = true
		if !probe.Connect(PortRtsp, 90) {
			k.Violate("C13.listener-gone", "the RTSP listener no longer accepts connections")
		}
		k.Settle()
		if !probe.DescribeOK {
			k.Violate("C13.listener-stuck", "a fresh RTSP DESCRIBE of the live bystander stream is not served after the hostile peer: statuses %v, %s, closed=%v", probe.Status, probe.Failed, probe.Closed)
		}
	}
	res := w.Api("api-probe", "/api/stat/group?stream_name=by", nil)
	if !res.Done || res.ErrorCode() != 0 {
		k.Violate("C13.listener-stuck", "the HTTP API does not report the bystander stream after the hostile peer: %d %s", res.Status, res.Body)
	}
	fl := actors.NewHttpClient(k, "probe-flv", "flv", "/live/by.flv")
	if !fl.Connect(PortHttp, 91) {
		k.Violate("C13.listener-gone", "the HTTP listener no longer accepts connections")
	}
	k.Settle()
	if !fl.Resp.HeaderDone || fl.Resp.Status != 200 {
		k.Violate("C13.listener-stuck", "a fresh HTTP-FLV request for the live bystander stream is not served after the hostile peer (status %d)", fl.Resp.Status)
	}
	k.Probe("nontrivial")
	k.Probe("c13_" + p.Surface)
}

func init() {
	Register(&Check{
		ID:    "C13",
		Gen:   func(r *sim.Rng, tier string) json.RawMessage { return mustJSON(genC13Plan(r, tier)) },
		Sched: func(plan json.RawMessage) sim.SchedParams { var p C13Plan; fromJSON(plan, &p); return p.Sched },
		Run: func(k *sim.Kernel, plan json.RawMessage) {
			var p C13Plan
			fromJSON(plan, &p)
			runC13(k, p)
		},
		Shrink: func(plan json.RawMessage) []json.RawMessage {
			var p C13Plan
			fromJSON(plan, &p)
			var out []json.RawMessage
			n := len(p.Items)
			for chunk := n / 2; chunk >= 1; chunk /= 2 {
				for at := 0; at+chunk <= n; at += chunk {
					q := p
					q.Items = append(append([]C13Item{}, p.Items[:at]...), p.Items[at+chunk:]...)
					out = append(out, mustJSON(q))
				}
				if chunk == 1 {
					break
				}
			}
			if p.Sdp != "" {
				q := p
				q.Sdp = ""
				out = append(out, mustJSON(q))
			}
			if p.Sched.Chaos > 0 || p.Sched.Preempt > 0 {
				q := p
				q.Sched.Chaos, q.Sched.Preempt = 0, 0
				out = append(out, mustJSON(q))
			}
			return out
		},
		Shape: func(plan json.RawMessage) string {
			var p C13Plan
			fromJSON(plan, &p)
			kinds := ""
			for i, it := range p.Items {
				if i < 12 {
					kinds += it.Kind[:1]
				}
			}
			return fmt.Sprintf("%s/%v/%s/%s/%s/%d", p.Surface, p.Tcp, p.Video, p.Audio, kinds, len(p.Sdp)%97)
		},
		Brief: func(plan json.RawMessage) interface{} {
			var p C13Plan
			fromJSON(plan, &p)
			return map[string]interface{}{"surface": p.Surface, "tcp": p.Tcp, "video": p.Video, "audio": p.Audio, "items": len(p.Items), "mutated_sdp": p.Sdp != ""}
		},
	})
}

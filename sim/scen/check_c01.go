package scen

import (
	"encoding/json"
	"fmt"

	"simlal/sim"
)

func relayProfileC01(tier string) RelayProfile {
	p := RelayProfile{
		Protos:         []string{"rtmp", "rtmp", "flv", "wsflv"},
		MaxUnits:       80,
		MaxCons:        4,
		Republish:      0.2,
		HeaderChange:   0.1,
		TsWeird:        0.3,
		NalKinds:       0.1,
		TinyVideo:      0.03,
		BigUnits:       0.15,
		ZeroLen:        0.03,
		ShapeAudioOnly: 0.15,
		ShapeVideoOnly: 0.2,
		LeaveProb:      0.3,
		SettleProb:     [2]float64{0.1, 1.0},
	}
	if tier == "thorough" {
		p.MaxUnits = 300
		p.MaxCons = 8
		p.Thorough = true
		p.BigUnits = 0.3
	}
	return p
}

func relayShrink(plan json.RawMessage) []json.RawMessage {
	var pl RelayPlan
	fromJSON(plan, &pl)
	var out []json.RawMessage
	emit := func(q RelayPlan) { out = append(out, mustJSON(q)) }
	// drop chunks of ops (halves, quarters, ... singles)
	n := len(pl.Ops)
	for chunk := n / 2; chunk >= 1; chunk /= 2 {
		for at := 0; at+chunk <= n; at += chunk {
			q := pl
			q.Ops = append(append([]RelayOp{}, pl.Ops[:at]...), pl.Ops[at+chunk:]...)
			emit(q)
		}
		if chunk == 1 {
			break
		}
	}
	// drop a consumer entirely
	for c := range pl.Cons {
		q := pl
		q.Ops = nil
		for _, op := range pl.Ops {
			if (op.Kind == "join" || op.Kind == "leave" || op.Kind == "kick_cons") && op.Cons == c {
				continue
			}
			q.Ops = append(q.Ops, op)
		}
		if len(q.Ops) != len(pl.Ops) {
			emit(q)
		}
	}
	// truncate unit lists
	for pi := range pl.Pubs {
		if len(pl.Pubs[pi].Units) > 4 {
			q := pl
			q.Pubs = append([]PubPlan{}, pl.Pubs...)
			q.Pubs[pi].Units = pl.Pubs[pi].Units[:len(pl.Pubs[pi].Units)/2]
			emit(q)
		}
		// shrink sizes
		big := false
		for _, u := range pl.Pubs[pi].Units {
			if u.Size > 64 {
				big = true
			}
		}
		if big {
			q := pl
			q.Pubs = append([]PubPlan{}, pl.Pubs...)
			q.Pubs[pi].Units = append([]UnitSpec{}, pl.Pubs[pi].Units...)
			for i := range q.Pubs[pi].Units {
				if q.Pubs[pi].Units[i].Size > 64 {
					q.Pubs[pi].Units[i].Size = 40
				}
			}
			emit(q)
		}
		if pl.Pubs[pi].ChunkSize != 0 {
			q := pl
			q.Pubs = append([]PubPlan{}, pl.Pubs...)
			q.Pubs[pi].ChunkSize = 0
			emit(q)
		}
	}
	// simplify scheduling and configuration
	if pl.Sched.Chaos != 0 || pl.Sched.Preempt != 0 || pl.Sched.SegMode != 0 || pl.Sched.PermuteMap {
		q := pl
		q.Sched.Chaos, q.Sched.Preempt, q.Sched.SegMode, q.Sched.PermuteMap = 0, 0, 0, false
		emit(q)
		if pl.Sched.SegMode != 0 {
			q := pl
			q.Sched.SegMode = 0
			emit(q)
		}
		if pl.Sched.Chaos != 0 {
			q := pl
			q.Sched.Chaos = 0
			emit(q)
		}
		if pl.Sched.Preempt != 0 {
			q := pl
			q.Sched.Preempt = 0
			emit(q)
		}
		if pl.Sched.PermuteMap {
			q := pl
			q.Sched.PermuteMap = false
			emit(q)
		}
	}
	c := pl.Conf
	for _, f := range []func(*LalConf) bool{
		func(c *LalConf) bool { x := c.MergeWrite != 0; c.MergeWrite = 0; return x },
		func(c *LalConf) bool { x := c.RtmpGop != 0; c.RtmpGop = 0; return x },
		func(c *LalConf) bool { x := c.FlvGop != 0; c.FlvGop = 0; return x },
		func(c *LalConf) bool { x := c.TsGop != 0; c.TsGop = 0; return x },
		func(c *LalConf) bool { x := c.RtmpGopCap != 0; c.RtmpGopCap = 0; return x },
		func(c *LalConf) bool { x := c.FlvGopCap != 0; c.FlvGopCap = 0; return x },
	} {
		cc := c
		if f(&cc) {
			q := pl
			q.Conf = cc
			emit(q)
		}
	}
	return out
}

func relayShape(plan json.RawMessage) string {
	var pl RelayPlan
	fromJSON(plan, &pl)
	protos := ""
	for _, c := range pl.Cons {
		protos += c.Proto[:1]
	}
	units := 0
	for _, p := range pl.Pubs {
		units += len(p.Units)
	}
	return fmt.Sprintf("p%d/c%s/u%d/g%d.%d.%d/m%d/ops%d/s%d.%d.%v", len(pl.Pubs), protos, units/10, pl.Conf.RtmpGop, pl.Conf.FlvGop, pl.Conf.RtmpGopCap,
		pl.Conf.MergeWrite, len(pl.Ops)/5, pl.Sched.SegMode, pl.Sched.Preempt, pl.Sched.Chaos > 0)
}

func relayBrief(plan json.RawMessage) interface{} {
	var pl RelayPlan
	fromJSON(plan, &pl)
	type pb struct {
		Stream, Units, VCodec, ACodec, ChunkSize int
	}
	var pubs []pb
	for _, p := range pl.Pubs {
		pubs = append(pubs, pb{p.Stream, len(p.Units), p.VideoCodec, p.AudioCodec, p.ChunkSize})
	}
	ops := ""
	for i, op := range pl.Ops {
		if i > 60 {
			ops += " ..."
			break
		}
		switch op.Kind {
		case "send":
			ops += fmt.Sprintf(" send(p%d,%d)", op.Pub, op.N)
		case "join", "leave":
			ops += fmt.Sprintf(" %s(c%d)", op.Kind, op.Cons)
		case "start_pub", "stop_pub":
			ops += fmt.Sprintf(" %s(p%d)", op.Kind, op.Pub)
		case "advance":
			ops += fmt.Sprintf(" advance(%dms)", op.Ms)
		default:
			ops += " " + op.Kind
		}
	}
	return map[string]interface{}{"conf": pl.Conf, "sched": pl.Sched, "pubs": pubs, "cons": pl.Cons, "ops": ops}
}

func relaySched(plan json.RawMessage) sim.SchedParams {
	var pl RelayPlan
	fromJSON(plan, &pl)
	return pl.Sched
}

func init() {
	Register(&Check{
		ID: "C01",
		Gen: func(r *sim.Rng, tier string) json.RawMessage {
			pl := GenRelayPlan(r, relayProfileC01(tier))
			if r.Bool(0.25) {
				pl.Conf.PushAddrs = []string{"10.8.8.1:1935"} // a relay-push target (stub RTMP server) receives every stream
			}
			return mustJSON(pl)
		},
		Sched: relaySched,
		Run: func(k *sim.Kernel, plan json.RawMessage) {
			var pl RelayPlan
			fromJSON(plan, &pl)
			rr := ExecRelay(k, pl)
			CheckC01(k, rr)
		},
		Shrink: relayShrink,
		Shape:  relayShape,
		Brief:  relayBrief,
	})
}

package scen

import (
	"encoding/json"
	"fmt"
	"sort"
	"strings"
	"time"

	"simlal/sim"
	"simlal/sim/actors"
	"simlal/sim/media"
)

// C20: under any interleaving of publishers, subscribers of all protocols, HTTP-API calls, the periodic tick and
// shutdown the server has no data race, never deadlocks and never aborts on a concurrent map access or a send on a
// closed channel.
//
// Two modes (which one a binary runs is decided by how it was built):
//
//   - lock-aware deterministic mode (normal build): the driver grants every mutex acquisition with a high budget of
//     forced preemptions; decides deadlock-freedom and bounded completion: no lock waiter is left ungrantable at
//     quiescence, every API call is answered, Dispose returns, no panic. The kernel also accumulates the lock-order
//     graph (held -> requested, by mutex class) and reports its cycles in the evidence.
//   - parallel-burst mode (-race build): locks and socket writes are not scheduling points; every enabled delivery
//     of a step is applied at once and the goroutines contend on the real mutexes on all cores under the race
//     detector. Only race reports, panics and hangs count (content oracles are off).

type C20Session struct {
	Kind   string `json:"kind"` // rtmp_pub rtsp_pub rtmp_sub flv_sub ts_sub wsflv_sub rtsp_sub rtspudp_sub hls
	Stream int    `json:"stream"`
}

type C20Op struct {
	Kind  string `json:"op"` // start | send | leave | kick | stat | stat_group | pull | stop_pull | tick | settle | blacklist | rtp_pub
	S     int    `json:"s,omitempty"`
	N     int    `json:"n,omitempty"`
	Reset bool   `json:"reset,omitempty"`
}

type C20Plan struct {
	Conf     LalConf         `json:"conf"`
	Sched    sim.SchedParams `json:"sched"`
	Streams  int             `json:"streams"`
	Sessions []C20Session    `json:"sessions"`
	Ops      []C20Op         `json:"ops"`
	Dispose  bool            `json:"dispose"`
	Pull     bool            `json:"pull,omitempty"` // stream number Streams is fed by a relay pull from an origin stub (pull_* ops)
	// DisposeRace > 0: Dispose is descheduled after that many scheduling steps (typically while it holds the server lock)
	// for longer than a tick period, so that the periodic tick queues up behind it and runs right after it
	DisposeRace int `json:"dispose_race,omitempty"`
}

func genC20Plan(r *sim.Rng, tier string) C20Plan {
	var p C20Plan
	p.Conf = LalConf{ApiEnable: true, FlvEnable: true, TsEnable: true, RtspEnable: true, HlsEnable: r.Bool(0.6), HlsFragMs: 300, HlsFragNum: 3, HlsCleanup: r.Intn(3),
		RtmpGop: r.Intn(2), FlvGop: r.Intn(2), TsGop: r.Intn(2), RecordFlv: r.Bool(0.3), RecordTs: r.Bool(0.3), MergeWrite: []int{0, 0, 2000}[r.Intn(3)], NoHook: r.Bool(0.5)}
	if r.Bool(0.4) {
		p.Conf.HlsSubKey = "simsubkey"                               // HLS sub-session mode: players are redirected to a URL with a session_id and poll with it
		p.Conf.HlsSubTimeoutMs = []int{30000, 1500, 2500}[r.Intn(3)] // short: sessions expire (and are reaped by the 1 s sweeper) within a run
	}
	if r.Bool(0.3) {
		p.Conf.QueueSize = []int{4, 8, 16}[r.Intn(3)] // small per-subscriber write queues: "stall" ops fill them quickly
	}
	if sim.RaceEnabled {
		p.Sched = sim.SchedParams{Free: true, MaxSteps: 60000, MaxSimSec: 3600, SegMode: r.Intn(2)}
		if r.Bool(0.3) {
			p.Sched.AlignTick = []float64{0.1, 0.2}[r.Intn(2)] // handlers that wake at the instant the tickers fire
		}
	} else {
		p.Sched = GenSched(r.Fork("sched"), true)
		p.Sched.Preempt = 4 + r.Intn(12)
		p.Sched.Chaos = []float64{0, 0.1, 0.3, 0.6}[r.Intn(4)]
		p.Sched.PermuteMap = true
	}
	p.Streams = 1 + r.Intn(2)
	kinds := []string{"rtmp_pub", "rtmp_pub", "rtsp_pub", "rtmp_sub", "rtmp_sub", "flv_sub", "ts_sub", "wsflv_sub", "rtsp_sub", "rtspudp_sub", "hls"}
	n := 5 + r.Intn(8)
	if tier == "thorough" {
		n = 8 + r.Intn(16)
	}
	for i := 0; i < n; i++ {
		p.Sessions = append(p.Sessions, C20Session{Kind: kinds[r.Intn(len(kinds))], Stream: r.Intn(p.Streams)})
	}
	// every stream gets at least one RTMP publisher
	for s := 0; s < p.Streams; s++ {
		p.Sessions = append(p.Sessions, C20Session{Kind: "rtmp_pub", Stream: s})
	}
	p.Pull = r.Bool(0.5)
	if p.Pull {
		// players of the pulled stream
		for i := 0; i < 1+r.Intn(3); i++ {
			p.Sessions = append(p.Sessions, C20Session{Kind: []string{"rtmp_sub", "flv_sub", "ts_sub", "rtsp_sub"}[r.Intn(4)], Stream: p.Streams})
		}
	}
	nOps := 30 + r.Intn(50)
	if tier == "thorough" {
		nOps = 60 + r.Intn(160)
	}
	for i := 0; i < nOps; i++ {
		s := r.Intn(len(p.Sessions))
		switch r.Intn(20) {
		case 0, 1, 2, 3:
			p.Ops = append(p.Ops, C20Op{Kind: "start", S: s})
		case 4, 5, 6, 7, 8, 9:
			p.Ops = append(p.Ops, C20Op{Kind: "send", S: s, N: 1 + r.Intn(5)})
		case 10:
			p.Ops = append(p.Ops, C20Op{Kind: "leave", S: s, Reset: r.Bool(0.4)})
		case 11:
			p.Ops = append(p.Ops, C20Op{Kind: "kick", S: s})
		case 12:
			p.Ops = append(p.Ops, C20Op{Kind: "stat"})
		case 13:
			p.Ops = append(p.Ops, C20Op{Kind: "stat_group", S: r.Intn(p.Streams)})
		case 14:
			p.Ops = append(p.Ops, C20Op{Kind: "tick", N: 1 + r.Intn(3)})
		case 15:
			p.Ops = append(p.Ops, C20Op{Kind: "blacklist", S: s})
			if r.Bool(0.6) {
				// ... and, once the entry has expired, a burst of HLS requests
				p.Ops = append(p.Ops, C20Op{Kind: "tick", N: 2 + r.Intn(3)}, C20Op{Kind: "hls_burst", S: s})
			}
		case 16:
			p.Ops = append(p.Ops, C20Op{Kind: "rtp_pub", S: r.Intn(p.Streams)})
		case 17:
			if p.Pull {
				p.Ops = append(p.Ops, C20Op{Kind: []string{"pull_start", "pull_start", "origin_send", "origin_send", "pull_kick", "pull_stop", "origin_close"}[r.Intn(7)], N: r.Intn(8)})
			} else {
				p.Ops = append(p.Ops, C20Op{Kind: "send", S: s, N: 1 + r.Intn(3)})
			}
		case 18:
			if r.Bool(0.5) {
				p.Ops = append(p.Ops, C20Op{Kind: "stall", S: s})
			} else {
				p.Ops = append(p.Ops, C20Op{Kind: "send", S: s, N: 1 + r.Intn(5)})
			}
		default:
			if r.Bool(0.4) {
				p.Ops = append(p.Ops, C20Op{Kind: "settle"})
			} else {
				p.Ops = append(p.Ops, C20Op{Kind: "send", S: s, N: 1 + r.Intn(3)})
			}
		}
	}
	// starts first for a good part of the sessions so that the churn has something to work on
	var pre []C20Op
	for i := range p.Sessions {
		if r.Bool(0.6) {
			pre = append(pre, C20Op{Kind: "start", S: i})
		}
	}
	p.Ops = append(pre, p.Ops...)
	p.Dispose = r.Bool(0.4)
	if p.Dispose && r.Bool(0.5) {
		p.DisposeRace = 1 + r.Intn(6)
	}
	return p
}

type c20Sess struct {
	plan    C20Session
	rtmp    *actors.RtmpClient
	http    *actors.HttpClient
	rtsp    *actors.RtspClient
	units   []media.Unit
	queued  int
	src     *c07Src
	sentPk  [2]int
	started bool
	left    bool
	gen     int
}

func (s *c20Sess) conn() *sim.Conn {
	switch {
	case s.rtmp != nil:
		return s.rtmp.Conn
	case s.http != nil:
		return s.http.Conn
	case s.rtsp != nil:
		return s.rtsp.Conn
	}
	return nil
}

func runC20(k *sim.Kernel, p C20Plan) {
	w := StartWorld(k, p.Conf)
	var ss []*c20Sess
	for _, sp := range p.Sessions {
		ss = append(ss, &c20Sess{plan: sp})
	}
	var apis []*ApiCall
	api := func(name, path string, body []byte) {
		apis = append(apis, w.ApiStart(fmt.Sprintf("%s-%d", name, len(apis)), path, body))
	}
	var origins []*actors.RtmpServerStub
	if p.Pull {
		k.RegisterStub("10.9.9.6:1935", func(c *sim.Conn) (sim.ConnHandler, time.Duration) {
			st := actors.NewRtmpServerStub(k, fmt.Sprintf("origin%d", len(origins)), c)
			origins = append(origins, st)
			return st, 0
		})
	}
	pullName := StreamName(p.Streams)
	originUnits := admUnits(77, 40, true)
	originSent := 0
	nBurst := 0
	var bursts []*actors.HttpClient
	nStart := 0
	for _, op := range p.Ops {
		var s *c20Sess
		if op.S < len(ss) {
			s = ss[op.S]
		}
		switch op.Kind {
		case "settle":
			k.Settle()
		case "tick":
			k.Advance(time.Duration(op.N) * 1050 * time.Millisecond)
		case "stat":
			api("stat", "/api/stat/all_group", nil)
		case "stat_group":
			api("statg", "/api/stat/group?stream_name="+StreamName(op.S), nil)
		case "rtp_pub":
			body, _ := json.Marshal(map[string]interface{}{"stream_name": StreamName(op.S), "port": 0, "timeout_ms": 2000})
			api("rtppub", "/api/ctrl/start_rtp_pub", body)
		case "blacklist":
			body, _ := json.Marshal(map[string]interface{}{"ip": fmt.Sprintf("10.0.%d.1", 100+op.S), "duration_sec": 1 + op.S%3})
			api("bl", "/api/ctrl/add_ip_blacklist", body)
		case "hls_burst":
			// several playlist requests at once, from listed and unlisted addresses (the black list is consulted and
			// pruned on every request)
			for j := 0; j < 3; j++ {
				nBurst++
				c := actors.NewHttpClient(k, fmt.Sprintf("hlsb%d", nBurst), "get", "/hls/"+StreamName(op.S%p.Streams)+".m3u8")
				c.Connect(PortHttp, 100+(op.S+j)%len(ss))
				bursts = append(bursts, c)
			}
		case "pull_start":
			body, _ := json.Marshal(map[string]interface{}{"url": "rtmp://10.9.9.6:1935/live/" + pullName, "stream_name": pullName, "pull_timeout_ms": 3000,
				"pull_retry_num": []int{-1, 0, 1}[op.N%3], "auto_stop_pull_after_no_out_ms": []int{-1, -1, 0, 1500}[op.N%4]})
			api("pullstart", "/api/ctrl/start_relay_pull", body)
		case "pull_stop":
			api("pullstop", "/api/ctrl/stop_relay_pull?stream_name="+pullName, nil)
		case "pull_kick":
			id := "RTMPPULL1"
			for _, e := range w.Notify.Snapshot() {
				if e.Kind == "pull_start" {
					id = e.SessionId
				}
			}
			body, _ := json.Marshal(map[string]string{"stream_name": pullName, "session_id": id})
			api("pullkick", "/api/ctrl/kick_session", body)
		case "origin_send":
			if len(origins) > 0 {
				o := origins[len(origins)-1]
				for i := 0; i <= op.N && originSent < len(originUnits) && !o.Closed; i++ {
					o.Serve(originUnits[originSent].Msg)
					originSent++
				}
			}
		case "origin_close":
			if len(origins) > 0 && !origins[len(origins)-1].Closed {
				origins[len(origins)-1].Conn.CloseByPeer()
			}
		case "start":
			if s == nil || (s.started && !s.left) {
				continue
			}
			nStart++
			s.started, s.left = true, false
			s.gen++
			s.rtmp, s.http, s.rtsp = nil, nil, nil
			name := StreamName(s.plan.Stream)
			tag := fmt.Sprintf("s%dg%d", op.S, s.gen)
			ipk := 100 + op.S
			switch s.plan.Kind {
			case "rtmp_pub":
				s.units = admUnits(nStart, 40, true)
				s.queued = 0
				s.rtmp = actors.NewRtmpClient(k, tag, actors.RolePublish, "live", name)
				s.rtmp.Connect(PortRtmp, ipk)
			case "rtsp_pub":
				cp := C07Plan{Video: "avc", Audio: "aac", AacSrIdx: 4, SdpParams: true, MaxPayload: 900, Transport: "tcp"}
				for i := 0; i < 30; i++ {
					cp.Frames = append(cp.Frames, C07Frame{Track: 0, Ts: uint64(i) * 3000, Nals: []C07Nal{{T: map[bool]int{true: 5, false: 1}[i%6 == 0], N: 100 + 37*i}}}, C07Frame{Track: 1, Ts: uint64(i) * 1470, N: 60})
				}
				s.src = buildC07(&cp)
				s.sentPk = [2]int{}
				s.queued = 0
				s.rtsp = actors.NewRtspClient(k, tag, "pub", fmt.Sprintf("rtsp://127.0.0.1:%d/live/%s", PortRtsp, name), op.S%2 == 0)
				s.rtsp.Sdp = s.src.sdp()
				s.rtsp.Tracks = actors.ParseSdpTracks(s.rtsp.Sdp)
				s.rtsp.ClientPort = 20000 + 10*op.S
				s.rtsp.Connect(PortRtsp, ipk)
			case "rtmp_sub":
				s.rtmp = actors.NewRtmpClient(k, tag, actors.RolePlay, "live", name)
				s.rtmp.Connect(PortRtmp, ipk)
			case "flv_sub", "wsflv_sub", "ts_sub":
				mode, ext := "flv", ".flv"
				if s.plan.Kind == "wsflv_sub" {
					mode = "wsflv"
				}
				if s.plan.Kind == "ts_sub" {
					mode, ext = "ts", ".ts"
				}
				s.http = actors.NewHttpClient(k, tag, mode, "/live/"+name+ext)
				s.http.Connect(PortHttp, ipk)
			case "rtsp_sub", "rtspudp_sub":
				s.rtsp = actors.NewRtspClient(k, tag, "play", fmt.Sprintf("rtsp://127.0.0.1:%d/live/%s", PortRtsp, name), s.plan.Kind == "rtsp_sub")
				s.rtsp.ClientPort = 20000 + 10*op.S
				s.rtsp.Connect(PortRtsp, ipk)
			case "hls":
				s.http = actors.NewHttpClient(k, tag, "get", "/hls/"+name+".m3u8")
				s.http.Connect(PortHttp, ipk)
			}
		case "send":
			if s == nil || !s.started || s.left {
				continue
			}
			switch s.plan.Kind {
			case "rtmp_pub":
				for i := 0; i < op.N && s.queued < len(s.units); i++ {
					s.rtmp.Publish(s.units[s.queued].Msg)
					s.queued++
				}
			case "hls":
				// sub-session mode: the player polls with the session_id it was redirected to, on several connections at once
				if s.http == nil || !strings.Contains(s.http.Resp.Headers["location"], "session_id=") {
					continue
				}
				for j := 0; j < 1+op.N%3; j++ {
					nBurst++
					c := actors.NewHttpClient(k, fmt.Sprintf("hlsp%d", nBurst), "get", s.http.Resp.Headers["location"])
					c.Connect(PortHttp, 100+op.S)
					bursts = append(bursts, c)
				}
			case "rtsp_pub":
				if s.rtsp == nil || !s.rtsp.Ready || s.rtsp.Closed {
					continue
				}
				for i := 0; i < op.N && s.queued < len(s.src.plan.Frames); i++ {
					f := s.src.plan.Frames[s.queued]
					for range s.src.fpk[s.queued] {
						s.rtsp.SendRtp(s.src.trackIndex(f.Track), s.src.pkts[f.Track][s.src.order[f.Track][s.sentPk[f.Track]]])
						s.sentPk[f.Track]++
					}
					s.queued++
				}
			}
		case "stall":
			// a player stops reading: lal's writes to it block once the window is used up
			if s == nil || !s.started || s.left || s.conn() == nil || strings.HasSuffix(s.plan.Kind, "_pub") || s.plan.Kind == "hls" {
				continue
			}
			s.conn().SetWindow(0)
			k.Fault("peer_stops_reading")
		case "leave":
			if s == nil || !s.started || s.left {
				continue
			}
			s.left = true
			switch {
			case s.rtmp != nil:
				s.rtmp.Leave(op.Reset)
			case s.http != nil:
				s.http.Leave(op.Reset)
			case s.rtsp != nil:
				s.rtsp.Leave(op.Reset)
			}
		case "kick":
			if s == nil || !s.started || s.left || s.conn() == nil {
				continue
			}
			remote := s.conn().RemoteAddr().String()
			id := ""
			for _, e := range w.Notify.Snapshot() {
				if (e.Kind == "pub_start" || e.Kind == "sub_start") && e.Remote == remote {
					id = e.SessionId
				}
			}
			if id == "" {
				id = "RTMPPUBSUB" + fmt.Sprint(op.S) // a session id that may or may not exist
			}
			body, _ := json.Marshal(map[string]string{"stream_name": StreamName(s.plan.Stream), "session_id": id})
			api("kick", "/api/ctrl/kick_session", body)
		}
	}
	k.Settle()
	k.SetAlignTick(0) // from here on completion is judged: nobody is sent to sleep any more, the sleepers wake within a second
	k.Advance(2500 * time.Millisecond)
	k.Settle()
	if n := k.AlignSleeps(); n > 0 {
		k.Probe("c20_goroutines_aligned_with_the_tick")
	}
	// ---- bounded completion
	for i, a := range apis {
		if a.C == nil {
			k.Violate("C20.listener-gone", "the HTTP-API listener refused connection #%d", i)
		}
		if r := a.Result(); !r.Done {
			k.Violate("C20.api-hangs", "API call %s (%s) got no complete answer; goroutines waiting for locks that cannot be granted: %v", a.C.Name, a.C.Path, k.BlockedLockWaiters())
		}
		a.C.Leave(false)
	}
	k.Settle()
	if bl := k.BlockedLockWaiters(); len(bl) > 0 {
		k.Violate("C20.deadlock", "after every input was processed these goroutines still wait for mutexes that are never released: %v", bl)
	}
	// teardown: everybody leaves, or the server is disposed with the sessions still attached
	if p.Dispose {
		t := k.Go("dispose", func() { w.Srv.Dispose() })
		if p.DisposeRace > 0 && !p.Sched.Free {
			for i := 0; i < p.DisposeRace && k.StepOnce(); i++ {
			}
			k.Deschedule(t, true)
			// until just after the next tick and no further: a second tick queued in the ticker's buffer would leave lal's
			// RunLoop with two ready cases in its select (exit and tick), which the Go runtime picks between at random
			k.Advance(time.Duration(1000-k.NowMs()%1000+50) * time.Millisecond)
			k.Deschedule(t, false)
			k.Fault("dispose_descheduled_over_a_tick")
		}
		k.Settle()
		k.Advance(2 * time.Second)
		k.Settle()
		if !t.Done() {
			k.Violate("C20.dispose-hangs", "ILalServer.Dispose did not return with %d sessions attached: %v", len(ss), k.BlockedLockWaiters())
		}
	} else {
		for _, s := range ss {
			if s.started && !s.left {
				switch {
				case s.rtmp != nil:
					s.rtmp.Leave(false)
				case s.http != nil:
					s.http.Leave(false)
				case s.rtsp != nil:
					s.rtsp.Leave(false)
				}
			}
		}
		k.Settle()
		k.Advance(13 * time.Second)
		k.Settle()
		res := w.Api("api-final", "/api/stat/all_group", nil)
		if !res.Done {
			k.Violate("C20.api-hangs", "the final stat call got no answer: %v", k.BlockedLockWaiters())
		}
	}
	if bl := k.BlockedLockWaiters(); len(bl) > 0 && !p.Dispose {
		k.Violate("C20.deadlock", "after teardown these goroutines still wait for mutexes that are never released: %v", bl)
	}
	// lock-order cycles (by mutex class): evidence, not a verdict
	if cyc := lockOrderCycle(k.LockOrder); cyc != "" {
		k.Probe("c20_lock_order_cycle:" + cyc)
	}
	k.Probe("nontrivial")
	if p.Sched.Free {
		k.Probe("c20_parallel_burst_runs")
	} else {
		k.Probe("c20_lock_aware_runs")
	}
}

// lockOrderCycle finds a cycle in the held->requested graph of mutex classes.
func lockOrderCycle(g map[string]map[string]bool) string {
	var nodes []string
	for n := range g {
		nodes = append(nodes, n)
	}
	sort.Strings(nodes)
	state := map[string]int{}
	var stack []string
	var found string
	var dfs func(n string)
	dfs = func(n string) {
		if found != "" {
			return
		}
		state[n] = 1
		stack = append(stack, n)
		var next []string
		for m := range g[n] {
			next = append(next, m)
		}
		sort.Strings(next)
		for _, m := range next {
			if m == n {
				continue // re-acquiring another instance of the same class (e.g. two groups) is not judged at class level
			}
			if state[m] == 1 {
				i := 0
				for i < len(stack) && stack[i] != m {
					i++
				}
				found = strings.Join(append(append([]string{}, stack[i:]...), m), " -> ")
				return
			}
			if state[m] == 0 {
				dfs(m)
			}
		}
		stack = stack[:len(stack)-1]
		state[n] = 2
	}
	for _, n := range nodes {
		if state[n] == 0 {
			dfs(n)
		}
	}
	return found
}

func init() {
	Register(&Check{
		ID:    "C20",
		Gen:   func(r *sim.Rng, tier string) json.RawMessage { return mustJSON(genC20Plan(r, tier)) },
		Sched: func(plan json.RawMessage) sim.SchedParams { var p C20Plan; fromJSON(plan, &p); return p.Sched },
		Run: func(k *sim.Kernel, plan json.RawMessage) {
			var p C20Plan
			fromJSON(plan, &p)
			runC20(k, p)
		},
		Shrink: func(plan json.RawMessage) []json.RawMessage {
			var p C20Plan
			fromJSON(plan, &p)
			var out []json.RawMessage
			n := len(p.Ops)
			for chunk := n / 2; chunk >= 1; chunk /= 2 {
				for at := 0; at+chunk <= n; at += chunk {
					q := p
					q.Ops = append(append([]C20Op{}, p.Ops[:at]...), p.Ops[at+chunk:]...)
					out = append(out, mustJSON(q))
				}
				if chunk == 1 {
					break
				}
			}
			if p.Dispose {
				q := p
				q.Dispose, q.DisposeRace = false, 0
				out = append(out, mustJSON(q))
			}
			if p.DisposeRace > 0 {
				q := p
				q.DisposeRace = 0
				out = append(out, mustJSON(q))
			}
			if p.Sched.Preempt > 0 {
				q := p
				q.Sched.Preempt /= 2
				out = append(out, mustJSON(q))
			}
			return out
		},
		Shape: func(plan json.RawMessage) string {
			var p C20Plan
			fromJSON(plan, &p)
			ks := ""
			for _, s := range p.Sessions {
				ks += s.Kind[:2] + s.Kind[len(s.Kind)-3:]
			}
			return fmt.Sprintf("free=%v/%d/%s/ops%d/d%v", p.Sched.Free, p.Streams, ks, len(p.Ops)/10, p.Dispose)
		},
		Brief: func(plan json.RawMessage) interface{} {
			var p C20Plan
			fromJSON(plan, &p)
			return map[string]interface{}{"mode": map[bool]string{true: "parallel-burst (-race)", false: "lock-aware"}[p.Sched.Free], "sessions": p.Sessions, "ops": len(p.Ops), "dispose": p.Dispose, "preempt": p.Sched.Preempt}
		},
	})
}

package scen

import (
	"fmt"
	"time"

	"simlal/sim"
	"simlal/sim/actors"
	"simlal/sim/media"
	"simlal/sim/rtmpc"
)

// BuildUnits materialises the unit specs of one incarnation into concrete messages.
func BuildUnits(p PubPlan) []media.Unit {
	var out []media.Unit
	gen := 0
	for i, s := range p.Units {
		u := media.Unit{Idx: i, Inc: p.Inc, Kind: s.Kind, Key: s.Key, Ts: s.Ts, Cts: s.Cts}
		var typ uint8
		var payload []byte
		switch s.Kind {
		case media.KMeta:
			typ = rtmpc.TypeDataAmf0
			payload = media.MetadataPayload(p.Inc, i, s.Sdf, s.Size)
		case media.KVideoSeq:
			typ = rtmpc.TypeVideo
			gen = s.Gen
			if p.VideoCodec == media.CodecHEVC {
				v, sp, pp := media.HevcParamSets(p.Inc, s.Gen)
				payload = media.HevcSeqHeaderPayload(v, sp, pp)
			} else {
				sp, pp := media.AvcParamSets(p.Inc, s.Gen)
				payload = media.AvcSeqHeaderPayload(sp, pp)
			}
		case media.KAudioSeq:
			typ = rtmpc.TypeAudio
			payload = media.AacSeqHeaderPayload(p.AacSr, 2)
		case media.KVideo:
			typ = rtmpc.TypeVideo
			if !s.Empty {
				n := s.Nals
				if n < 1 {
					n = 1
				}
				for j := 0; j < n; j++ {
					sz := s.Size
					if j > 0 {
						sz = 1 + (s.Size+j*37)%300
					}
					var nal []byte
					if p.VideoCodec == media.CodecHEVC {
						t := 1
						if s.Key {
							t = 19
						}
						nal = media.HevcNal(t, 0, 1, p.Inc, i, j, sz)
					} else {
						t := 1
						if s.Key {
							t = 5
						}
						nal = media.AvcNal(t, 3, p.Inc, i, j, sz)
					}
					u.Nals = append(u.Nals, nal)
				}
				codec := p.VideoCodec
				if codec == 0 {
					codec = media.CodecAVC
				}
				payload = media.VideoPayload(codec, s.Key, s.Cts, u.Nals)
			}
		case media.KAudio:
			typ = rtmpc.TypeAudio
			if !s.Empty {
				u.Audio = media.Body(p.Inc, 1, i, maxInt(1, s.Size))
				snd := p.AudioCodec
				if snd == 0 {
					snd = media.SoundAAC
				}
				payload = media.AudioPayload(snd, u.Audio)
			}
		}
		u.HdrGen = gen
		u.Msg = rtmpc.Msg{Type: typ, Ts: s.Ts, Payload: payload, Csid: s.Csid}
		out = append(out, u)
	}
	return out
}

// ---- execution state -------------------------------------------------------------------------------------------------------

type PubState struct {
	Plan     PubPlan
	Units    []media.Unit
	Actor    *actors.RtmpClient
	Queued   int // units handed to the actor
	Started  bool
	Stopped  bool
	StopStep int
}

type ConsState struct {
	Plan   ConsPlan
	Rtmp   *actors.RtmpClient
	Http   *actors.HttpClient
	Joined bool
	Left   bool
	Kicked bool
}

func (c *ConsState) JoinDoneStep() int {
	if c.Rtmp != nil {
		return c.Rtmp.JoinDoneStep
	}
	if c.Http != nil {
		return c.Http.JoinDoneStep
	}
	return -1
}

func (c *ConsState) ClosedByLal() bool {
	if c.Rtmp != nil {
		return c.Rtmp.Closed
	}
	if c.Http != nil {
		return c.Http.Closed
	}
	return false
}

type RelayRun struct {
	W    *World
	Plan RelayPlan
	Pubs []*PubState
	Cons []*ConsState
}

func StreamName(i int) string { return fmt.Sprintf("st%d", i) }

// ExecRelay runs a relay plan to completion (no oracles; callers evaluate afterwards).
func ExecRelay(k *sim.Kernel, pl RelayPlan) *RelayRun {
	rr := &RelayRun{Plan: pl}
	rr.W = StartWorld(k, pl.Conf)
	for _, pp := range pl.Pubs {
		rr.Pubs = append(rr.Pubs, &PubState{Plan: pp, Units: BuildUnits(pp), StopStep: -1})
	}
	for _, cp := range pl.Cons {
		rr.Cons = append(rr.Cons, &ConsState{Plan: cp})
	}
	for _, op := range pl.Ops {
		rr.exec(k, op)
	}
	k.Settle()
	k.Advance(1500 * time.Millisecond)
	k.Settle()
	return rr
}

func (rr *RelayRun) exec(k *sim.Kernel, op RelayOp) {
	switch op.Kind {
	case "settle":
		k.Settle()
	case "advance":
		k.Advance(time.Duration(op.Ms) * time.Millisecond)
	case "start_pub":
		if op.Pub >= len(rr.Pubs) {
			return
		}
		p := rr.Pubs[op.Pub]
		if p.Started {
			return
		}
		p.Started = true
		name := StreamName(p.Plan.Stream)
		if p.Plan.Query != "" {
			name += "?" + p.Plan.Query
		}
		a := actors.NewRtmpClient(k, fmt.Sprintf("pub%d", op.Pub), actors.RolePublish, "live", name)
		a.AnnounceChunkSize = p.Plan.ChunkSize
		p.Actor = a
		a.Connect(PortRtmp, 10+op.Pub)
		rr.W.Observe(a.Observe)
	case "send":
		if op.Pub >= len(rr.Pubs) {
			return
		}
		p := rr.Pubs[op.Pub]
		if !p.Started || p.Stopped {
			return
		}
		for i := 0; i < op.N && p.Queued < len(p.Units); i++ {
			p.Actor.Publish(p.Units[p.Queued].Msg)
			p.Queued++
		}
	case "stop_pub":
		if op.Pub >= len(rr.Pubs) {
			return
		}
		p := rr.Pubs[op.Pub]
		if !p.Started || p.Stopped {
			return
		}
		p.Stopped = true
		p.StopStep = k.Step()
		p.Actor.Leave(op.Reset)
	case "join":
		if op.Cons >= len(rr.Cons) {
			return
		}
		c := rr.Cons[op.Cons]
		if c.Joined {
			return
		}
		c.Joined = true
		name := StreamName(c.Plan.Stream)
		q := ""
		if c.Plan.Query != "" {
			q = "?" + c.Plan.Query
		}
		cname := fmt.Sprintf("cons%d", op.Cons)
		switch c.Plan.Proto {
		case "rtmp":
			a := actors.NewRtmpClient(k, cname, actors.RolePlay, "live", name+q)
			c.Rtmp = a
			a.Connect(PortRtmp, 50+op.Cons)
			rr.W.Observe(a.Observe)
		case "flv", "wsflv":
			a := actors.NewHttpClient(k, cname, c.Plan.Proto, "/live/"+name+".flv"+q)
			c.Http = a
			a.Connect(PortHttp, 50+op.Cons)
			rr.W.Observe(a.Observe)
		case "ts", "wsts":
			a := actors.NewHttpClient(k, cname, c.Plan.Proto, "/live/"+name+".ts"+q)
			c.Http = a
			a.Connect(PortHttp, 50+op.Cons)
			rr.W.Observe(a.Observe)
		}
	case "leave":
		if op.Cons >= len(rr.Cons) {
			return
		}
		c := rr.Cons[op.Cons]
		if !c.Joined || c.Left {
			return
		}
		c.Left = true
		if c.Rtmp != nil {
			c.Rtmp.Leave(op.Reset)
		}
		if c.Http != nil {
			c.Http.Leave(op.Reset)
		}
	}
}

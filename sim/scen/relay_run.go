package scen

import (
	"encoding/json"
	"fmt"
	"runtime"
	"sort"
	"strings"
	"time"

	"simlal/sim"
	"simlal/sim/actors"
	"simlal/sim/media"
	"simlal/sim/rtmpc"
)

// BuildUnits materialises the unit specs of one incarnation into concrete messages.
func BuildUnits(p PubPlan) []media.Unit {
	var out []media.Unit
	gen := 0
	for i, s := range p.Units {
		u := media.Unit{Idx: i, Inc: p.Inc, Kind: s.Kind, Key: s.Key, Ts: s.Ts, Cts: s.Cts}
		var typ uint8
		var payload []byte
		switch s.Kind {
		case media.KMeta:
			typ = rtmpc.TypeDataAmf0
			payload = media.MetadataPayload(p.Inc, i, s.Sdf, s.Size)
		case media.KVideoSeq:
			typ = rtmpc.TypeVideo
			gen = s.Gen
			if p.VideoCodec == media.CodecHEVC {
				v, sp, pp := media.HevcParamSets(p.Inc, s.Gen)
				payload = media.HevcSeqHeaderPayload(v, sp, pp)
			} else {
				sp, pp := media.AvcParamSets(p.Inc, s.Gen)
				payload = media.AvcSeqHeaderPayload(sp, pp)
			}
		case media.KAudioSeq:
			typ = rtmpc.TypeAudio
			payload = media.AacSeqHeaderPayload(p.AacSr, 2)
		case media.KVideo:
			typ = rtmpc.TypeVideo
			if s.Tiny > 0 && !s.Empty {
				codec := byte(7)
				if p.VideoCodec == media.CodecHEVC {
					codec = 12
				}
				payload = []byte{0x20 | codec, 2, 0, 0, 0}[:s.Tiny]
			} else if !s.Empty {
				n := s.Nals
				if n < 1 {
					n = 1
				}
				hevc := p.VideoCodec == media.CodecHEVC
				for _, x := range s.Extra {
					switch x {
					case 'a':
						if hevc {
							u.Nals = append(u.Nals, []byte{35 << 1, 1, 0x50})
						} else {
							u.Nals = append(u.Nals, []byte{0x09, 0xf0})
						}
					case 'p':
						if hevc {
							v, sp, pp := media.HevcParamSets(p.Inc, gen)
							u.Nals = append(u.Nals, v, sp, pp)
						} else {
							sp, pp := media.AvcParamSets(p.Inc, gen)
							u.Nals = append(u.Nals, sp, pp)
						}
					case 's':
						if hevc {
							u.Nals = append(u.Nals, media.HevcNal(39, 0, 1, p.Inc, i, 90, 1+(s.Size*7)%90))
						} else {
							u.Nals = append(u.Nals, media.AvcNal(6, 0, p.Inc, i, 90, 1+(s.Size*7)%90))
						}
					}
				}
				defer0 := strings.Contains(s.Extra, "x")
				for j := 0; j < n; j++ {
					sz := s.Size
					if j > 0 {
						sz = 1 + (s.Size+j*37)%300
					}
					var nal []byte
					if p.VideoCodec == media.CodecHEVC {
						t := 1
						if s.Key {
							t = 19
						}
						nal = media.HevcNal(t, 0, 1, p.Inc, i, j, sz)
					} else {
						t := 1
						if s.Key {
							t = 5
						}
						nal = media.AvcNal(t, 3, p.Inc, i, j, sz)
					}
					u.Nals = append(u.Nals, nal)
				}
				if defer0 {
					if hevc {
						u.Nals = append(u.Nals, media.HevcNal(40, 0, 1, p.Inc, i, 91, 1+(s.Size*3)%40))
					} else {
						u.Nals = append(u.Nals, media.AvcNal(12, 0, p.Inc, i, 91, 1+(s.Size*3)%40)) // filler data
					}
				}
				codec := p.VideoCodec
				if codec == 0 {
					codec = media.CodecAVC
				}
				payload = media.VideoPayload(codec, s.Key, s.Cts, u.Nals)
			}
		case media.KAudio:
			typ = rtmpc.TypeAudio
			if !s.Empty {
				u.Audio = media.Body(p.Inc, 1, i, maxInt(1, s.Size))
				snd := p.AudioCodec
				if snd == 0 {
					snd = media.SoundAAC
				}
				payload = media.AudioPayload(snd, u.Audio)
			}
		}
		u.HdrGen = gen
		u.Msg = rtmpc.Msg{Type: typ, Ts: s.Ts, Payload: payload, Csid: s.Csid}
		out = append(out, u)
	}
	return out
}

// ---- execution state -------------------------------------------------------------------------------------------------------

type PubState struct {
	Plan     PubPlan
	Units    []media.Unit
	Actor    *actors.RtmpClient
	Queued   int // units handed to the actor
	Started  bool
	Stopped  bool
	StopStep int
	Kicked   bool
	Idled    bool
	IdleStep int
	// IdleClosed: lal had disconnected the silent publisher before the harness ended the scenario
	IdleClosed bool
	IdleAtMs   int64
}

type ConsState struct {
	Stalled     bool
	StallAtMs   int64
	StallStep   int
	ResumedAtMs int64
	Plan        ConsPlan
	Rtmp        *actors.RtmpClient
	Http        *actors.HttpClient
	Rtsp        *actors.RtspClient
	Push        *actors.RtmpServerStub // pseudo-consumer: a relay-push target
	// state of a stalled consumer at the end of the scenario proper (before the harness lets it drain)
	ClosedAtEnd, BlockedAtEnd bool
	BlockedForMsAtEnd         int64 // how long lal's write in progress had been waiting when the scripted operations were over
	PushAttachStep            int   // push targets: the step at which lal attached the session to the group (0: unknown)
	Joined                    bool
	Left                      bool
	Kicked                    bool
}

func (c *ConsState) JoinDoneStep() int {
	if c.Push != nil {
		if !c.Push.Started {
			return -1
		}
		// lal attaches the push session to the group only after it has read the target's answer to `publish`, on a
		// goroutine of its own: the instant is the grant of the group lock inside AddRtmpPushSession (assigned by the
		// executor); without it, the earliest certain instant is the first message lal pushes
		if c.PushAttachStep > 0 {
			return c.PushAttachStep
		}
		if len(c.Push.Recv) > 0 && c.Push.Recv[0].Step > c.Push.StartedStep {
			return c.Push.Recv[0].Step
		}
		return c.Push.StartedStep
	}
	if c.Rtmp != nil {
		return c.Rtmp.JoinDoneStep
	}
	if c.Http != nil {
		return c.Http.JoinDoneStep
	}
	return -1
}

func (c *ConsState) ClosedByLal() bool {
	if c.Push != nil {
		return false // lal ends a push session when its publisher ends
	}
	if c.Rtmp != nil {
		return c.Rtmp.Closed
	}
	if c.Http != nil {
		return c.Http.Closed
	}
	if c.Rtsp != nil {
		return c.Rtsp.Closed
	}
	return false
}

type RelayRun struct {
	OpsEndMs int64 // simulated time at which the scripted operations were over (set by checks that need it)
	W        *World
	Plan     RelayPlan
	// PushCons: one pseudo-consumer per connection lal made to a relay-push target
	PushCons []*ConsState
	Pubs     []*PubState
	Cons     []*ConsState
	// measurements
	GoroutinesBase int
	GoroutinesEnd  int
	FinalGroups    ApiResult
	EpilogueDone   bool
	Kicks          []KickRecord
	goBase         map[string]int
	GoroutineDiff  string
	pushHeld       []heldPush // push-target connections still held (RelayPlan.PushHoldMs)
	// the "RTSP relay pull overtaken by a publisher" scenario of C03
	rtspOrigins  []*heldRtspOrigin
	rtspPullApis []*ApiCall
}

// goroutineProfile counts this process's goroutines by creation site.
func goroutineProfile() map[string]int {
	buf := make([]byte, 4<<20)
	n := runtime.Stack(buf, true)
	out := map[string]int{}
	for _, g := range strings.Split(string(buf[:n]), "\n\n") {
		site := "main/unknown"
		if i := strings.LastIndex(g, "created by "); i >= 0 {
			site = strings.SplitN(g[i+11:], "\n", 2)[0]
			if j := strings.Index(site, " in goroutine"); j >= 0 {
				site = site[:j]
			}
		}
		out[site]++
	}
	return out
}

func diffProfile(a, b map[string]int) string {
	var keys []string
	for k := range b {
		// only goroutines created by lal, naza or net/http code count (runtime helpers come and go)
		if b[k] > a[k] && (strings.Contains(k, "q191201771") || strings.Contains(k, "net/http")) {
			keys = append(keys, k)
		}
	}
	sort.Strings(keys)
	var parts []string
	for _, k := range keys {
		parts = append(parts, fmt.Sprintf("%s +%d", k, b[k]-a[k]))
	}
	return strings.Join(parts, "; ")
}

type KickRecord struct {
	Target    string // "pub3" / "cons1"
	SessionId string
	Result    ApiResult
	Step      int
}

func StreamName(i int) string { return fmt.Sprintf("st%d", i) }

// ExecRelay runs a relay plan to completion (no oracles; callers evaluate afterwards).
func ExecRelay(k *sim.Kernel, pl RelayPlan) *RelayRun {
	rr := &RelayRun{Plan: pl}
	for _, addr := range pl.Conf.PushAddrs {
		addr := addr
		k.RegisterStub(addr, func(c *sim.Conn) (sim.ConnHandler, time.Duration) {
			st := actors.NewRtmpServerStub(k, fmt.Sprintf("pushtarget%d", len(rr.PushCons)), c)
			rr.PushCons = append(rr.PushCons, &ConsState{Plan: ConsPlan{Stream: -1, Proto: "push"}, Push: st, Joined: true})
			if pl.PushHoldMs > 0 {
				c.Hold(true)
				rr.pushHeld = append(rr.pushHeld, heldPush{c, k.NowMs()})
				k.Fault("push_target_slow")
			}
			return st, 0
		})
	}
	if len(pl.Conf.PushAddrs) > 0 {
		k.WatchGrants("AddRtmpPushSession")
	}
	for _, op := range pl.Ops {
		if op.Kind == "rtsp_pull_start" {
			k.RegisterStub(rtspOriginAddr, func(c *sim.Conn) (sim.ConnHandler, time.Duration) {
				o := &heldRtspOrigin{conn: c}
				rr.rtspOrigins = append(rr.rtspOrigins, o)
				return o, 0
			})
			break
		}
	}
	rr.W = StartWorld(k, pl.Conf)
	k.Advance(1100 * time.Millisecond) // first tick done: steady state
	rr.GoroutinesBase = runtime.NumGoroutine()
	rr.goBase = goroutineProfile()
	for _, pp := range pl.Pubs {
		rr.Pubs = append(rr.Pubs, &PubState{Plan: pp, Units: BuildUnits(pp), StopStep: -1})
	}
	for _, cp := range pl.Cons {
		rr.Cons = append(rr.Cons, &ConsState{Plan: cp})
	}
	for _, op := range pl.Ops {
		rr.exec(k, op)
	}
	k.Settle()
	k.Advance(1500 * time.Millisecond)
	k.Settle()
	if pl.Epilogue {
		rr.epilogue(k)
	}
	return rr
}

func (rr *RelayRun) epilogue(k *sim.Kernel) {
	rr.releasePushHolds(k, true)
	for _, p := range rr.Pubs {
		if p.Idled && p.Actor != nil {
			p.IdleClosed = p.Actor.Closed
		}
	}
	if rr.Plan.Dispose {
		t := k.Go("dispose", func() { rr.W.Srv.Dispose() })
		k.Settle()
		k.Advance(2 * time.Second)
		if !t.Done() {
			k.Violate("C16.dispose-hangs", "ILalServer.Dispose did not return: %v", k.BlockedLockWaiters())
		}
		for _, p := range rr.Pubs {
			p.Stopped = true
		}
		rr.EpilogueDone = true
		return
	}
	for i, p := range rr.Pubs {
		if p.Started && !p.Stopped {
			rr.exec(k, RelayOp{Kind: "stop_pub", Pub: i})
		}
	}
	k.Settle()
	for i, c := range rr.Cons {
		if c.Joined && !c.Left {
			rr.exec(k, RelayOp{Kind: "leave", Cons: i})
		}
	}
	k.Settle()
	wait := 3500
	if rr.Plan.Conf.HlsEnable {
		// the delayed HLS directory clean-up is a legitimate pending task: let it run
		if d := rr.Plan.Conf.HlsFragMs*(rr.Plan.Conf.HlsFragNum+rr.Plan.Conf.HlsDelThresh) + 1500; d > wait {
			wait = d
		}
	}
	k.Advance(time.Duration(wait) * time.Millisecond)
	rr.FinalGroups = rr.W.Api("api-final", "/api/stat/all_group", nil)
	k.Advance(200 * time.Millisecond)
	rr.GoroutinesEnd = runtime.NumGoroutine()
	rr.GoroutineDiff = diffProfile(rr.goBase, goroutineProfile())
	rr.EpilogueDone = true
}

// sessionIdOf finds lal's session id of an actor's connection through the start notifications.
func (rr *RelayRun) sessionIdOf(remote string) string {
	id := ""
	for _, e := range rr.W.Notify.Snapshot() {
		if (e.Kind == "pub_start" || e.Kind == "sub_start") && e.Remote == remote {
			id = e.SessionId
		}
	}
	return id
}

type heldPush struct {
	c  *sim.Conn
	at int64
}

// releasePushHolds lets slow push targets answer once their delay has passed (all: whatever their age).
func (rr *RelayRun) releasePushHolds(k *sim.Kernel, all bool) {
	keep := rr.pushHeld[:0]
	for _, h := range rr.pushHeld {
		if all || k.NowMs()-h.at >= int64(rr.Plan.PushHoldMs) {
			h.c.Hold(false)
		} else {
			keep = append(keep, h)
		}
	}
	rr.pushHeld = keep
}

func (rr *RelayRun) exec(k *sim.Kernel, op RelayOp) {
	if len(rr.pushHeld) > 0 {
		rr.releasePushHolds(k, false)
	}
	switch op.Kind {
	case "settle":
		k.Settle()
	case "advance":
		k.Advance(time.Duration(op.Ms) * time.Millisecond)
	case "pull_refused":
		// start_relay_pull towards an address nothing listens on, without retries (op.Pub: stream number)
		name := StreamName(op.Pub)
		body, _ := json.Marshal(map[string]interface{}{"url": "rtmp://10.9.9.99:1935/live/" + name, "stream_name": name, "pull_timeout_ms": 3000, "pull_retry_num": 0, "auto_stop_pull_after_no_out_ms": -1})
		call := rr.W.ApiStart(fmt.Sprintf("api-pullrefused-%d", k.Step()), "/api/ctrl/start_relay_pull", body)
		k.Settle()
		if call.C != nil {
			call.C.Leave(false)
		}
		k.Fault("pull_origin_refuses")
	case "rtsp_pull_start", "rtsp_pull_release", "rtsp_origin_close":
		rr.execRtspPull(k, op)
	case "start_pub":
		if op.Pub >= len(rr.Pubs) {
			return
		}
		p := rr.Pubs[op.Pub]
		if p.Started {
			return
		}
		p.Started = true
		name := StreamName(p.Plan.Stream)
		if p.Plan.Query != "" {
			name += "?" + p.Plan.Query
		}
		a := actors.NewRtmpClient(k, fmt.Sprintf("pub%d", op.Pub), actors.RolePublish, "live", name)
		a.AnnounceChunkSize = p.Plan.ChunkSize
		p.Actor = a
		a.Connect(PortRtmp, 10+op.Pub)
		rr.W.Observe(a.Observe)
	case "send":
		if op.Pub >= len(rr.Pubs) {
			return
		}
		p := rr.Pubs[op.Pub]
		if !p.Started || p.Stopped || p.Idled {
			return
		}
		for i := 0; i < op.N && p.Queued < len(p.Units); i++ {
			p.Actor.Publish(p.Units[p.Queued].Msg)
			p.Queued++
		}
		for _, c := range rr.Cons {
			if c.Rtsp != nil && c.Plan.Keepalive && c.Plan.Stream == p.Plan.Stream && c.Joined && !c.Left && !c.Stalled && c.Rtsp.Ready {
				c.Rtsp.Keepalive()
			}
		}
	case "stop_pub":
		if op.Pub >= len(rr.Pubs) {
			return
		}
		p := rr.Pubs[op.Pub]
		if !p.Started || p.Stopped {
			return
		}
		p.Stopped = true
		p.StopStep = k.Step()
		p.Actor.Leave(op.Reset)
	case "join":
		if op.Cons >= len(rr.Cons) {
			return
		}
		c := rr.Cons[op.Cons]
		if c.Joined {
			return
		}
		c.Joined = true
		name := StreamName(c.Plan.Stream)
		q := ""
		if c.Plan.Query != "" {
			q = "?" + c.Plan.Query
		}
		cname := fmt.Sprintf("cons%d", op.Cons)
		switch c.Plan.Proto {
		case "rtmp":
			a := actors.NewRtmpClient(k, cname, actors.RolePlay, "live", name+q)
			c.Rtmp = a
			a.Connect(PortRtmp, 50+op.Cons)
			rr.W.Observe(a.Observe)
		case "flv", "wsflv":
			a := actors.NewHttpClient(k, cname, c.Plan.Proto, "/live/"+name+".flv"+q)
			c.Http = a
			a.Connect(PortHttp, 50+op.Cons)
			rr.W.Observe(a.Observe)
		case "ts", "wsts":
			a := actors.NewHttpClient(k, cname, c.Plan.Proto, "/live/"+name+".ts"+q)
			c.Http = a
			a.Connect(PortHttp, 50+op.Cons)
			rr.W.Observe(a.Observe)
		case "rtsp", "rtspudp":
			a := actors.NewRtspClient(k, cname, "play", fmt.Sprintf("rtsp://127.0.0.1:%d/live/%s%s", PortRtsp, name, q), c.Plan.Proto == "rtsp")
			a.ClientPort = 21000 + 10*op.Cons
			c.Rtsp = a
			a.Connect(PortRtsp, 50+op.Cons)
		}
	case "stall", "resume", "drip":
		if op.Cons >= len(rr.Cons) || !rr.Cons[op.Cons].Joined {
			return
		}
		c := rr.Cons[op.Cons]
		var conn *sim.Conn
		if c.Rtmp != nil {
			conn = c.Rtmp.Conn
		} else if c.Http != nil {
			conn = c.Http.Conn
		} else if c.Rtsp != nil {
			conn = c.Rtsp.Conn
		}
		if conn == nil {
			return
		}
		switch op.Kind {
		case "stall":
			// lal may write op.N more bytes, then its writes block (the consumer stopped reading)
			conn.SetWindow(op.N)
			if !c.Stalled {
				c.Stalled = true
				c.StallAtMs = k.NowMs()
				c.StallStep = k.Step()
			}
			k.Fault("consumer_stall")
		case "drip":
			conn.AddWindow(op.N)
			k.Fault("consumer_slow_read")
		case "resume":
			conn.SetWindow(-1)
			c.ResumedAtMs = k.NowMs()
			k.Fault("consumer_resume")
		}
	case "kick_pub", "kick_cons":
		var remote, stream, target string
		if op.Kind == "kick_pub" {
			if op.Pub >= len(rr.Pubs) || rr.Pubs[op.Pub].Actor == nil || rr.Pubs[op.Pub].Actor.Conn == nil {
				return
			}
			p := rr.Pubs[op.Pub]
			remote, stream, target = p.Actor.Conn.RemoteAddr().String(), StreamName(p.Plan.Stream), fmt.Sprintf("pub%d", op.Pub)
		} else {
			if op.Cons >= len(rr.Cons) || !rr.Cons[op.Cons].Joined {
				return
			}
			c := rr.Cons[op.Cons]
			var conn *sim.Conn
			if c.Rtmp != nil {
				conn = c.Rtmp.Conn
			} else if c.Http != nil {
				conn = c.Http.Conn
			} else if c.Rtsp != nil {
				conn = c.Rtsp.Conn
			}
			if conn == nil {
				return
			}
			remote, stream, target = conn.RemoteAddr().String(), StreamName(c.Plan.Stream), fmt.Sprintf("cons%d", op.Cons)
		}
		k.Settle()
		id := rr.sessionIdOf(remote)
		if id == "" {
			return
		}
		body, _ := json.Marshal(map[string]string{"stream_name": stream, "session_id": id})
		res := rr.W.Api(fmt.Sprintf("api-kick-%d", len(rr.Kicks)), "/api/ctrl/kick_session", body)
		rr.Kicks = append(rr.Kicks, KickRecord{Target: target, SessionId: id, Result: res, Step: k.Step()})
		if op.Kind == "kick_pub" {
			rr.Pubs[op.Pub].Stopped = true
			rr.Pubs[op.Pub].StopStep = k.Step()
			rr.Pubs[op.Pub].Kicked = true
		} else {
			rr.Cons[op.Cons].Kicked = true
		}
	case "idle_pub":
		// the publisher goes silent without closing; the caller advances time afterwards
		if op.Pub < len(rr.Pubs) && rr.Pubs[op.Pub].Started {
			rr.Pubs[op.Pub].Idled = true
			rr.Pubs[op.Pub].IdleStep = k.Step()
			rr.Pubs[op.Pub].IdleAtMs = k.NowMs()
		}
	case "leave":
		if op.Cons >= len(rr.Cons) {
			return
		}
		c := rr.Cons[op.Cons]
		if !c.Joined || c.Left {
			return
		}
		c.Left = true
		if c.Rtmp != nil {
			c.Rtmp.Leave(op.Reset)
		}
		if c.Http != nil {
			c.Http.Leave(op.Reset)
		}
		if c.Rtsp != nil {
			c.Rtsp.Leave(op.Reset)
		}
	}
}

// Package scen holds the scenario families (plan generators and interpreters) and the property oracles.
package scen

import (
	"encoding/json"
	"fmt"
	"github.com/q191201771/naza/pkg/connection"
	"github.com/q191201771/naza/pkg/fake"
	"os"
	"strconv"
	"sync"

	"simlal/sim"
	"simlal/sim/actors"

	"github.com/q191201771/lal/pkg/base"
	"github.com/q191201771/lal/pkg/gb28181"
	"github.com/q191201771/lal/pkg/hls"
	"github.com/q191201771/lal/pkg/httpflv"
	"github.com/q191201771/lal/pkg/httpts"
	"github.com/q191201771/lal/pkg/logic"
	"github.com/q191201771/lal/pkg/rtmp"
	"github.com/q191201771/lal/pkg/rtsp"
)

const (
	PortRtmp   = 1935
	PortHttp   = 8080
	PortApi    = 8083
	PortRtsp   = 5544
	PortWsRtsp = 5566
)

// LalConf is the subset of lal's configuration the plans randomise.
type LalConf struct {
	RtmpGop          int             `json:"rtmp_gop"`
	RtmpGopCap       int             `json:"rtmp_gop_cap"`
	MergeWrite       int             `json:"merge_write"`
	FlvEnable        bool            `json:"flv"`
	FlvGop           int             `json:"flv_gop"`
	FlvGopCap        int             `json:"flv_gop_cap"`
	TsEnable         bool            `json:"ts"`
	TsGop            int             `json:"ts_gop"`
	TsGopCap         int             `json:"ts_gop_cap"`
	HlsEnable        bool            `json:"hls"`
	HlsFragMs        int             `json:"hls_frag_ms"`
	HlsFragNum       int             `json:"hls_frag_num"`
	HlsDelThresh     int             `json:"hls_del_thresh"`
	HlsCleanup       int             `json:"hls_cleanup"`
	HlsSubKey        string          `json:"hls_sub_key,omitempty"`        // non-empty: HLS sub-session mode (302 to ?session_id=...)
	HlsSubTimeoutMs  int             `json:"hls_sub_timeout_ms,omitempty"` // expiry of idle HLS sub sessions (0: 30 s)
	RtspEnable       bool            `json:"rtsp"`
	RtspWaitKey      bool            `json:"rtsp_wait_key"`
	RtspAuth         bool            `json:"rtsp_auth"`
	RtspAuthMethod   int             `json:"rtsp_auth_method"`
	WsRtspEnable     bool            `json:"ws_rtsp,omitempty"`
	ApiEnable        bool            `json:"api"`
	RecordFlv        bool            `json:"record_flv"`
	RecordTs         bool            `json:"record_ts"`
	DummyAudio       bool            `json:"dummy_audio"`
	DummyAudioWaitMs int             `json:"dummy_audio_wait_ms"`
	PushAddrs        []string        `json:"push_addrs,omitempty"`
	StaticPull       string          `json:"static_pull,omitempty"`
	Auth             map[string]bool `json:"auth,omitempty"`
	AuthKey          string          `json:"auth_key,omitempty"`
	AuthOverride     string          `json:"auth_override,omitempty"`
	// QueueSize: size of the per-subscriber asynchronous write queues (0: lal's default 1024)
	QueueSize int `json:"queue_size,omitempty"`
	// NoHook: do not install the stream hook (lal counts a hook as a consumer of the stream)
	NoHook bool `json:"no_hook,omitempty"`
}

func (c LalConf) JSON() []byte {
	auth := func(k string) bool { return c.Auth != nil && c.Auth[k] }
	if c.AuthKey == "" {
		c.AuthKey = "q191201771"
	}
	m := map[string]interface{}{
		"conf_version": "v0.4.1",
		"rtmp": map[string]interface{}{
			"enable": true, "addr": fmt.Sprintf(":%d", PortRtmp), "rtmps_enable": false,
			"gop_num": c.RtmpGop, "single_gop_max_frame_num": c.RtmpGopCap, "merge_write_size": c.MergeWrite,
		},
		"in_session":   map[string]interface{}{"add_dummy_audio_enable": c.DummyAudio, "add_dummy_audio_wait_audio_ms": c.DummyAudioWaitMs},
		"default_http": map[string]interface{}{"http_listen_addr": fmt.Sprintf(":%d", PortHttp)},
		"httpflv": map[string]interface{}{"enable": c.FlvEnable, "enable_https": false, "url_pattern": "/live/",
			"gop_num": c.FlvGop, "single_gop_max_frame_num": c.FlvGopCap},
		"hls": map[string]interface{}{"enable": c.HlsEnable, "enable_https": false, "url_pattern": "/hls/", "out_path": "/simhls/",
			"fragment_duration_ms": c.HlsFragMs, "fragment_num": c.HlsFragNum, "delete_threshold": c.HlsDelThresh,
			"cleanup_mode": c.HlsCleanup, "use_memory_as_disk_flag": false, "sub_session_timeout_ms": hlsSubTimeout(c), "sub_session_hash_key": c.HlsSubKey},
		"httpts": map[string]interface{}{"enable": c.TsEnable, "enable_https": false, "url_pattern": "/live/",
			"gop_num": c.TsGop, "single_gop_max_frame_num": c.TsGopCap},
		"rtsp": map[string]interface{}{"enable": c.RtspEnable, "addr": fmt.Sprintf(":%d", PortRtsp), "rtsps_enable": false,
			"out_wait_key_frame_flag": c.RtspWaitKey, "auth_enable": c.RtspAuth, "auth_method": c.RtspAuthMethod,
			"username": "simuser", "password": "simpass", "ws_rtsp_enable": c.WsRtspEnable, "ws_rtsp_addr": fmt.Sprintf(":%d", PortWsRtsp)},
		"record": map[string]interface{}{"enable_flv": c.RecordFlv, "flv_out_path": "/simrec/flv/",
			"enable_mpegts": c.RecordTs, "mpegts_out_path": "/simrec/ts/"},
		"relay_push":        map[string]interface{}{"enable": len(c.PushAddrs) > 0, "addr_list": c.PushAddrs},
		"static_relay_pull": map[string]interface{}{"enable": c.StaticPull != "", "addr": c.StaticPull},
		"http_api":          map[string]interface{}{"enable": c.ApiEnable, "addr": fmt.Sprintf(":%d", PortApi)},
		"server_id":         "1",
		"http_notify":       map[string]interface{}{"enable": false, "update_interval_sec": 5},
		"simple_auth": map[string]interface{}{"key": c.AuthKey, "dangerous_lal_secret": c.AuthOverride,
			"pub_rtmp_enable": auth("pub_rtmp"), "sub_rtmp_enable": auth("sub_rtmp"), "sub_httpflv_enable": auth("sub_httpflv"),
			"sub_httpts_enable": auth("sub_httpts"), "pub_rtsp_enable": auth("pub_rtsp"), "sub_rtsp_enable": auth("sub_rtsp"),
			"hls_m3u8_enable": auth("hls_m3u8")},
		"pprof": map[string]interface{}{"enable": false, "addr": ":8084"},
		"log":   map[string]interface{}{"level": logLevel(), "filename": "", "is_to_stdout": os.Getenv("SIMLAL_LOG") != "", "is_rotate_daily": false, "assert_behavior": 1},
		"debug": map[string]interface{}{"log_group_interval_sec": 0, "log_group_max_group_num": 0, "log_group_max_sub_num_per_group": 0},
	}
	b, _ := json.Marshal(m)
	return b
}

func logLevel() int {
	if v := os.Getenv("SIMLAL_LOG"); v != "" {
		n, _ := strconv.Atoi(v)
		return n
	}
	return 6
}

// ---- notification recorder (existing seam: logic.Option.NotifyHandler) ---------------------------------------------------

type NotifyEvent struct {
	Kind      string
	SessionId string
	Stream    string
	Protocol  string
	Remote    string
	Url       string
	UrlParam  string
	Step      int
	HasIn     bool
	HasOut    bool
}

type NotifyRecorder struct {
	k      *sim.Kernel
	mu     sync.Mutex
	Events []NotifyEvent
}

func (n *NotifyRecorder) add(e NotifyEvent) {
	n.k.YieldPoint("yield@notify-handler", n.k.P.YieldNotify)
	n.mu.Lock()
	e.Step = n.k.StepAny()
	n.Events = append(n.Events, e)
	n.mu.Unlock()
}
func (n *NotifyRecorder) Snapshot() []NotifyEvent {
	n.mu.Lock()
	defer n.mu.Unlock()
	return append([]NotifyEvent(nil), n.Events...)
}
func (n *NotifyRecorder) OnServerStart(info base.LalInfo) {}
func (n *NotifyRecorder) OnUpdate(info base.UpdateInfo)   {}
func (n *NotifyRecorder) OnHlsMakeTs(info base.HlsMakeTsInfo) {
	n.add(NotifyEvent{Kind: "hls_make_ts", Stream: info.StreamName, SessionId: info.LiveM3u8File})
}
func (n *NotifyRecorder) OnRtmpConnect(info base.RtmpConnectInfo) {
	n.add(NotifyEvent{Kind: "rtmp_connect", SessionId: info.SessionId})
}
func (n *NotifyRecorder) OnPubStart(info base.PubStartInfo) {
	n.add(NotifyEvent{Kind: "pub_start", SessionId: info.SessionId, Stream: info.StreamName, Protocol: info.Protocol, Remote: info.RemoteAddr, Url: info.Url, UrlParam: info.UrlParam, HasIn: info.HasInSession, HasOut: info.HasOutSession})
}
func (n *NotifyRecorder) OnPubStop(info base.PubStopInfo) {
	n.add(NotifyEvent{Kind: "pub_stop", SessionId: info.SessionId, Stream: info.StreamName, Protocol: info.Protocol, Remote: info.RemoteAddr, Url: info.Url, UrlParam: info.UrlParam, HasIn: info.HasInSession, HasOut: info.HasOutSession})
}
func (n *NotifyRecorder) OnSubStart(info base.SubStartInfo) {
	n.add(NotifyEvent{Kind: "sub_start", SessionId: info.SessionId, Stream: info.StreamName, Protocol: info.Protocol, Remote: info.RemoteAddr, Url: info.Url, UrlParam: info.UrlParam, HasIn: info.HasInSession, HasOut: info.HasOutSession})
}
func (n *NotifyRecorder) OnSubStop(info base.SubStopInfo) {
	n.add(NotifyEvent{Kind: "sub_stop", SessionId: info.SessionId, Stream: info.StreamName, Protocol: info.Protocol, Remote: info.RemoteAddr, Url: info.Url, UrlParam: info.UrlParam, HasIn: info.HasInSession, HasOut: info.HasOutSession})
}
func (n *NotifyRecorder) OnRelayPullStart(info base.PullStartInfo) {
	n.add(NotifyEvent{Kind: "pull_start", SessionId: info.SessionId, Stream: info.StreamName, Protocol: info.Protocol, Remote: info.RemoteAddr, Url: info.Url, UrlParam: info.UrlParam, HasIn: info.HasInSession, HasOut: info.HasOutSession})
}
func (n *NotifyRecorder) OnRelayPullStop(info base.PullStopInfo) {
	n.add(NotifyEvent{Kind: "pull_stop", SessionId: info.SessionId, Stream: info.StreamName, Protocol: info.Protocol, Remote: info.RemoteAddr, Url: info.Url, UrlParam: info.UrlParam, HasIn: info.HasInSession, HasOut: info.HasOutSession})
}

func hlsSubTimeout(c LalConf) int {
	if c.HlsSubTimeoutMs > 0 {
		return c.HlsSubTimeoutMs
	}
	return 30000
}

// ---- world -------------------------------------------------------------------------------------------------------------

// World is one lal server incarnation inside a kernel.
type World struct {
	K         *sim.Kernel
	Conf      LalConf
	Srv       logic.ILalServer
	Notify    *NotifyRecorder
	Hook      *HookRecorder
	runErr    error
	runDone   bool
	observers []func()
}

// StartWorld creates the real lal ServerManager from conf and runs its RunLoop on a task goroutine.
func StartWorld(k *sim.Kernel, conf LalConf, mods ...logic.ModOption) *World {
	w := &World{K: k, Conf: conf, Notify: &NotifyRecorder{k: k}}
	raw := conf.JSON()
	all := append([]logic.ModOption{func(o *logic.Option) {
		o.ConfRawContent = raw
		o.NotifyHandler = w.Notify
	}}, mods...)
	hls.ZzSetFsl(k.FS.Fsl())
	connection.ZzBeforeWrite = func() { k.YieldPoint("yield@write", k.P.YieldWrite) }
	fake.ZzExit = func(code int) {
		panic(fmt.Sprintf("lal terminated the process itself: os.Exit(%d) through nazalog Fatal / Panic / Assert", code))
	}
	q := conf.QueueSize
	if q == 0 {
		q = 1024
	}
	rtmp.ZzSetWChanSize(q)
	rtsp.ZzSetWChanSize(q)
	rtsp.ZzResetUdpPool()
	gb28181.ZzResetUdpPool()
	httpflv.SubSessionWriteChanSize = q
	httpts.SubSessionWriteChanSize = q
	w.Srv = logic.NewLalServer(all...)
	w.Hook = &HookRecorder{k: k}
	if !conf.NoHook {
		w.installHook(k)
	}

	k.Go("server.RunLoop", func() {
		w.runErr = w.Srv.RunLoop()
		w.runDone = true
	})
	k.AddInvariant(func() {
		for _, o := range w.observers {
			o()
		}
	})
	k.Settle()
	if !k.Listening(PortRtmp) {
		k.Abort(fmt.Sprintf("lal did not start listening: %v", w.runErr))
	}
	return w
}

// ---- stream hook recorder (existing seam: ILalServer.WithOnHookSession) ---------------------------------------------------

type HookSession struct {
	UniqueKey string
	Stream    string
	Msgs      int
	Stops     int
	StartStep int
	StopSteps []int
}

type HookRecorder struct {
	k        *sim.Kernel
	mu       sync.Mutex
	Sessions []*HookSession
}

type hookCtx struct {
	r *HookRecorder
	s *HookSession
}

func (h hookCtx) OnMsg(msg base.RtmpMsg) {
	h.r.mu.Lock()
	h.s.Msgs++
	h.r.mu.Unlock()
}
func (h hookCtx) OnStop() {
	h.r.mu.Lock()
	h.s.Stops++
	h.s.StopSteps = append(h.s.StopSteps, h.r.k.StepAny())
	h.r.mu.Unlock()
}

func (r *HookRecorder) Snapshot() []HookSession {
	r.mu.Lock()
	defer r.mu.Unlock()
	var out []HookSession
	for _, s := range r.Sessions {
		out = append(out, *s)
	}
	return out
}

// ---- HTTP API client -----------------------------------------------------------------------------------------------------

type ApiResult struct {
	Status int
	Body   []byte
	JSON   map[string]interface{}
	Done   bool
}

func (r *ApiResult) ErrorCode() int {
	if r.JSON == nil {
		return -1
	}
	f, _ := r.JSON["error_code"].(float64)
	return int(f)
}

// ApiStart issues an HTTP-API request without waiting; call Finish after settling.
type ApiCall struct {
	C *actors.HttpClient
}

func (w *World) ApiStart(name, path string, body []byte) *ApiCall {
	mode := "get"
	if body != nil {
		mode = "post"
	}
	c := actors.NewHttpClient(w.K, name, mode, path)
	c.Body = body
	if !c.Connect(PortApi, 99) {
		return &ApiCall{}
	}
	return &ApiCall{C: c}
}

func (a *ApiCall) Result() ApiResult {
	var r ApiResult
	if a.C == nil || !a.C.Resp.HeaderDone || !a.C.Resp.Complete {
		return r
	}
	r.Done = true
	r.Status = a.C.Resp.Status
	r.Body = a.C.Resp.Body
	_ = json.Unmarshal(r.Body, &r.JSON)
	return r
}

// Api performs a request and settles.
func (w *World) Api(name, path string, body []byte) ApiResult {
	c := w.ApiStart(name, path, body)
	w.K.Settle()
	r := c.Result()
	if c.C != nil {
		c.C.Leave(false)
		w.K.Settle()
	}
	return r
}

// Observe registers f to run at every quiescent point.
func (w *World) Observe(f func()) { w.observers = append(w.observers, f) }

func (w *World) installHook(k *sim.Kernel) {
	w.Srv.WithOnHookSession(func(uniqueKey string, streamName string) logic.ICustomizeHookSessionContext {
		w.Hook.mu.Lock()
		defer w.Hook.mu.Unlock()
		hs := &HookSession{UniqueKey: uniqueKey, Stream: streamName, StartStep: k.StepAny()}
		w.Hook.Sessions = append(w.Hook.Sessions, hs)
		return hookCtx{w.Hook, hs}
	})
}

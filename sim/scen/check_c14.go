package scen

import (
	"crypto/md5"
	"encoding/base64"
	"encoding/hex"
	"encoding/json"
	"fmt"
	"strings"
	"time"

	"simlal/sim"
	"simlal/sim/actors"
	"simlal/sim/media"
)

// C14: access control admits exactly the authorised requests. Six scenario kinds, one per run:
//   auth      simple-auth flag matrix x protocol x direction x secret form
//   rtspauth  RTSP Basic / Digest x right / wrong / missing credentials
//   kick      every session kind is disconnected by kick_session
//   blacklist a black-listed address gets no HLS content until expiry (simulated clock) and does afterwards
//   hlspath   no request path makes the HLS file server read outside its root
//   pubname   no stream name makes lal create or write files outside the HLS / record roots

type C14Req struct {
	Proto  string `json:"proto"`  // rtmp_pub rtmp_sub flv_sub ts_sub rtsp_pub rtsp_sub hls_m3u8
	Secret string `json:"secret"` // absent other_param empty wrong right upper other override dup_rr dup_ww malformed extra
}

type C14Plan struct {
	Kind  string          `json:"kind"`
	Conf  LalConf         `json:"conf"`
	Sched sim.SchedParams `json:"sched"`
	Reqs  []C14Req        `json:"reqs,omitempty"`
	Creds []string        `json:"creds,omitempty"` // rtspauth: none right wrong_pass wrong_user other_method forged_nonce
	Kicks []string        `json:"kicks,omitempty"` // session kinds
	Paths []string        `json:"paths,omitempty"`
	Names []string        `json:"names,omitempty"`
	Dur   int             `json:"dur,omitempty"`
	Adds  []C14Add        `json:"adds,omitempty"` // blacklist: further add_ip_blacklist calls for the same address after the first
	Tcp   bool            `json:"tcp,omitempty"`
}

var c14Protos = []string{"rtmp_pub", "rtmp_sub", "flv_sub", "ts_sub", "rtsp_pub", "rtsp_sub", "hls_m3u8"}
var c14Secrets = []string{"absent", "other_param", "empty", "wrong", "right", "upper", "other", "override", "dup_rr", "dup_ww", "malformed", "extra",
	"sid_only", "sid_wrong", "sid_right", "secret_in_value", "right_other_stream"}
var c14AuthFlag = map[string]string{"rtmp_pub": "pub_rtmp", "rtmp_sub": "sub_rtmp", "flv_sub": "sub_httpflv", "ts_sub": "sub_httpts", "rtsp_pub": "pub_rtsp", "rtsp_sub": "sub_rtsp", "hls_m3u8": "hls_m3u8"}

var c14Paths = []string{
	"/hls/hp/playlist.m3u8", "/hls/hp.m3u8", "/hls/hp/record.m3u8",
	"/hls/...m3u8", "/hls/../playlist.m3u8", "/hls/%2e%2e/playlist.m3u8", "/hls/hp/../../playlist.m3u8", "/hls/hp/%2e%2e/%2e%2e/playlist.m3u8",
	"/hls//playlist.m3u8", "/hls/./playlist.m3u8", "/hls/..%2fplaylist.m3u8", "/hls/hp/..%2f..%2fplaylist.m3u8", "/hls/..%2f..%2fsecret.m3u8",
	"/hls/..-1-0.ts", "/hls/%2e%2e-1-0.ts", "/hls/hp/..-1-0.ts", "/hls/....m3u8", "/hls/../record.m3u8", "/hls/..%2frecord.m3u8",
	"/hls/hp/../../secret/playlist.m3u8", "/hls/secret/playlist.m3u8", "/hls/%2fsecret%2fplaylist.m3u8", "/hls/hp/playlist.m3u8?x=../../secret",
	"/hls/..%5cplaylist.m3u8", "/hls/..;/playlist.m3u8", "/hls/hp/.%2e/.%2e/playlist.m3u8", "//hls/../playlist.m3u8", "/hls/../../../../etc/passwd.m3u8",
	"/hls/.m3u8", "/hls/..", "/hls/..ts", "/hls/.ts", "/hls/-.ts", "/hls/..-.ts",
}

var c14Names = []string{"ok1", "..", ".", "...", "a..b", "..a", "%2e%2e", "..%2f..%2fx", "x/../../y", "../y", "..\\y", "~", "-", ".hidden", "..-1-0", "a%00b", "..?x=1", "%2e%2e%2fz"}

func genC14Plan(r *sim.Rng, tier string) C14Plan {
	var p C14Plan
	p.Sched = GenSched(r, tier == "thorough")
	p.Conf = LalConf{RtmpGop: 1, FlvEnable: true, FlvGop: 1, TsEnable: true, TsGop: 1, RtspEnable: true, ApiEnable: true, NoHook: true,
		HlsEnable: true, HlsFragMs: 200, HlsFragNum: 3, HlsDelThresh: 2, HlsCleanup: []int{0, 1, 2}[r.Intn(3)]}
	p.Tcp = r.Bool(0.5)
	p.Kind = []string{"auth", "auth", "auth", "rtspauth", "kick", "blacklist", "hlspath", "pubname"}[r.Intn(8)]
	n := 6
	if tier == "thorough" {
		n = 16
	}
	switch p.Kind {
	case "auth":
		p.Conf.Auth = map[string]bool{}
		for _, pr := range c14Protos { // fixed order: the plan must be a pure function of the PRNG
			p.Conf.Auth[c14AuthFlag[pr]] = r.Bool(0.6)
		}
		p.Conf.AuthKey = []string{"q191201771", "K3y", "", "a&b=c"}[r.Intn(4)]
		p.Conf.AuthOverride = []string{"", "", "0123456789abcdef0123456789abcdef", "backdoor", "BackDoor42"}[r.Intn(5)]
		for i := 0; i < n; i++ {
			p.Reqs = append(p.Reqs, C14Req{Proto: c14Protos[r.Intn(len(c14Protos))], Secret: c14Secrets[r.Intn(len(c14Secrets))]})
		}
	case "rtspauth":
		p.Conf.RtspAuth = true
		p.Conf.RtspAuthMethod = r.Intn(2)
		all := []string{"none", "right", "wrong_pass", "wrong_user", "other_method", "forged_nonce", "right",
			"bad_b64", "no_colon", "three_parts", "empty_basic", "bare_digest", "bearer"}
		for i := 0; i < n; i++ {
			p.Creds = append(p.Creds, all[r.Intn(len(all))])
		}
	case "kick":
		all := []string{"rtmp_pub", "rtmp_sub", "flv_sub", "ts_sub", "rtsp_pub", "rtsp_sub", "rtsp_desc"}
		if r.Bool(0.4) {
			p.Conf.HlsSubKey = "simsubkey"
			all = append(all, "hls_sub", "hls_sub")
		}
		for i := 0; i < 1+r.Intn(4); i++ {
			p.Kicks = append(p.Kicks, all[r.Intn(len(all))])
		}
	case "blacklist":
		p.Dur = 1 + r.Intn(30)
		if r.Bool(0.5) {
			p.Dur = 1 + r.Intn(3)
		}
		for i := 0; i < r.Intn(3); i++ {
			a := C14Add{Dur: 1 + r.Intn(40), Probe: r.Bool(0.4)}
			switch r.Intn(3) {
			case 0:
				a.AfterMs = r.Intn(900) // while the previous entry is certainly alive
			case 1:
				a.AfterMs = p.Dur*1000 + 1500 + r.Intn(3000) // after it has expired
			default:
				a.AfterMs = r.Intn(p.Dur*1000 + 2000)
			}
			p.Adds = append(p.Adds, a)
		}
	case "hlspath":
		for i := 0; i < n+4; i++ {
			p.Paths = append(p.Paths, c14Paths[r.Intn(len(c14Paths))])
		}
	case "pubname":
		p.Conf.RecordFlv = r.Bool(0.7)
		p.Conf.RecordTs = r.Bool(0.7)
		for i := 0; i < 1+r.Intn(3); i++ {
			p.Names = append(p.Names, c14Names[r.Intn(len(c14Names))])
		}
	}
	return p
}

func md5Hex(s string) string {
	h := md5.Sum([]byte(s))
	return hex.EncodeToString(h[:])
}

// c14Query builds the query string for a secret form and says whether the form carries a valid secret.
func c14Query(form, key, override, stream string) (q string, valid bool) {
	right := md5Hex(key + stream)
	wrong := md5Hex("no such key" + stream)
	switch form {
	case "absent":
		return "", false
	case "other_param":
		return "token=" + right, false
	case "empty":
		return "lal_secret=", false
	case "wrong":
		return "lal_secret=" + wrong, false
	case "right":
		return "lal_secret=" + right, true
	case "upper":
		return "lal_secret=" + strings.ToUpper(right), true
	case "other":
		return "lal_secret=" + md5Hex(key+stream+"x"), false
	case "override":
		if override == "" {
			return "lal_secret=backdoor", false
		}
		return "lal_secret=" + override, true
	case "dup_rr":
		return "lal_secret=" + right + "&lal_secret=" + right, true
	case "dup_ww":
		return "lal_secret=" + wrong + "&lal_secret=" + wrong, false
	case "malformed":
		return "lal_secret=%zz&x=%", false
	case "extra":
		return "a=1&lal_secret=" + right + "&b=2", true
	case "sid_only": // parameters of lal's own (HLS sub-session ids) do not stand in for the secret
		return "session_id=" + right, false
	case "sid_wrong":
		return "lal_secret=" + wrong + "&session_id=x", false
	case "sid_right":
		return "session_id=x&lal_secret=" + right, true
	case "secret_in_value": // the right secret, but as part of another parameter's value
		return "x=lal_secret%3D" + right, false
	case "right_other_stream":
		return "lal_secret=" + md5Hex(key+"au0"), false
	}
	return "", false
}

type c14Live struct {
	pub   *actors.RtmpClient
	units []media.Unit
	sent  int
}

// startLive publishes a small well-formed A/V stream over RTMP (with the right secret, so that it is admitted
// under every flag combination) and keeps some units for later.
func c14StartLive(k *sim.Kernel, w *World, name string, conf LalConf, first int) *c14Live {
	l := &c14Live{}
	l.units = admUnits(0, 900, true)
	q, _ := c14Query("right", keyOf(conf), conf.AuthOverride, name)
	l.pub = actors.NewRtmpClient(k, "live-"+name, actors.RolePublish, "live", name+"?"+q)
	l.pub.Connect(PortRtmp, 1)
	k.Settle()
	l.feed(k, first)
	return l
}

func keyOf(c LalConf) string {
	if c.AuthKey == "" {
		return "q191201771"
	}
	return c.AuthKey
}

func (l *c14Live) feed(k *sim.Kernel, n int) {
	for i := 0; i < n && l.sent < len(l.units); i++ {
		l.pub.Publish(l.units[l.sent].Msg)
		l.sent++
	}
	k.Settle()
}

// c14Outcome describes what a request got.
type c14Outcome struct {
	admitted bool
	media    int // media bytes / messages / playlist bytes received
	remote   string
	closed   bool
	detail   string
}

func c14Do(k *sim.Kernel, w *World, l *c14Live, idx int, proto, stream, query string, tcp bool) c14Outcome {
	var o c14Outcome
	name := fmt.Sprintf("req%d", idx)
	sq := stream
	if query != "" {
		sq += "?" + query
	}
	switch proto {
	case "rtmp_pub":
		a := actors.NewRtmpClient(k, name, actors.RolePublish, "live", sq)
		a.Connect(PortRtmp, 20+idx)
		k.Settle()
		for _, u := range admUnits(1, 6, true) {
			a.Publish(u.Msg)
		}
		k.Settle()
		o.remote = a.Conn.RemoteAddr().String()
		o.admitted, o.closed = a.Ready && !a.Closed, a.Closed
		o.detail = a.String()
		a.Leave(false)
	case "rtmp_sub":
		a := actors.NewRtmpClient(k, name, actors.RolePlay, "live", sq)
		a.Connect(PortRtmp, 20+idx)
		k.Settle()
		l.feed(k, 4)
		o.remote = a.Conn.RemoteAddr().String()
		o.media = len(a.Recv)
		o.admitted, o.closed = a.Ready && !a.Closed && len(a.Recv) > 0, a.Closed
		o.detail = a.String()
		a.Leave(false)
	case "flv_sub", "ts_sub":
		mode, ext := "flv", ".flv"
		if proto == "ts_sub" {
			mode, ext = "ts", ".ts"
		}
		path := "/live/" + stream + ext
		if query != "" {
			path += "?" + query
		}
		a := actors.NewHttpClient(k, name, mode, path)
		a.Connect(PortHttp, 20+idx)
		k.Settle()
		l.feed(k, 4)
		o.remote = a.Conn.RemoteAddr().String()
		o.media = len(a.Tags) + len(a.TsBytes)
		o.admitted, o.closed = a.Resp.HeaderDone && a.Resp.Status == 200 && o.media > 0, a.Closed
		o.detail = fmt.Sprintf("status=%d tags=%d ts=%d closed=%v", a.Resp.Status, len(a.Tags), len(a.TsBytes), a.Closed)
		a.Leave(false)
	case "hls_m3u8":
		path := "/hls/" + stream + ".m3u8"
		if idx%2 == 1 {
			path = "/hls/" + stream + "/playlist.m3u8" // the other URL form of the same playlist
		}
		if query != "" {
			path += "?" + query
		}
		a := actors.NewHttpClient(k, name, "get", path)
		a.Connect(PortHttp, 20+idx)
		k.Settle()
		o.remote = a.Conn.RemoteAddr().String()
		o.media = len(a.Resp.Body)
		o.admitted = a.Resp.HeaderDone && a.Resp.Status == 200 && strings.Contains(string(a.Resp.Body), "#EXTM3U")
		o.closed = a.Closed
		o.detail = fmt.Sprintf("status=%d body=%d bytes", a.Resp.Status, len(a.Resp.Body))
		a.Leave(false)
	case "rtsp_pub":
		url := fmt.Sprintf("rtsp://127.0.0.1:%d/live/%s", PortRtsp, sq)
		a := actors.NewRtspClient(k, name, "pub", url, tcp)
		pl := C07Plan{Video: "avc", Audio: "aac", AacSrIdx: 4, SdpParams: true, MaxPayload: 1200}
		src := buildC07(&pl)
		a.Sdp = src.sdp()
		a.Tracks = actors.ParseSdpTracks(a.Sdp)
		a.ClientPort = 22000 + 10*idx
		a.Connect(PortRtsp, 20+idx)
		k.Settle()
		o.remote = a.Conn.RemoteAddr().String()
		o.admitted, o.closed = a.Ready && !a.Closed, a.Closed
		o.detail = fmt.Sprintf("statuses=%v failed=%q closed=%v", a.Status, a.Failed, a.Closed)
		a.Leave(false)
	case "rtsp_sub":
		url := fmt.Sprintf("rtsp://127.0.0.1:%d/live/%s", PortRtsp, sq)
		a := actors.NewRtspClient(k, name, "play", url, tcp)
		a.ClientPort = 22000 + 10*idx
		a.Connect(PortRtsp, 20+idx)
		k.Settle()
		l.feed(k, 4)
		o.remote = a.Conn.RemoteAddr().String()
		o.media = len(a.SdpRecv) + len(a.Rtp)
		o.admitted, o.closed = a.DescribeOK && !a.Closed, a.Closed
		o.detail = fmt.Sprintf("statuses=%v failed=%q sdp=%d rtp=%d closed=%v", a.Status, a.Failed, len(a.SdpRecv), len(a.Rtp), a.Closed)
		a.Leave(false)
	}
	k.Settle()
	return o
}

func c14SessionListed(k *sim.Kernel, w *World, remote string, n int) bool {
	res := w.Api(fmt.Sprintf("api-stat-%d", n), "/api/stat/all_group", nil)
	return res.Done && strings.Contains(string(res.Body), `"`+remote+`"`)
}

func c14Notified(w *World, remote string) bool {
	for _, e := range w.Notify.Snapshot() {
		if e.Remote == remote && (e.Kind == "pub_start" || e.Kind == "sub_start") {
			return true
		}
	}
	return false
}

func runC14(k *sim.Kernel, p C14Plan) {
	w := StartWorld(k, p.Conf)
	switch p.Kind {
	case "auth":
		runC14Auth(k, w, p)
	case "rtspauth":
		runC14RtspAuth(k, w, p)
	case "kick":
		runC14Kick(k, w, p)
	case "blacklist":
		runC14Blacklist(k, w, p)
	case "hlspath":
		runC14HlsPath(k, w, p)
	case "pubname":
		runC14PubName(k, w, p)
	}
	k.Probe("c14_" + p.Kind)
}

func runC14Auth(k *sim.Kernel, w *World, p C14Plan) {
	l := c14StartLive(k, w, "au1", p.Conf, 60)
	if !l.pub.Ready || l.pub.Closed {
		k.Violate("C14.auth-valid-rejected", "an RTMP publish carrying the secret derived from the configured key and the stream name was refused (%s)", l.pub)
	}
	havePlaylist := false
	if _, ok := k.FS.File("/simhls/au1/playlist.m3u8"); ok {
		havePlaylist = true
	}
	for i, rq := range p.Reqs {
		stream := "au1"
		if strings.HasSuffix(rq.Proto, "_pub") {
			stream = fmt.Sprintf("ap%d", i)
		}
		if rq.Proto == "hls_m3u8" && !havePlaylist {
			continue
		}
		q, valid := c14Query(rq.Secret, keyOf(p.Conf), p.Conf.AuthOverride, stream)
		flag := p.Conf.Auth[c14AuthFlag[rq.Proto]]
		authorised := !flag || valid
		o := c14Do(k, w, l, i, rq.Proto, stream, q, p.Tcp)
		who := fmt.Sprintf("request %d (%s, secret form %q, flag %s=%v, key %q, override %q)", i, rq.Proto, rq.Secret, c14AuthFlag[rq.Proto], flag, keyOf(p.Conf), p.Conf.AuthOverride)
		if authorised && !o.admitted {
			rule := "C14.auth-valid-rejected"
			if !flag {
				rule = "C14.auth-flag-off-affected"
			}
			k.Violate(rule, "%s is authorised but was not admitted: %s", who, o.detail)
		}
		if !authorised {
			if o.admitted || o.media > 0 {
				k.Violate("C14.auth-invalid-admitted", "%s is not authorised but was admitted / received %d units of media or description: %s", who, o.media, o.detail)
			}
			if c14Notified(w, o.remote) {
				k.Violate("C14.auth-invalid-admitted", "%s is not authorised but a start notification was emitted for it", who)
			}
			if c14SessionListed(k, w, o.remote, i) {
				k.Violate("C14.auth-invalid-admitted", "%s is not authorised but its address %s is listed as a session by the stat API", who, o.remote)
			}
		}
		if flag {
			k.Probe("c14_auth_judged_flag_on")
		}
		k.Probe("nontrivial")
	}
	if l.pub.Closed {
		k.Violate("C14.auth-bystander", "the admitted publisher was disconnected while other requests were judged")
	}
}

func runC14RtspAuth(k *sim.Kernel, w *World, p C14Plan) {
	l := c14StartLive(k, w, "ra1", p.Conf, 40)
	method := []string{"basic", "digest"}[p.Conf.RtspAuthMethod]
	for i, cred := range p.Creds {
		a := actors.NewRtspClient(k, fmt.Sprintf("req%d", i), "play", fmt.Sprintf("rtsp://127.0.0.1:%d/live/ra1", PortRtsp), p.Tcp)
		a.ClientPort = 22000 + 10*i
		a.DescribeOnly = true
		want := false
		judged := true
		switch cred {
		case "none":
		case "right":
			a.User, a.Pass = "simuser", "simpass"
			want = true
		case "wrong_pass":
			a.User, a.Pass = "simuser", "simpasz"
		case "wrong_user":
			a.User, a.Pass = "simusex", "simpass"
		case "other_method":
			// right user / password, but presented with the method that is not configured, without waiting for a challenge
			a.User, a.Pass = "simuser", "simpass"
			if method == "basic" {
				a.ForceAuth = "digest"
			} else {
				a.ForceAuth = "basic"
			}
		case "forged_nonce":
			// correct digest for a nonce the server never issued on this connection: the property does not say
			// whether that counts as valid; recorded, not judged
			a.User, a.Pass = "simuser", "simpass"
			a.ForceAuth = method
			judged = method == "basic"
			want = method == "basic"
		case "bad_b64", "no_colon", "three_parts", "empty_basic", "bare_digest", "bearer":
			// credentials that cannot be parsed into a user and a password (or a complete digest): never valid; sent on the
			// first DESCRIBE (even positions) or in answer to the challenge (odd positions)
			a.RawAuth = map[string]string{
				"bad_b64":     "Basic !!!not-base64!!!",
				"no_colon":    "Basic " + base64.StdEncoding.EncodeToString([]byte("simuser")),
				"three_parts": "Basic " + base64.StdEncoding.EncodeToString([]byte("simuser:sim:pass")),
				"empty_basic": "Basic ",
				"bare_digest": `Digest username="simuser"`,
				"bearer":      "Bearer simpass",
			}[cred]
			if i%2 == 0 {
				a.ForceAuth = "raw"
			}
		}
		a.Connect(PortRtsp, 20+i)
		k.Settle()
		l.feed(k, 2)
		who := fmt.Sprintf("DESCRIBE %d (configured method %s, credentials %q)", i, method, cred)
		if cred == "none" {
			if len(a.Status) < 2 || a.Status[len(a.Status)-1] != 401 || !strings.HasPrefix(a.Challenge, map[string]string{"basic": "Basic", "digest": "Digest"}[method]) {
				k.Violate("C14.rtsp-no-challenge", "%s: expected a 401 with a %s challenge, got statuses %v challenge %q closed=%v", who, method, a.Status, a.Challenge, a.Closed)
			}
		}
		if judged {
			if want && !a.DescribeOK {
				k.Violate("C14.rtsp-valid-rejected", "%s carries valid credentials of the configured method but got no stream description: statuses %v, %s, closed=%v", who, a.Status, a.Failed, a.Closed)
			}
			if !want && (a.DescribeOK || len(a.SdpRecv) > 0) {
				k.Violate("C14.rtsp-invalid-admitted", "%s got the stream description without valid credentials of the configured method (statuses %v)", who, a.Status)
			}
			k.Probe("nontrivial")
		} else {
			k.Probe("c14_rtsp_forged_nonce_" + fmt.Sprint(a.DescribeOK))
		}
		a.Leave(false)
		k.Settle()
	}
}

func runC14Kick(k *sim.Kernel, w *World, p C14Plan) {
	l := c14StartLive(k, w, "kk1", p.Conf, 40)
	rr := &RelayRun{W: w}
	for i, kind := range p.Kicks {
		var conn *sim.Conn
		var closed func() bool
		stream := "kk1"
		name := fmt.Sprintf("vic%d", i)
		switch kind {
		case "rtmp_pub":
			stream = fmt.Sprintf("kp%d", i)
			a := actors.NewRtmpClient(k, name, actors.RolePublish, "live", stream)
			a.Connect(PortRtmp, 20+i)
			k.Settle()
			for _, u := range admUnits(1, 6, true) {
				a.Publish(u.Msg)
			}
			conn, closed = a.Conn, func() bool { return a.Closed }
		case "rtmp_sub":
			a := actors.NewRtmpClient(k, name, actors.RolePlay, "live", stream)
			a.Connect(PortRtmp, 20+i)
			conn, closed = a.Conn, func() bool { return a.Closed }
		case "flv_sub", "ts_sub":
			mode := map[string]string{"flv_sub": "flv", "ts_sub": "ts"}[kind]
			a := actors.NewHttpClient(k, name, mode, "/live/"+stream+"."+mode)
			a.Connect(PortHttp, 20+i)
			conn, closed = a.Conn, func() bool { return a.Closed }
		case "rtsp_pub":
			stream = fmt.Sprintf("kp%d", i)
			a := actors.NewRtspClient(k, name, "pub", fmt.Sprintf("rtsp://127.0.0.1:%d/live/%s", PortRtsp, stream), p.Tcp)
			pl := C07Plan{Video: "avc", Audio: "aac", AacSrIdx: 4, SdpParams: true, MaxPayload: 1200}
			a.Sdp = buildC07(&pl).sdp()
			a.Tracks = actors.ParseSdpTracks(a.Sdp)
			a.ClientPort = 22000 + 10*i
			a.Connect(PortRtsp, 20+i)
			conn, closed = a.Conn, func() bool { return a.Closed }
		case "rtsp_sub", "rtsp_desc":
			// rtsp_desc: a player that has the description but has not sent SETUP / PLAY yet (listed by the stat API already)
			a := actors.NewRtspClient(k, name, "play", fmt.Sprintf("rtsp://127.0.0.1:%d/live/%s", PortRtsp, stream), p.Tcp)
			a.ClientPort = 22000 + 10*i
			a.DescribeOnly = kind == "rtsp_desc"
			a.Connect(PortRtsp, 20+i)
			conn, closed = a.Conn, func() bool { return a.Closed }
		}
		if kind == "hls_sub" {
			c14KickHlsSub(k, w, l, rr, i)
			continue
		}
		k.Settle()
		l.feed(k, 3)
		if conn == nil || closed() {
			continue
		}
		id := rr.sessionIdOf(conn.RemoteAddr().String())
		if id == "" {
			id = c14StatSessionId(w, stream, conn.RemoteAddr().String(), i)
		}
		if id == "" {
			continue // no session was established (e.g. the RTSP player still waits for the description)
		}
		body, _ := json.Marshal(map[string]string{"stream_name": stream, "session_id": id})
		res := w.Api(fmt.Sprintf("api-kick-%d", i), "/api/ctrl/kick_session", body)
		k.Settle()
		l.feed(k, 2)
		if !res.Done || res.ErrorCode() != 0 {
			k.Violate("C14.kick-refused", "kick_session for the live %s session %s answered %d / %s", kind, id, res.Status, res.Body)
		}
		if !closed() {
			k.Violate("C14.kick-not-disconnected", "kick_session(%s) succeeded for the %s session but its connection is still open", id, kind)
		}
		k.Probe("nontrivial")
	}
	if l.pub.Closed {
		k.Violate("C14.kick-bystander", "the publisher that was not kicked got disconnected")
	}
}

// c14StatSessionId looks a session up by its peer address in what the stat API lists for the stream.
func c14StatSessionId(w *World, stream, remote string, n int) string {
	res := w.Api(fmt.Sprintf("api-stat-id-%d", n), "/api/stat/group?stream_name="+stream, nil)
	var g struct {
		Data struct {
			Subs []struct {
				SessionId  string `json:"session_id"`
				RemoteAddr string `json:"remote_addr"`
			} `json:"subs"`
		} `json:"data"`
	}
	if !res.Done || json.Unmarshal(res.Body, &g) != nil {
		return ""
	}
	for _, s := range g.Data.Subs {
		if s.RemoteAddr == remote {
			return s.SessionId
		}
	}
	return ""
}

// c14KickHlsSub: a player in HLS sub-session mode (302 to the playlist URL with a session_id) is kicked through the API.
// Its "connection" is the session id: afterwards (the reaper runs once a second) requests carrying that id must get no
// content and the session must no longer be listed, although the player keeps polling.
func c14KickHlsSub(k *sim.Kernel, w *World, l *c14Live, rr *RelayRun, i int) {
	if _, ok := k.FS.File("/simhls/kk1/playlist.m3u8"); !ok {
		return
	}
	a := c14HlsGet(k, fmt.Sprintf("vic%d", i), "/hls/kk1.m3u8", 20+i)
	loc := a.Resp.Headers["location"]
	remote := a.Conn.RemoteAddr().String()
	a.Leave(false)
	if a.Resp.Status != 302 || !strings.Contains(loc, "session_id=") {
		k.Violate("C14.hls-sub-no-session", "sub-session mode is on but the first playlist request got status %d location %q", a.Resp.Status, loc)
		return
	}
	poll := func(n int) (int, int) {
		b := c14HlsGet(k, fmt.Sprintf("vic%d-poll%d", i, n), loc, 20+i)
		defer b.Leave(false)
		return b.Resp.Status, len(b.Resp.Body)
	}
	if st, n := poll(0); st != 200 || n == 0 {
		k.Violate("C14.hls-sub-no-session", "the redirected playlist request %q got status %d with %d bytes", loc, st, n)
		return
	}
	id := rr.sessionIdOf(remote)
	if !strings.HasPrefix(id, "HLSSUB") {
		return
	}
	body, _ := json.Marshal(map[string]string{"stream_name": "kk1", "session_id": id})
	res := w.Api(fmt.Sprintf("api-kick-%d", i), "/api/ctrl/kick_session", body)
	k.Settle()
	if !res.Done || res.ErrorCode() != 0 {
		k.Violate("C14.kick-refused", "kick_session for the live hls_sub session %s answered %d / %s", id, res.Status, res.Body)
		return
	}
	// the player keeps polling (which keeps the session from expiring) while the reaper gets its turn
	for n := 1; n <= 6; n++ {
		k.Advance(400 * time.Millisecond)
		l.feed(k, 1)
		st, got := poll(n)
		if n >= 4 && st == 200 && got > 0 {
			k.Violate("C14.kick-not-disconnected", "kick_session(%s) succeeded for the hls_sub session but %d ms later a request with its session_id still gets the playlist (%d bytes)", id, n*400, got)
			return
		}
	}
	st := w.Api(fmt.Sprintf("api-stat-hls-%d", i), "/api/stat/group?stream_name=kk1", nil)
	if st.Done && strings.Contains(string(st.Body), `"`+id+`"`) {
		k.Violate("C14.kick-not-disconnected", "kick_session(%s) succeeded for the hls_sub session but it is still listed by the stat API", id)
	}
	k.Probe("c14_kick_hls_sub")
	k.Probe("nontrivial")
}

// C14Add is one more add_ip_blacklist call for the address that is already (or was) listed.
type C14Add struct {
	AfterMs int  `json:"after_ms"` // simulated time since the previous add
	Dur     int  `json:"dur"`
	Probe   bool `json:"probe"` // request the playlist from the address just before this add
}

func c14HlsGet(k *sim.Kernel, name, path string, ipk int) *actors.HttpClient {
	a := actors.NewHttpClient(k, name, "get", path)
	a.Connect(PortHttp, ipk)
	k.Settle()
	return a
}

func runC14Blacklist(k *sim.Kernel, w *World, p C14Plan) {
	c14StartLive(k, w, "bl1", p.Conf, 80)
	if _, ok := k.FS.File("/simhls/bl1/playlist.m3u8"); !ok {
		return
	}
	// every probe asks for the playlist and for a segment the playlist listed when the address was still admitted
	// ("no HLS content" covers both); segServed tells whether the last probe got segment bytes
	segPath, segServed := "", false
	get := func(tag string, ipk int) (bool, *actors.HttpClient) {
		a := c14HlsGet(k, tag, "/hls/bl1/playlist.m3u8", ipk)
		ok := a.Resp.HeaderDone && a.Resp.Status == 200 && strings.Contains(string(a.Resp.Body), "#EXTM3U")
		a.Leave(false)
		k.Settle()
		if ok && segPath == "" {
			for _, l := range strings.Split(string(a.Resp.Body), "\n") {
				if l = strings.TrimSpace(l); strings.HasSuffix(l, ".ts") {
					segPath = "/hls/bl1/" + l
				}
			}
		}
		segServed = false
		if segPath != "" {
			b := c14HlsGet(k, tag+"-seg", segPath, ipk)
			segServed = b.Resp.HeaderDone && b.Resp.Status == 200 && len(b.Resp.Body) >= 188
			b.Leave(false)
			k.Settle()
		}
		return ok, a
	}
	if ok, a := get("pre", 33); !ok {
		k.Violate("C14.blacklist-unlisted-denied", "an address that is not black-listed got no playlist (status %d)", a.Resp.Status)
	}
	body, _ := json.Marshal(map[string]interface{}{"ip": "10.0.33.1", "duration_sec": p.Dur})
	res := w.Api("api-bl", "/api/ctrl/add_ip_blacklist", body)
	if !res.Done || res.ErrorCode() != 0 {
		k.Violate("C14.blacklist-api", "add_ip_blacklist answered %d / %s", res.Status, res.Body)
	}
	t0 := k.NowMs()
	// further adds for the same address: whatever the semantics of a re-add (latest wins / longest wins), the address
	// is denied while the latest add has not expired and admitted once every add has
	maxEnd := t0 + int64(p.Dur)*1000
	lastEnd := maxEnd
	for i, ad := range p.Adds {
		k.Advance(time.Duration(ad.AfterMs) * time.Millisecond)
		if ad.Probe {
			ok, a := get(fmt.Sprintf("between%d", i), 33)
			now := k.NowMs()
			if (ok || segServed) && now < lastEnd-600 {
				k.Violate("C14.blacklist-served", "the black-listed address got the playlist (%v) / a segment (%v) %d ms before the expiry of its latest listing", ok, segServed, lastEnd-now)
			}
			if !ok && now > maxEnd+2100 {
				k.Violate("C14.blacklist-not-expired", "the address is still denied %d ms after every listing expired (status %d)", now-maxEnd, a.Resp.Status)
			}
		}
		body, _ := json.Marshal(map[string]interface{}{"ip": "10.0.33.1", "duration_sec": ad.Dur})
		if res := w.Api(fmt.Sprintf("api-bl%d", i), "/api/ctrl/add_ip_blacklist", body); !res.Done || res.ErrorCode() != 0 {
			k.Violate("C14.blacklist-api", "add_ip_blacklist answered %d / %s", res.Status, res.Body)
		}
		lastEnd = k.NowMs() + int64(ad.Dur)*1000
		if lastEnd > maxEnd {
			maxEnd = lastEnd
		}
		k.Probe("c14_blacklist_readd")
	}
	if len(p.Adds) > 0 {
		for i, frac := range []int64{0, 500, 1000} {
			at := k.NowMs()
			if frac > 0 {
				at = lastEnd - int64(p.Adds[len(p.Adds)-1].Dur)*(1000-frac) - 600*frac/1000
			}
			if d := at - k.NowMs(); d > 0 {
				k.Advance(time.Duration(d) * time.Millisecond)
			}
			if k.NowMs() >= lastEnd-500 {
				break
			}
			if ok, a := get(fmt.Sprintf("re%d", i), 33); ok || segServed || strings.Contains(string(a.Resp.Body), "#EXT") {
				k.Violate("C14.blacklist-served", "the address got the playlist or a segment %d ms before the expiry of its latest listing (%d listings)", lastEnd-k.NowMs(), 1+len(p.Adds))
			}
		}
		if d := maxEnd + 2100 - k.NowMs(); d > 0 {
			k.Advance(time.Duration(d) * time.Millisecond)
		}
		if ok, a := get("after", 33); !ok {
			k.Violate("C14.blacklist-not-expired", "the address is still denied %d ms after every one of its %d listings expired (status %d)", k.NowMs()-maxEnd, 1+len(p.Adds), a.Resp.Status)
		}
		k.Probe("nontrivial")
		return
	}
	// before expiry: several instants, the last one just inside the window
	for i, at := range []int{0, p.Dur * 500, p.Dur*1000 - 600} {
		if d := int64(at) - (k.NowMs() - t0); d > 0 {
			k.Advance(time.Duration(d) * time.Millisecond)
		}
		if ok, a := get(fmt.Sprintf("in%d", i), 33); ok || segServed || strings.Contains(string(a.Resp.Body), "#EXT") {
			k.Violate("C14.blacklist-served", "the black-listed address got the playlist or a segment %d ms after being listed for %d s", k.NowMs()-t0, p.Dur)
		}
		if ok, a := get(fmt.Sprintf("other%d", i), 34); !ok {
			k.Violate("C14.blacklist-unlisted-denied", "another address got no playlist while 10.0.33.1 was black-listed (status %d)", a.Resp.Status)
		}
	}
	// after expiry (one second of slack for the second-granularity clock)
	if d := int64(p.Dur*1000+2100) - (k.NowMs() - t0); d > 0 {
		k.Advance(time.Duration(d) * time.Millisecond)
	}
	if ok, a := get("after", 33); !ok {
		k.Violate("C14.blacklist-not-expired", "the address is still denied %d ms after being black-listed for %d s (status %d)", k.NowMs()-t0, p.Dur, a.Resp.Status)
	}
	k.Probe("nontrivial")
}

func runC14HlsPath(k *sim.Kernel, w *World, p C14Plan) {
	// decoys outside the HLS root
	for _, d := range []string{"/playlist.m3u8", "/record.m3u8", "/..-1-0.ts", "/secret/playlist.m3u8", "/secret.m3u8", "/etc/passwd.m3u8", "/simhls2/playlist.m3u8"} {
		_ = k.FS.MkdirAll(d[:strings.LastIndex(d, "/")+1], 0o755)
		_ = k.FS.WriteFile(d, []byte("#EXTM3U\nDECOY-OUTSIDE-ROOT "+d+"\n"), 0o644)
	}
	c14StartLive(k, w, "hp", p.Conf, 80)
	from := k.FS.OpsLen()
	for i, path := range p.Paths {
		a := c14HlsGet(k, fmt.Sprintf("get%d", i), path, 20+i)
		body := string(a.Resp.Body)
		if strings.Contains(body, "DECOY-OUTSIDE-ROOT") {
			k.Violate("C14.hls-outside-root", "GET %s returned a file outside the HLS root: %q", path, head([]byte(body), 80))
		}
		ops := k.FS.OpsSnapshot()
		for _, op := range ops[from:] {
			if (op.Kind == "readfile" || op.Kind == "open") && !strings.HasPrefix(op.Path, "/simhls/") {
				k.Violate("C14.hls-outside-root", "GET %s made the HLS file server read %s, outside its root /simhls/", path, op.Path)
			}
		}
		from = len(ops)
		a.Leave(false)
		k.Settle()
		k.Probe("nontrivial")
	}
}

func runC14PubName(k *sim.Kernel, w *World, p C14Plan) {
	from := k.FS.OpsLen()
	for i, name := range p.Names {
		a := actors.NewRtmpClient(k, fmt.Sprintf("pub%d", i), actors.RolePublish, "live", name)
		a.Connect(PortRtmp, 20+i)
		k.Settle()
		for _, u := range admUnits(i, 60, true) {
			a.Publish(u.Msg)
		}
		k.Settle()
		a.Leave(false)
		k.Settle()
		k.Advance(12 * time.Second) // delayed HLS cleanup
		k.Settle()
		for _, op := range k.FS.OpsSnapshot()[from:] {
			switch op.Kind {
			case "remove", "removeall":
				if !strings.HasPrefix(op.Path, "/simhls/") {
					k.Probe("c14_remove_outside_or_of_root") // the property speaks about creating and writing only
				}
			case "create", "write", "rename", "mkdirall", "writefile":
				for _, pth := range []string{op.Path, op.Path2} {
					if pth != "" && !strings.HasPrefix(pth, "/simhls/") && !(op.Kind == "mkdirall" && pth == "/simhls") {
						k.Violate("C14.write-outside-root", "publishing stream name %q made lal %s %s, outside the HLS root /simhls/", name, op.Kind, pth)
					}
				}
			case "oscreate", "osmkdirall":
				if !strings.HasPrefix(op.Path, "/simrec/") && op.Path != "/simrec" {
					k.Violate("C14.write-outside-root", "publishing stream name %q made lal %s %s, outside the record roots /simrec/", name, op.Kind, op.Path)
				}
			}
		}
		from = k.FS.OpsLen()
		k.Probe("nontrivial")
	}
}

func init() {
	Register(&Check{
		ID:    "C14",
		Gen:   func(r *sim.Rng, tier string) json.RawMessage { return mustJSON(genC14Plan(r, tier)) },
		Sched: func(plan json.RawMessage) sim.SchedParams { var p C14Plan; fromJSON(plan, &p); return p.Sched },
		Run: func(k *sim.Kernel, plan json.RawMessage) {
			var p C14Plan
			fromJSON(plan, &p)
			runC14(k, p)
		},
		Shrink: func(plan json.RawMessage) []json.RawMessage {
			var p C14Plan
			fromJSON(plan, &p)
			var out []json.RawMessage
			add := func(q C14Plan) { out = append(out, mustJSON(q)) }
			for i := range p.Reqs {
				q := p
				q.Reqs = append(append([]C14Req(nil), p.Reqs[:i]...), p.Reqs[i+1:]...)
				add(q)
			}
			for i := range p.Creds {
				q := p
				q.Creds = append(append([]string(nil), p.Creds[:i]...), p.Creds[i+1:]...)
				add(q)
			}
			for i := range p.Kicks {
				q := p
				q.Kicks = append(append([]string(nil), p.Kicks[:i]...), p.Kicks[i+1:]...)
				add(q)
			}
			for i := range p.Paths {
				q := p
				q.Paths = append(append([]string(nil), p.Paths[:i]...), p.Paths[i+1:]...)
				add(q)
			}
			for i := range p.Names {
				q := p
				q.Names = append(append([]string(nil), p.Names[:i]...), p.Names[i+1:]...)
				add(q)
			}
			if p.Sched.Chaos > 0 || p.Sched.Preempt > 0 {
				q := p
				q.Sched.Chaos, q.Sched.Preempt = 0, 0
				add(q)
			}
			for _, f := range c14Protos {
				f = c14AuthFlag[f]
				if v := p.Conf.Auth[f]; v {
					q := p
					q.Conf.Auth = map[string]bool{}
					for f2, v2 := range p.Conf.Auth {
						q.Conf.Auth[f2] = v2 && f2 != f
					}
					add(q)
				}
			}
			return out
		},
		Shape: func(plan json.RawMessage) string {
			var p C14Plan
			fromJSON(plan, &p)
			s := p.Kind
			for _, r := range p.Reqs {
				s += "," + r.Proto[:4] + ":" + r.Secret
			}
			for _, c := range p.Creds {
				s += "," + c
			}
			s += fmt.Sprint(p.Kicks, len(p.Paths), p.Names, p.Conf.RtspAuthMethod)
			return s
		},
		Brief: func(plan json.RawMessage) interface{} {
			var p C14Plan
			fromJSON(plan, &p)
			return map[string]interface{}{"kind": p.Kind, "reqs": p.Reqs, "creds": p.Creds, "kicks": p.Kicks, "paths": p.Paths, "names": p.Names, "auth": p.Conf.Auth, "override": p.Conf.AuthOverride}
		},
	})
}

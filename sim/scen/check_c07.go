package scen

import (
	"bytes"
	"encoding/base64"
	"encoding/hex"
	"encoding/json"
	"fmt"
	"math"
	"time"

	"simlal/sim"
	"simlal/sim/actors"
	"simlal/sim/media"
	"simlal/sim/rtpc"
)

// C07: a stream published over RTSP (UDP or interleaved TCP) reaches RTMP / HTTP-FLV consumers with the same
// NAL units and audio frames, sequence headers built from the publisher's parameter sets, key frames flagged,
// timestamps = source timestamps in ms up to one constant per track (no drift), and unchanged by reordering /
// duplication inside the jitter window and by sequence-number wrap-around.

type C07Nal struct {
	T int `json:"t"` // NAL unit type (codec specific); -1 SPS, -2 PPS, -3 VPS, -4 AUD (resolved per codec)
	N int `json:"n"` // body length
}

type C07Frame struct {
	Track int      `json:"tr"` // 0 video, 1 audio
	Ts    uint64   `json:"ts"` // source timestamp in clock units from the start of the track
	Nals  []C07Nal `json:"nals,omitempty"`
	N     int      `json:"n,omitempty"`   // audio frame length
	Gen   int      `json:"gen,omitempty"` // video: parameter-set generation carried in-band by this frame (T<0 entries)
}

type C07Fault struct {
	Kind  string `json:"kind"` // dup | delay
	Track int    `json:"tr"`
	At    int    `json:"at"` // packet index within the track (>= 1)
	Dist  int    `json:"dist"`
}

type C07Cons struct {
	Proto  string `json:"proto"` // rtmp | flv
	JoinAt int    `json:"join_at"`
}

type C07Plan struct {
	Conf       LalConf         `json:"conf"`
	Sched      sim.SchedParams `json:"sched"`
	Transport  string          `json:"transport"`
	Video      string          `json:"video"`
	Audio      string          `json:"audio"`
	AacSrIdx   int             `json:"aac_sr_idx"`
	SdpParams  bool            `json:"sdp_params"`
	MaxPayload int             `json:"max_payload"`
	UseStap    bool            `json:"use_stap"`
	SeqStart   [2]uint16       `json:"seq_start"`
	TsStart    [2]uint32       `json:"ts_start"`
	Frames     []C07Frame      `json:"frames"`
	Faults     []C07Fault      `json:"faults,omitempty"`
	Cons       []C07Cons       `json:"cons"`
	Batch      int             `json:"batch"`
	Sr         bool            `json:"sr,omitempty"`       // interleave RTCP sender reports
	AacAgg     int             `json:"aac_agg,omitempty"`  // RTSP: up to this many time-contiguous AAC access units share one RTP packet
	AacFrag    int             `json:"aac_frag,omitempty"` // RTSP: AAC access units larger than this many payload bytes are fragmented
	Custom     *C07Custom      `json:"custom,omitempty"`   // Transport == "custom": the customize-pub API
	Ps         *C07Ps          `json:"ps,omitempty"`       // Transport == "gb_udp" | "gb_tcp": GB28181 PS over RTP
	BFrames    bool            `json:"b_frames,omitempty"` // RTSP: video is sent in decode order, so presentation (RTP) timestamps step back inside P,B,B groups
}

// C07Custom: how the customize-pub caller hands frames over.
type C07Custom struct {
	Annexb bool  `json:"annexb"`  // video as Annex-B instead of the default AVCC
	Adts   bool  `json:"adts"`    // AAC with ADTS headers instead of raw + FeedAudioSpecificConfig
	BaseMs int64 `json:"base_ms"` // timestamp of the first frame
}

// C07Ps: one PS packing of the frames.
type C07Ps struct {
	PesMax    int  `json:"pes_max"`               // PES payload limit (a frame larger than this spans several PES packets)
	Dts       bool `json:"dts"`                   // PES headers carry DTS (= PTS) as well
	PtsOnCont bool `json:"pts_on_cont"`           // continuation PES packets of a frame repeat the PTS
	HdrStuff  int  `json:"hdr_stuff"`             // stuffing bytes in PES headers
	PackStuff int  `json:"pack_stuff"`            // stuffing bytes in pack headers
	SysHdr    bool `json:"sys_hdr"`               // system header in front of each PSM
	Start3    bool `json:"start3"`                // 3-byte start codes on the non-first slices of a frame
	PsmAll    bool `json:"psm_all"`               // PSM in every pack instead of only in key-frame packs
	AudioIn   bool `json:"audio_in"`              // an audio frame that directly follows a video frame rides in that frame's pack
	AacPerPes int  `json:"aac_per_pes,omitempty"` // 2: two consecutive AAC frames share one PES packet (PTS of the first)
}

func (p *C07Plan) kind() string {
	switch p.Transport {
	case "custom":
		return "custom"
	case "gb_udp", "gb_tcp":
		return "gb"
	}
	return "rtsp"
}

var aacRates = []int{96000, 88200, 64000, 48000, 44100, 32000, 24000, 22050, 16000, 12000, 11025, 8000, 7350}

func (p *C07Plan) clock(track int) int {
	if track == 0 {
		return 90000
	}
	switch p.Audio {
	case "aac":
		return aacRates[p.AacSrIdx]
	case "opus":
		return 48000
	}
	return 8000
}

func genC07Plan(r *sim.Rng, tier string) C07Plan {
	var p C07Plan
	p.Conf = LalConf{RtmpGop: r.Intn(3), FlvEnable: true, FlvGop: r.Intn(3), RtspEnable: true, NoHook: true, ApiEnable: true}
	p.Sched = GenSched(r, tier == "thorough")
	p.Transport = []string{"tcp", "udp", "tcp", "udp", "custom", "gb_udp", "gb_udp", "gb_tcp"}[r.Intn(8)]
	if p.Transport != "gb_udp" && p.Transport != "gb_tcp" {
		// (a GB28181 session is a listening port: it ends by time-out, not with a connection)
		p.Conf.MergeWrite = []int{0, 0, 800, 5000}[r.Intn(4)]
	}
	switch r.Intn(10) {
	case 0:
		p.Video, p.Audio = "avc", ""
	case 1:
		p.Video, p.Audio = "", "aac"
	case 2, 3:
		p.Video, p.Audio = "hevc", "aac"
	default:
		p.Video, p.Audio = "avc", "aac"
	}
	if p.Audio != "" {
		switch r.Intn(8) {
		case 0:
			p.Audio = "pcma"
		case 1:
			p.Audio = "pcmu"
		case 2:
			p.Audio = "opus"
			if p.kind() == "gb" {
				p.Audio = "pcma" // PS carries AAC and G.711 only
			}
		}
	}
	switch p.kind() {
	case "custom":
		p.Custom = &C07Custom{Annexb: r.Bool(0.5), Adts: r.Bool(0.5), BaseMs: int64(r.Intn(1 << 24))}
		if r.Bool(0.3) {
			p.Custom.BaseMs = 0
		}
	case "gb":
		defer func() {
			if p.Audio == "aac" && r.Bool(0.25) {
				p.Ps.AacPerPes, p.Ps.AudioIn = 2, false
			}
		}()
		p.Ps = &C07Ps{PesMax: []int{65535, 65535, 8000, 1400, 300}[r.Intn(5)], Dts: r.Bool(0.3), PtsOnCont: r.Bool(0.5), HdrStuff: []int{0, 0, 1, 3}[r.Intn(4)],
			PackStuff: []int{0, 0, 2, 7}[r.Intn(4)], SysHdr: r.Bool(0.7), Start3: r.Bool(0.3), PsmAll: r.Bool(0.2), AudioIn: r.Bool(0.3)}
	}
	p.AacSrIdx = r.Intn(len(aacRates))
	if r.Bool(0.4) {
		p.AacSrIdx = 4 // 44.1 kHz is what most encoders produce
	}
	p.SdpParams = r.Bool(0.7)
	p.MaxPayload = []int{60, 200, 1000, 1400, 1400}[r.Intn(5)]
	p.UseStap = r.Bool(0.5)
	for i := 0; i < 2; i++ {
		p.SeqStart[i] = uint16(r.Intn(65536))
		if r.Bool(0.3) {
			p.SeqStart[i] = uint16(65536 - 1 - r.Intn(40)) // wrap-around early in the stream
		}
		p.TsStart[i] = uint32(r.Intn(1 << 30))
	}
	nf := 20 + r.Intn(60)
	if tier == "thorough" {
		nf = 40 + r.Intn(400)
	}
	if r.Bool(0.15) {
		nf *= 4 // long runs for the drift clause
	}
	longFrag := false
	if p.kind() == "rtsp" && p.Audio == "aac" {
		if r.Bool(0.3) {
			p.AacFrag = []int{24, 60, 200, 500}[r.Intn(4)]
		} else if r.Bool(0.3) {
			p.AacAgg = 2 + r.Intn(2)
		}
		if r.Bool(0.06) {
			// more fragmented access units than the reorder list has slots, then a perturbed arrival
			longFrag = true
			p.Video = ""
			p.AacFrag = 24
			nf = 1030 + r.Intn(300)
		}
	}
	longFragVideo := false
	if p.kind() == "rtsp" && p.Video != "" && !longFrag && r.Bool(0.05) {
		// the same for video: more fragmented NAL units in one session than the reorder list has slots
		longFragVideo = true
		p.Audio = ""
		p.MaxPayload = 60
		nf = 1060 + r.Intn(200)
	}
	p.Batch = 1 + r.Intn(12)
	// frames: video at a (mostly) constant rate with occasional jitter, audio at the codec's frame duration
	vclock, aclock := 90000, p.clock(1)
	vstep := uint64([]int{3000, 3600, 1500, 3003, 9000}[r.Intn(5)])
	var astep uint64
	var alen func() int
	switch p.Audio {
	case "aac":
		astep = 1024
		alen = func() int { return 8 + r.Intn(700) }
		if r.Bool(0.2) {
			alen = func() int { return 1 + r.Intn(40) } // near-silent frames
		}
	case "opus":
		astep = 960
		alen = func() int {
			if r.Bool(0.12) {
				return 1 // DTX: a frame that is only its TOC byte
			}
			return 4 + r.Intn(300)
		}
	case "pcma", "pcmu":
		astep = 160 * uint64(1+r.Intn(4))
		alen = func() int { return int(astep) }
	}
	irregular := r.Bool(0.3)
	var vt, at uint64
	vi, gen := 0, 0
	gop := 5 + r.Intn(25)
	inBandEvery := []int{0, 1, 2, 3}[r.Intn(4)]
	if p.kind() != "rtsp" {
		p.SdpParams = false // no SDP: parameter sets travel in-band only
	}
	if !p.SdpParams && inBandEvery == 0 {
		inBandEvery = 1
	}
	keys := 0
	for len(p.Frames) < nf {
		// next frame in source-time order
		vms := float64(vt) * 1000 / float64(vclock)
		ams := float64(at) * 1000 / float64(aclock)
		if p.Video != "" && (p.Audio == "" || vms <= ams) {
			f := C07Frame{Track: 0, Ts: vt}
			key := vi%gop == 0
			if r.Bool(0.15) {
				f.Nals = append(f.Nals, C07Nal{T: -4, N: 1})
			}
			if key {
				keys++
				if inBandEvery > 0 && (keys-1)%inBandEvery == 0 {
					if r.Bool(0.3) && keys > 1 {
						gen++
					}
					f.Gen = gen
					if p.Video == "hevc" {
						f.Nals = append(f.Nals, C07Nal{T: -3})
					}
					f.Nals = append(f.Nals, C07Nal{T: -1}, C07Nal{T: -2})
				}
			}
			if r.Bool(0.2) {
				f.Nals = append(f.Nals, C07Nal{T: map[string]int{"avc": 6, "hevc": 39}[p.Video], N: 1 + r.Intn(60)})
			}
			slices := 1
			if r.Bool(0.2) {
				slices = 2 + r.Intn(3)
			}
			for s := 0; s < slices; s++ {
				var t int
				if p.Video == "avc" {
					t = 1
					if key {
						t = 5
					}
				} else {
					t = []int{0, 1, 8, 9}[r.Intn(4)]
					if key {
						t = []int{19, 20, 21, 16}[r.Intn(4)]
					}
				}
				n := 1 + r.Intn(120)
				switch {
				case r.Bool(0.25):
					n = p.MaxPayload - 3 + r.Intn(7)
				case r.Bool(0.3):
					n = p.MaxPayload + r.Intn(4*p.MaxPayload)
				case key && r.Bool(0.3):
					n = 2000 + r.Intn(30000)
				}
				if longFragVideo {
					n = p.MaxPayload + 5 + r.Intn(100) // every slice needs two or three fragments
				}
				if n < 1 {
					n = 1
				}
				f.Nals = append(f.Nals, C07Nal{T: t, N: n})
			}
			p.Frames = append(p.Frames, f)
			vi++
			vt += vstep
			if irregular && r.Bool(0.2) {
				vt += uint64(r.Intn(9000))
			}
		} else {
			p.Frames = append(p.Frames, C07Frame{Track: 1, Ts: at, N: alen()})
			at += astep
			if irregular && r.Bool(0.05) {
				at += astep * uint64(1+r.Intn(20)) // silence gap
			}
		}
	}
	if p.kind() == "rtsp" && p.Video != "" && r.Bool(0.2) {
		// B-frames: each run of three consecutive non-key video frames (presentation order t0 < t1 < t2) is sent as
		// P(t2), B(t0), B(t1)
		p.BFrames = true
		var run []int
		flush := func() {
			for ; len(run) >= 3; run = run[3:] {
				a, b, c := run[0], run[1], run[2]
				p.Frames[a].Ts, p.Frames[b].Ts, p.Frames[c].Ts = p.Frames[c].Ts, p.Frames[a].Ts, p.Frames[b].Ts
			}
			run = run[:0]
		}
		for i, f := range p.Frames {
			if f.Track != 0 {
				continue
			}
			key := false
			for _, n := range f.Nals {
				key = key || n.T == 5 || (p.Video == "hevc" && n.T >= 16 && n.T <= 21)
			}
			if key {
				flush()
			} else {
				run = append(run, i)
			}
		}
		flush()
	}
	if longFragVideo {
		p.Sched.MaxSteps = 900000
		p.Faults = append(p.Faults, C07Fault{Kind: "delay", Track: 0, At: 2*nf - 2 - r.Intn(20), Dist: 1 + r.Intn(3)})
	}
	if longFrag {
		p.Sched.MaxSteps = 600000
		p.Faults = append(p.Faults, C07Fault{Kind: "delay", Track: 1, At: 2*nf - 2 - r.Intn(20), Dist: 1 + r.Intn(3)})
	}
	// faults: duplication and delay inside the jitter window
	if r.Bool(0.6) {
		nfl := 1 + r.Intn(6)
		for i := 0; i < nfl; i++ {
			p.Faults = append(p.Faults, C07Fault{Kind: []string{"dup", "delay"}[r.Intn(2)], Track: r.Intn(2), At: 1 + r.Intn(4*nf), Dist: 1 + r.Intn(6)})
		}
	}
	nc := 1 + r.Intn(3)
	for i := 0; i < nc; i++ {
		c := C07Cons{Proto: []string{"rtmp", "flv"}[r.Intn(2)], JoinAt: -1}
		if r.Bool(0.4) {
			c.JoinAt = r.Intn(nf)
		}
		p.Cons = append(p.Cons, c)
	}
	p.Sr = r.Bool(0.3)
	return p
}

// ---- building the source stream ----------------------------------------------------------------------------------------

type c07Unit struct {
	Track int
	Data  []byte
	Key   bool
	Ts    uint64 // source ts in clock units
	Gen   int    // video: parameter-set generation in force
	Frame int
}

type c07Src struct {
	plan   *C07Plan
	units  [2][]c07Unit      // expected forwardable units per track
	pkts   [2][]rtpc.Packet  // packets per track in sequence order
	fpk    [][]int           // per frame: indices into pkts[track]
	gens   map[int][3][]byte // generation -> vps, sps, pps
	genAt  []int             // per video unit: generation in force (-1 none)
	sdpGen int               // generation announced in the SDP (-1 none)
	order  [2][]int          // per track: send order (indices into pkts, with duplicates)
	sentTo [2]int            // how many entries of order were sent
	pktEnd [2][]int          // per track: for each unit the index (in pkts) of its last packet
	raw    [][][]byte        // per frame: every NAL unit (video) or the one audio frame, as the publisher has them
	lastFr [2]int            // per track: index of its last frame (-1 none)
	tailFr map[int]bool      // PS: frames carried by the last PES of their track (a PES is only complete when the next one starts)
}

func (p *C07Plan) paramSets(gen int) (vps, sps, pps []byte) {
	if p.Video == "hevc" {
		return media.HevcParamSets(7, gen)
	}
	sps, pps = media.AvcParamSets(7, gen)
	return nil, sps, pps
}

func buildC07(p *C07Plan) *c07Src {
	s := &c07Src{plan: p, gens: map[int][3][]byte{}, sdpGen: -1, lastFr: [2]int{-1, -1}, tailFr: map[int]bool{}}
	kind := p.kind()
	var ps *psPacker
	if kind == "gb" {
		ps = newPsPacker(p)
	}
	cur := -1
	if p.SdpParams && p.Video != "" {
		cur = 0
		s.sdpGen = 0
	}
	pk := [2]*rtpc.Packer{
		{Codec: map[string]rtpc.Codec{"avc": rtpc.H264, "hevc": rtpc.H265, "": rtpc.H264}[p.Video], PT: 96, Ssrc: 0x11110000, Seq: p.SeqStart[0], Max: p.MaxPayload, UseStap: p.UseStap},
		{Codec: rtpc.Raw, PT: 97, Ssrc: 0x22220000, Seq: p.SeqStart[1], Max: 65000},
	}
	if p.AacFrag > 0 {
		pk[1].Max, pk[1].FragAudio = p.AacFrag, true
	}
	if p.Video == "hevc" {
		pk[0].PT = 98
	}
	switch p.Audio {
	case "aac":
		pk[1].Codec = rtpc.AAC
	case "pcma":
		pk[1].PT = 8
	case "pcmu":
		pk[1].PT = 0
	case "opus":
		pk[1].PT = 111
	}
	pairedWithPrev := map[int]bool{}
	for fi, f := range p.Frames {
		var idx []int
		if f.Track == 1 {
			data := media.Body(7, 1, fi, f.N)
			s.units[1] = append(s.units[1], c07Unit{Track: 1, Data: data, Ts: f.Ts, Frame: fi})
			s.raw = append(s.raw, [][]byte{data})
			s.lastFr[1] = fi
			switch kind {
			case "rtsp":
				if pairedWithPrev[fi] {
					// rode in the aggregate packet of an earlier frame
					s.pktEnd[1] = append(s.pktEnd[1], len(s.pkts[1])-1)
					break
				}
				if p.AacAgg > 1 && p.Audio == "aac" && p.AacFrag == 0 {
					group := [][]byte{data}
					size := 2 + 2 + len(data)
					// (a sender aggregates only what still fits into one datagram)
					for x := fi + 1; x < len(p.Frames) && len(group) < p.AacAgg && p.Frames[x].Track == 1 && p.Frames[x].Ts == p.Frames[x-1].Ts+1024 && size+2+p.Frames[x].N <= 1400; x++ {
						group = append(group, media.Body(7, 1, x, p.Frames[x].N))
						size += 2 + p.Frames[x].N
						pairedWithPrev[x] = true
					}
					if len(group) > 1 {
						idx = append(idx, len(s.pkts[1]))
						s.pkts[1] = append(s.pkts[1], pk[1].PackAacAggregate(group, uint32(uint64(p.TsStart[1])+f.Ts)))
						s.pktEnd[1] = append(s.pktEnd[1], len(s.pkts[1])-1)
						break
					}
				}
				for _, q := range pk[1].PackAudio(data, uint32(uint64(p.TsStart[1])+f.Ts)) {
					idx = append(idx, len(s.pkts[1]))
					s.pkts[1] = append(s.pkts[1], q)
				}
				s.pktEnd[1] = append(s.pktEnd[1], len(s.pkts[1])-1)
			case "gb":
				if p.Ps.AudioIn && fi > 0 && p.Frames[fi-1].Track == 0 {
					break // already sent inside the pack of the video frame before it
				}
				if p.Ps.AacPerPes == 2 && p.Audio == "aac" {
					if pairedWithPrev[fi] {
						s.tailFr[fi] = true // rode in the PES of the audio frame before it
						break
					}
					for x := range s.tailFr {
						if p.Frames[x].Track == 1 {
							delete(s.tailFr, x)
						}
					}
					s.tailFr[fi] = true
					// (only frames that are contiguous in time: a PES has one PTS, the second frame's time is implied)
					if fi+1 < len(p.Frames) && p.Frames[fi+1].Track == 1 && p.Frames[fi+1].Ts == f.Ts+1024 {
						pairedWithPrev[fi+1] = true
						data = append(makeAdts(data, p.AacSrIdx, 2), makeAdts(media.Body(7, 1, fi+1, p.Frames[fi+1].N), p.AacSrIdx, 2)...)
						for _, q := range ps.audioRaw(data, f.Ts, fi == 0) {
							idx = append(idx, len(s.pkts[0]))
							s.pkts[0] = append(s.pkts[0], q)
						}
						break
					}
				}
				for _, q := range ps.audio(data, f.Ts, fi == 0) {
					idx = append(idx, len(s.pkts[0]))
					s.pkts[0] = append(s.pkts[0], q)
				}
			}
			s.fpk = append(s.fpk, idx)
			continue
		}
		var nals [][]byte
		var fwd []int // index into nals of forwardable units
		got := 0
		for ni, n := range f.Nals {
			var b []byte
			if n.T < 0 {
				vps, sps, pps := p.paramSets(f.Gen)
				s.gens[f.Gen] = [3][]byte{vps, sps, pps}
				switch n.T {
				case -1:
					b = sps
					got |= 1
				case -2:
					b = pps
					got |= 2
				case -3:
					b = vps
					got |= 4
				case -4:
					if p.Video == "hevc" {
						b = []byte{35 << 1, 1, 0x50}
					} else {
						b = []byte{0x09, 0xf0}
					}
				}
			} else if p.Video == "hevc" {
				b = media.HevcNal(n.T, 0, 1, 7, fi, ni, n.N)
			} else {
				nri := 2
				if n.T == 6 {
					nri = 0
				}
				b = media.AvcNal(n.T, nri, 7, fi, ni, n.N)
			}
			nals = append(nals, b)
			if n.T >= 0 {
				fwd = append(fwd, ni)
			}
		}
		if got&3 == 3 {
			cur = f.Gen
		}
		s.raw = append(s.raw, nals)
		s.lastFr[0] = fi
		anyKey := false
		for _, ni := range fwd {
			n := f.Nals[ni]
			anyKey = anyKey || (p.Video == "avc" && n.T == 5) || (p.Video == "hevc" && n.T >= 16 && n.T <= 23)
		}
		switch kind {
		case "rtsp":
			for _, q := range pk[0].PackVideoAU(nals, uint32(uint64(p.TsStart[0])+f.Ts)) {
				idx = append(idx, len(s.pkts[0]))
				s.pkts[0] = append(s.pkts[0], q)
			}
		case "gb":
			var extra []byte
			if p.Ps.AudioIn && fi+1 < len(p.Frames) && p.Frames[fi+1].Track == 1 {
				extra = ps.audioPes(media.Body(7, 1, fi+1, p.Frames[fi+1].N), p.Frames[fi+1].Ts)
			}
			for _, q := range ps.video(nals, f.Ts, anyKey, fi == 0, extra) {
				idx = append(idx, len(s.pkts[0]))
				s.pkts[0] = append(s.pkts[0], q)
			}
		}
		for _, ni := range fwd {
			n := f.Nals[ni]
			key := (p.Video == "avc" && n.T == 5) || (p.Video == "hevc" && n.T >= 16 && n.T <= 23)
			s.units[0] = append(s.units[0], c07Unit{Track: 0, Data: nals[ni], Key: key, Ts: f.Ts, Gen: cur, Frame: fi})
			// the unit is complete, at the latest, with the frame's last packet
			s.pktEnd[0] = append(s.pktEnd[0], len(s.pkts[0])-1)
		}
		s.fpk = append(s.fpk, idx)
	}
	if _, ok := s.gens[0]; !ok && s.sdpGen == 0 {
		vps, sps, pps := p.paramSets(0)
		s.gens[0] = [3][]byte{vps, sps, pps}
	}
	// send order per track with the faults applied
	for t := 0; t < 2; t++ {
		n := len(s.pkts[t])
		type ev struct {
			pos float64
			idx int
		}
		var evs []ev
		for i := 0; i < n; i++ {
			evs = append(evs, ev{float64(i), i})
		}
		for fi, f := range p.Faults {
			ft := f.Track
			if kind == "gb" {
				ft = 0 // one RTP stream carries both tracks
			}
			if ft != t || n < 3 {
				continue
			}
			at := 1 + (f.At-1)%(n-1)
			pos := float64(at+f.Dist) + 0.5 + float64(fi)*0.001
			switch f.Kind {
			case "dup":
				evs = append(evs, ev{pos, at})
			case "delay":
				for j := range evs {
					if evs[j].idx == at && evs[j].pos == float64(at) {
						evs[j].pos = pos
					}
				}
			}
		}
		for i := 1; i < len(evs); i++ {
			for j := i; j > 0 && evs[j].pos < evs[j-1].pos; j-- {
				evs[j], evs[j-1] = evs[j-1], evs[j]
			}
		}
		for _, e := range evs {
			s.order[t] = append(s.order[t], e.idx)
		}
	}
	return s
}

func (s *c07Src) sdp() string {
	p := s.plan
	out := "v=0\r\no=- 0 0 IN IP4 127.0.0.1\r\ns=No Name\r\nc=IN IP4 127.0.0.1\r\nt=0 0\r\na=tool:libavformat 58.29.100\r\n"
	sid := 0
	b64 := base64.StdEncoding.EncodeToString
	if p.Video == "avc" {
		out += "m=video 0 RTP/AVP 96\r\na=rtpmap:96 H264/90000\r\n"
		if p.SdpParams {
			g := s.gens[0]
			out += fmt.Sprintf("a=fmtp:96 packetization-mode=1; sprop-parameter-sets=%s,%s; profile-level-id=64001F\r\n", b64(g[1]), b64(g[2]))
		} else {
			out += "a=fmtp:96 packetization-mode=1\r\n"
		}
		out += fmt.Sprintf("a=control:streamid=%d\r\n", sid)
		sid++
	} else if p.Video == "hevc" {
		out += "m=video 0 RTP/AVP 98\r\na=rtpmap:98 H265/90000\r\n"
		if p.SdpParams {
			g := s.gens[0]
			out += fmt.Sprintf("a=fmtp:98 sprop-vps=%s; sprop-sps=%s; sprop-pps=%s\r\n", b64(g[0]), b64(g[1]), b64(g[2]))
		}
		out += fmt.Sprintf("a=control:streamid=%d\r\n", sid)
		sid++
	}
	switch p.Audio {
	case "aac":
		asc := media.AacSeqHeaderPayload(p.AacSrIdx, 2)[2:]
		out += fmt.Sprintf("m=audio 0 RTP/AVP 97\r\nb=AS:128\r\na=rtpmap:97 MPEG4-GENERIC/%d/2\r\na=fmtp:97 profile-level-id=1;mode=AAC-hbr;sizelength=13;indexlength=3;indexdeltalength=3; config=%s\r\n", aacRates[p.AacSrIdx], hex.EncodeToString(asc))
	case "pcma":
		out += "m=audio 0 RTP/AVP 8\r\na=rtpmap:8 PCMA/8000/1\r\n"
	case "pcmu":
		out += "m=audio 0 RTP/AVP 0\r\na=rtpmap:0 PCMU/8000/1\r\n"
	case "opus":
		out += "m=audio 0 RTP/AVP 111\r\na=rtpmap:111 opus/48000/2\r\n"
	}
	if p.Audio != "" {
		out += fmt.Sprintf("a=control:streamid=%d\r\n", sid)
	}
	return out
}

// trackIndex maps plan track (0 video, 1 audio) to the RTSP client's track index.
func (s *c07Src) trackIndex(t int) int {
	if t == 1 && s.plan.Video != "" {
		return 1
	}
	return 0
}

// ---- consumer side -------------------------------------------------------------------------------------------------------

type c07Recv struct {
	Type    uint8
	Ts      uint32
	Payload []byte
}

type c07Out struct {
	Track int
	Data  []byte
	Key   bool
	Ms    uint32
	// the parameter sets of the latest video sequence header before this unit
	Hdr [3][]byte
	Has bool
	Msg int // index of the message that carried the unit
}

func splitAvcc(b []byte) ([][]byte, bool) {
	var out [][]byte
	for len(b) > 0 {
		if len(b) < 4 {
			return out, false
		}
		n := int(b[0])<<24 | int(b[1])<<16 | int(b[2])<<8 | int(b[3])
		if n > len(b)-4 {
			return out, false
		}
		out = append(out, b[4:4+n])
		b = b[4+n:]
	}
	return out, true
}

// parseAvcC extracts sps / pps from an AVCDecoderConfigurationRecord; parseHvcC vps / sps / pps.
func parseAvcC(b []byte) (sps, pps []byte, ok bool) {
	if len(b) < 7 {
		return nil, nil, false
	}
	n := int(b[5] & 0x1f)
	b = b[6:]
	for i := 0; i < n; i++ {
		if len(b) < 2 || len(b) < 2+int(b[0])<<8+int(b[1]) {
			return nil, nil, false
		}
		l := int(b[0])<<8 + int(b[1])
		if i == 0 {
			sps = b[2 : 2+l]
		}
		b = b[2+l:]
	}
	if len(b) < 1 {
		return nil, nil, false
	}
	n = int(b[0])
	b = b[1:]
	for i := 0; i < n; i++ {
		if len(b) < 2 || len(b) < 2+int(b[0])<<8+int(b[1]) {
			return nil, nil, false
		}
		l := int(b[0])<<8 + int(b[1])
		if i == 0 {
			pps = b[2 : 2+l]
		}
		b = b[2+l:]
	}
	return sps, pps, sps != nil && pps != nil
}

func parseHvcC(b []byte) (vps, sps, pps []byte, ok bool) {
	if len(b) < 23 {
		return nil, nil, nil, false
	}
	n := int(b[22])
	b = b[23:]
	for i := 0; i < n; i++ {
		if len(b) < 3 {
			return nil, nil, nil, false
		}
		t := b[0] & 0x3f
		cnt := int(b[1])<<8 | int(b[2])
		b = b[3:]
		for j := 0; j < cnt; j++ {
			if len(b) < 2 || len(b) < 2+int(b[0])<<8+int(b[1]) {
				return nil, nil, nil, false
			}
			l := int(b[0])<<8 + int(b[1])
			v := b[2 : 2+l]
			switch t {
			case 32:
				vps = v
			case 33:
				sps = v
			case 34:
				pps = v
			}
			b = b[2+l:]
		}
	}
	return vps, sps, pps, vps != nil && sps != nil && pps != nil
}

// flattenC07 turns a consumer's messages into per-track unit lists; problems are format violations.
func flattenC07(p *C07Plan, msgs []c07Recv) (out [2][]c07Out, asc []byte, problem string) {
	var hdr [3][]byte
	has := false
	for i, m := range msgs {
		switch m.Type {
		case 9:
			if len(m.Payload) < 5 {
				return out, asc, fmt.Sprintf("video message %d has %d bytes", i, len(m.Payload))
			}
			codec := m.Payload[0] & 0xf
			wantCodec := byte(7)
			if p.Video == "hevc" {
				wantCodec = 12
			}
			if codec != wantCodec {
				return out, asc, fmt.Sprintf("video message %d has codec id %d for a %s stream", i, codec, p.Video)
			}
			key := m.Payload[0]>>4 == 1
			if m.Payload[1] == 0 {
				var ok bool
				if p.Video == "hevc" {
					hdr[0], hdr[1], hdr[2], ok = parseHvcC(m.Payload[5:])
				} else {
					hdr[0] = nil
					hdr[1], hdr[2], ok = parseAvcC(m.Payload[5:])
				}
				if !ok {
					return out, asc, fmt.Sprintf("video sequence header (message %d) does not parse: %x", i, m.Payload)
				}
				has = true
				continue
			}
			nals, ok := splitAvcc(m.Payload[5:])
			if !ok {
				return out, asc, fmt.Sprintf("video message %d is not a list of length-prefixed NAL units", i)
			}
			for _, n := range nals {
				out[0] = append(out[0], c07Out{Track: 0, Data: n, Key: key, Ms: m.Ts, Hdr: hdr, Has: has, Msg: i})
			}
		case 8:
			if len(m.Payload) < 1 {
				return out, asc, fmt.Sprintf("audio message %d is empty", i)
			}
			switch p.Audio {
			case "aac":
				if len(m.Payload) < 2 || m.Payload[0] != 0xaf {
					return out, asc, fmt.Sprintf("audio message %d: header %x for an AAC stream", i, m.Payload[:1])
				}
				if m.Payload[1] == 0 {
					asc = m.Payload[2:]
					continue
				}
				out[1] = append(out[1], c07Out{Track: 1, Data: m.Payload[2:], Ms: m.Ts})
			default:
				want := map[string]byte{"pcma": 0x72, "pcmu": 0x82, "opus": 0xdf}[p.Audio]
				if m.Payload[0] != want {
					return out, asc, fmt.Sprintf("audio message %d: header %02x for a %s stream (want %02x)", i, m.Payload[0], p.Audio, want)
				}
				out[1] = append(out[1], c07Out{Track: 1, Data: m.Payload[1:], Ms: m.Ts})
			}
		}
	}
	return out, asc, ""
}

// judgeC07Track compares one consumer's units of a track with the expected list.
// mustHave[i]: expected unit i can no longer be legitimately withheld. early: the consumer joined before any media.
func judgeC07Track(k *sim.Kernel, s *c07Src, who string, t int, got []c07Out, mustHave []bool, early bool) {
	exp := s.units[t]
	tn := []string{"video", "audio"}[t]
	if len(got) == 0 {
		for i := range exp {
			if mustHave[i] && early {
				k.Violate("C07.missing", "%s: no %s unit arrived although unit %d (frame %d, %d bytes) can no longer be withheld", who, tn, i, exp[i].Frame, len(exp[i].Data))
			}
		}
		return
	}
	// alignment: the first position from which everything received matches
	start := -1
	best, bestAt := -1, -1
	for c := 0; c < len(exp); c++ {
		if !bytes.Equal(exp[c].Data, got[0].Data) {
			continue
		}
		n := 0
		for n < len(got) && c+n < len(exp) && bytes.Equal(exp[c+n].Data, got[n].Data) {
			n++
		}
		if n == len(got) {
			start = c
			break
		}
		if n > best {
			best, bestAt = n, c
		}
	}
	if start < 0 {
		if bestAt < 0 {
			k.Violate("C07.content", "%s: first %s unit received (%d bytes, %x...) is not a published unit", who, tn, len(got[0].Data), head(got[0].Data, 12))
		}
		g := got[best]
		var want string
		if bestAt+best < len(exp) {
			e := exp[bestAt+best]
			want = fmt.Sprintf("published unit %d (frame %d, %d bytes, %x...)", bestAt+best, e.Frame, len(e.Data), head(e.Data, 12))
		} else {
			want = "nothing (the published stream ends there)"
		}
		// classify: duplicate, reordered, corrupted, lost
		kind := "differs from"
		for j := 0; j < len(exp); j++ {
			if bytes.Equal(exp[j].Data, g.Data) {
				switch {
				case j < bestAt+best:
					kind = fmt.Sprintf("repeats / goes back to published unit %d instead of", j)
				default:
					kind = fmt.Sprintf("skips to published unit %d instead of", j)
				}
				break
			}
		}
		k.Violate("C07.content", "%s: %s unit %d received (%d bytes, %x...) %s %s", who, tn, best, len(g.Data), head(g.Data, 12), kind, want)
	}
	if early {
		first := 0
		if t == 0 {
			for first < len(exp) && !exp[first].Key {
				first++
			}
		}
		if start > first && first < len(exp) && mustHave[first] {
			k.Violate("C07.missing", "%s joined before the stream started but its %s starts at published unit %d (frame %d) instead of unit %d (frame %d)", who, tn, start, exp[start].Frame, first, exp[first].Frame)
		}
	}
	end := start + len(got)
	for i := end; i < len(exp); i++ {
		if mustHave[i] {
			k.Violate("C07.missing", "%s: %s ends at published unit %d; unit %d (frame %d, %d bytes) was published and can no longer be withheld", who, tn, end-1, i, exp[i].Frame, len(exp[i].Data))
		}
	}
	// flags, headers, timestamps
	clock := float64(s.plan.clock(t))
	lo, hi := math.Inf(1), math.Inf(-1)
	loAt, hiAt := 0, 0
	for i, g := range got {
		e := exp[start+i]
		if t == 0 {
			// a message is (part of) a key frame iff it carries an IDR / IRAP NAL unit
			if i == 0 || got[i-1].Msg != g.Msg {
				anyKey := false
				for j := i; j < len(got) && got[j].Msg == g.Msg; j++ {
					anyKey = anyKey || exp[start+j].Key
				}
				if anyKey != g.Key {
					k.Violate("C07.key-flag", "%s: the message carrying video unit %d (NAL type byte %02x, frame %d) arrives flagged key=%v but key-frame NAL present=%v", who, start+i, e.Data[0], e.Frame, g.Key, anyKey)
				}
			}
			if e.Gen >= 0 {
				ps := s.gens[e.Gen]
				if !g.Has {
					k.Violate("C07.seq-header", "%s: video unit %d arrives before any video sequence header although parameter sets were published", who, start+i)
				}
				if !bytes.Equal(g.Hdr[1], ps[1]) || !bytes.Equal(g.Hdr[2], ps[2]) || (s.plan.Video == "hevc" && !bytes.Equal(g.Hdr[0], ps[0])) {
					k.Violate("C07.seq-header", "%s: the sequence header in force at video unit %d (frame %d) does not carry the publisher's parameter sets of generation %d: sps %x want %x", who, start+i, e.Frame, e.Gen, g.Hdr[1], ps[1])
				}
			}
		}
		d := float64(g.Ms) - float64(e.Ts)*1000/clock
		if d < lo {
			lo, loAt = d, start+i
		}
		if d > hi {
			hi, hiAt = d, start+i
		}
	}
	if hi-lo > 2.0 {
		k.Violate("C07.timestamp", "%s: %s timestamps are not the source timestamps in ms up to one constant: offset %.2f ms at unit %d but %.2f ms at unit %d (clock %d Hz, %d units)", who, tn, lo, loAt, hi, hiAt, int(clock), len(got))
	}
	k.Probe("c07_units_compared_" + tn)
}

func head(b []byte, n int) []byte {
	if len(b) < n {
		return b
	}
	return b[:n]
}

// ---- run ---------------------------------------------------------------------------------------------------------------

type c07ConsState struct {
	Plan   C07Cons
	Rtmp   *actors.RtmpClient
	Http   *actors.HttpClient
	Joined bool
	Early  bool
}

func (c *c07ConsState) msgs() []c07Recv {
	var out []c07Recv
	if c.Rtmp != nil {
		for _, m := range c.Rtmp.Recv {
			out = append(out, c07Recv{m.Type, m.Ts, m.Payload})
		}
	}
	if c.Http != nil {
		for _, t := range c.Http.Tags {
			out = append(out, c07Recv{t.Type, t.Ts, t.Data})
		}
	}
	return out
}

func runC07(k *sim.Kernel, p C07Plan) {
	w := StartWorld(k, p.Conf)
	_ = w
	src := buildC07(&p)
	stream := "c07s"
	var cons []*c07ConsState
	join := func(c *c07ConsState, i int) {
		name := fmt.Sprintf("cons%d", i)
		if c.Plan.Proto == "rtmp" {
			c.Rtmp = actors.NewRtmpClient(k, name, actors.RolePlay, "live", stream)
			c.Joined = c.Rtmp.Connect(PortRtmp, 10+i)
		} else {
			c.Http = actors.NewHttpClient(k, name, "flv", "/live/"+stream+".flv")
			c.Joined = c.Http.Connect(PortHttp, 10+i)
		}
	}
	for i, cp := range p.Cons {
		c := &c07ConsState{Plan: cp, Early: cp.JoinAt < 0}
		cons = append(cons, c)
		if cp.JoinAt < 0 {
			join(c, i)
		}
	}
	k.Settle()
	var pub c07Pub
	kind := p.kind()
	switch kind {
	case "custom":
		pub = &c07CustomPub{}
	case "gb":
		pub = &c07GbPub{}
	default:
		pub = &c07RtspPub{}
	}
	pub.start(k, w, src, stream)
	sent := [2]int{}
	sendFrame := func(fi int) {
		if kind == "custom" {
			pub.sendFrame(k, src, fi)
			return
		}
		f := p.Frames[fi]
		t := f.Track
		if kind == "gb" {
			t = 0
		}
		n := len(src.fpk[fi])
		for j := 0; j < n && sent[t] < len(src.order[t]); j++ {
			idx := src.order[t][sent[t]]
			sent[t]++
			if !pub.sendPkt(k, src, t, src.pkts[t][idx]) {
				gone, why := pub.gone()
				k.Violate("C07.transport-gone", "the publisher's transport vanished while publishing (closed=%v %s)", gone, why)
			}
		}
		if rp, ok := pub.(*c07RtspPub); ok && p.Sr && fi%7 == 3 && len(src.fpk[fi]) > 0 {
			pkt := src.pkts[t][src.fpk[fi][0]]
			rp.c.SendRaw(src.trackIndex(t), true, rtpc.SenderReport(pkt.Ssrc, 1000+uint32(fi), 0, pkt.Ts, uint32(sent[t]), 0))
		}
	}
	for fi := range p.Frames {
		for i, c := range cons {
			if !c.Joined && c.Plan.JoinAt == fi {
				k.Settle()
				join(c, i)
				k.Settle()
			}
		}
		sendFrame(fi)
		if p.Batch > 0 && fi%p.Batch == p.Batch-1 {
			k.Settle()
		}
	}
	// the tail of the send orders (delayed packets and duplicates that fall behind the last frame)
	for t := 0; t < 2; t++ {
		for sent[t] < len(src.order[t]) {
			pub.sendPkt(k, src, t, src.pkts[t][src.order[t][sent[t]]])
			sent[t]++
		}
	}
	k.Settle()
	if gone, why := pub.gone(); gone {
		k.Violate("C07.publisher-dropped", "lal closed the publishing session of a well-formed stream (%s)", why)
	}
	left := false
	if p.Conf.MergeWrite > 0 {
		// RTMP players are written to in batches: what is still batched must come out when the input ends
		pub.leave(k)
		k.Settle()
		k.Advance(300 * time.Millisecond)
		k.Settle()
		left = true
	}

	// what can no longer be withheld: single-track streams forward immediately; with two tracks a unit may wait
	// until the other track has produced something at least as new (2 ms margin for rounding).
	both := p.Video != "" && p.Audio != ""
	var must [2][]bool
	for t := 0; t < 2; t++ {
		must[t] = make([]bool, len(src.units[t]))
		o := 1 - t
		newestOther := -1.0
		for _, u := range src.units[o] {
			if v := float64(u.Ts) * 1000 / float64(p.clock(o)); v > newestOther {
				newestOther = v // (with B-frames the last unit sent is not the newest)
			}
		}
		ms := -1.0
		for i, u := range src.units[t] {
			// the tracks are queues: a unit waits behind every earlier unit of its track, so what counts is the newest
			// timestamp sent so far (with B-frames timestamps step back inside the track)
			if v := float64(u.Ts) * 1000 / float64(p.clock(t)); v > ms {
				ms = v
			}
			switch kind {
			case "custom":
				must[t][i] = true // handed over frame by frame, nothing to wait for
			case "gb":
				must[t][i] = u.Frame != src.lastFr[t] && !src.tailFr[u.Frame] // a PS access unit is complete when the next one of its track starts
			default:
				must[t][i] = !both || newestOther >= ms+2
			}
		}
	}
	for i, c := range cons {
		if !c.Joined {
			continue
		}
		who := fmt.Sprintf("cons%d(%s,join@%d)", i, c.Plan.Proto, c.Plan.JoinAt)
		if (c.Rtmp != nil && c.Rtmp.Closed) || (c.Http != nil && c.Http.Closed) {
			k.Violate("C07.consumer-dropped", "%s was disconnected while the stream was live", who)
		}
		out, asc, problem := flattenC07(&p, c.msgs())
		if problem != "" {
			k.Violate("C07.format", "%s: %s", who, problem)
		}
		if p.Audio == "aac" && len(out[1]) > 0 {
			want := media.AacSeqHeaderPayload(p.AacSrIdx, 2)[2:]
			if !bytes.Equal(asc, want) {
				k.Violate("C07.seq-header", "%s: AAC sequence header carries AudioSpecificConfig %x, the publisher announced %x", who, asc, want)
			}
		}
		for t := 0; t < 2; t++ {
			judgeC07Track(k, src, who, t, out[t], must[t], c.Early)
		}
		if len(out[0])+len(out[1]) > 0 {
			k.Probe("nontrivial")
		}
	}
	if len(p.Faults) > 0 {
		k.Fault("rtp_reorder_or_dup")
	}
	k.Probe("c07_" + p.Transport)
	if !left {
		pub.leave(k)
	}
	k.Settle()
}

func init() {
	Register(&Check{
		ID:    "C07",
		Gen:   func(r *sim.Rng, tier string) json.RawMessage { return mustJSON(genC07Plan(r, tier)) },
		Sched: func(plan json.RawMessage) sim.SchedParams { var p C07Plan; fromJSON(plan, &p); return p.Sched },
		Run: func(k *sim.Kernel, plan json.RawMessage) {
			var p C07Plan
			fromJSON(plan, &p)
			runC07(k, p)
		},
		Shrink: func(plan json.RawMessage) []json.RawMessage {
			var p C07Plan
			fromJSON(plan, &p)
			var out []json.RawMessage
			add := func(q C07Plan) { out = append(out, mustJSON(q)) }
			if len(p.Faults) > 0 {
				for i := range p.Faults {
					q := p
					q.Faults = append(append([]C07Fault(nil), p.Faults[:i]...), p.Faults[i+1:]...)
					add(q)
				}
			}
			if len(p.Cons) > 1 {
				for i := range p.Cons {
					q := p
					q.Cons = append(append([]C07Cons(nil), p.Cons[:i]...), p.Cons[i+1:]...)
					add(q)
				}
			}
			for _, cut := range []int{len(p.Frames) / 2, len(p.Frames) * 3 / 4, len(p.Frames) - 1} {
				if cut > 0 && cut < len(p.Frames) {
					q := p
					q.Frames = append([]C07Frame(nil), p.Frames[:cut]...)
					add(q)
				}
			}
			if p.Sched.Chaos > 0 || p.Sched.Preempt > 0 {
				q := p
				q.Sched.Chaos, q.Sched.Preempt = 0, 0
				add(q)
			}
			if p.Sr {
				q := p
				q.Sr = false
				add(q)
			}
			return out
		},
		Shape: func(plan json.RawMessage) string {
			var p C07Plan
			fromJSON(plan, &p)
			return fmt.Sprintf("%s/%s/%s/f%d/flt%d/c%d", p.Transport, p.Video, p.Audio, len(p.Frames)/20, len(p.Faults), len(p.Cons))
		},
		Brief: func(plan json.RawMessage) interface{} {
			var p C07Plan
			fromJSON(plan, &p)
			return map[string]interface{}{"transport": p.Transport, "video": p.Video, "audio": p.Audio, "aac_rate": aacRates[p.AacSrIdx], "frames": len(p.Frames), "faults": p.Faults, "cons": p.Cons, "max_payload": p.MaxPayload}
		},
	})
}

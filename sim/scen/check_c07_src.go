package scen

import (
	"encoding/json"
	"fmt"
	"net"

	"github.com/q191201771/lal/pkg/base"
	"github.com/q191201771/lal/pkg/logic"

	"simlal/sim"
	"simlal/sim/actors"
	"simlal/sim/rtpc"
)

// The three ingest paths of C07 behind one small interface: an RTSP publisher (RTP over UDP or interleaved
// TCP), a GB28181 device (PS over RTP over UDP or framed TCP, after start_rtp_pub) and a customize-pub caller
// (frames handed over through the library API on a simulated caller goroutine).

// ---- ADTS -----------------------------------------------------------------------------------------------------------------

// makeAdts prefixes a raw AAC-LC frame with its 7-byte ADTS header.
func makeAdts(raw []byte, srIdx, channels int) []byte {
	n := 7 + len(raw)
	h := []byte{0xff, 0xf1,
		byte(1<<6) | byte(srIdx&0xf)<<2 | byte(channels>>2)&1,
		byte(channels&3)<<6 | byte(n>>11)&3,
		byte(n >> 3),
		byte(n&7)<<5 | 0x1f,
		0xfc}
	return append(h, raw...)
}

// ---- PS packer ----------------------------------------------------------------------------------------------------------

type psPacker struct {
	p   *C07Plan
	seq uint16
}

func newPsPacker(p *C07Plan) *psPacker { return &psPacker{p: p, seq: p.SeqStart[0]} }

func (ps *psPacker) packHeader() []byte {
	c := ps.p.Ps
	h := []byte{0, 0, 1, 0xba, 0x44, 0, 4, 0, 4, 1, 0, 0, 3, 0xf8 | byte(c.PackStuff&7)}
	for i := 0; i < c.PackStuff&7; i++ {
		h = append(h, 0xff)
	}
	return h
}

func (ps *psPacker) sysAndPsm() []byte {
	var out []byte
	if ps.p.Ps.SysHdr {
		out = append(out, 0, 0, 1, 0xbb, 0, 12, 0x80, 0, 1, 4, 0xe1, 0x7f, 0xe0, 0xe0, 0x80, 0xc0, 0xc0, 0x08)
	}
	var es []byte
	switch ps.p.Video {
	case "avc":
		es = append(es, 0x1b, 0xe0, 0, 0)
	case "hevc":
		es = append(es, 0x24, 0xe0, 0, 0)
	}
	switch ps.p.Audio {
	case "aac":
		es = append(es, 0x0f, 0xc0, 0, 0)
	case "pcma":
		es = append(es, 0x90, 0xc0, 0, 0)
	case "pcmu":
		es = append(es, 0x91, 0xc0, 0, 0)
	}
	n := 2 + 2 + 2 + len(es) + 4
	out = append(out, 0, 0, 1, 0xbc, byte(n>>8), byte(n), 0xe1, 0xff, 0, 0, byte(len(es)>>8), byte(len(es)))
	out = append(out, es...)
	return append(out, 0x45, 0xbd, 0xdc, 0xf4) // CRC field (not verified by receivers of GB28181 streams)
}

func putPts(prefix byte, v uint64) []byte {
	return []byte{
		prefix<<4 | byte(v>>30)&7<<1 | 1,
		byte(v >> 22),
		byte(v>>15)&0x7f<<1 | 1,
		byte(v >> 7),
		byte(v)&0x7f<<1 | 1,
	}
}

// pes splits body into PES packets of stream id; the first carries the PTS, the others as configured.
func (ps *psPacker) pes(id byte, body []byte, pts uint64) []byte {
	c := ps.p.Ps
	var out []byte
	first := true
	for first || len(body) > 0 {
		withPts := first || c.PtsOnCont
		var opt []byte
		flags := byte(0)
		if withPts {
			if c.Dts {
				flags = 0xc0
				opt = append(putPts(3, pts), putPts(1, pts)...)
			} else {
				flags = 0x80
				opt = putPts(2, pts)
			}
		}
		for i := 0; i < c.HdrStuff; i++ {
			opt = append(opt, 0xff)
		}
		room := c.PesMax - 3 - len(opt)
		if room > 65535-3-len(opt) {
			room = 65535 - 3 - len(opt)
		}
		if room < 1 {
			room = 1
		}
		n := len(body)
		if n > room {
			n = room
		}
		l := 3 + len(opt) + n
		out = append(out, 0, 0, 1, id, byte(l>>8), byte(l), 0x80, flags, byte(len(opt)))
		out = append(out, opt...)
		out = append(out, body[:n]...)
		body = body[n:]
		first = false
	}
	return out
}

func (ps *psPacker) rtp(pack []byte, pts uint64) []rtpc.Packet {
	var out []rtpc.Packet
	max := ps.p.MaxPayload
	for len(pack) > 0 {
		n := len(pack)
		if n > max {
			n = max
		}
		out = append(out, rtpc.Packet{PT: 96, Seq: ps.seq, Ts: uint32(pts), Ssrc: 0x33330000, Payload: append([]byte(nil), pack[:n]...), Marker: n == len(pack)})
		ps.seq++
		pack = pack[n:]
	}
	return out
}

func (ps *psPacker) pts(track int, ts uint64) uint64 {
	return uint64(ps.p.TsStart[0]) + ts*90000/uint64(ps.p.clock(track))
}

// audioPes is the PES of one audio frame (to be put into its own pack or behind the video PES of a pack).
func (ps *psPacker) audioPes(frame []byte, ts uint64) []byte {
	body := frame
	if ps.p.Audio == "aac" {
		body = makeAdts(frame, ps.p.AacSrIdx, 2)
	}
	return ps.pes(0xc0, body, ps.pts(1, ts))
}

// video packs one video frame; extra (may be nil) is appended to the same pack (devices put the audio that
// belongs to a picture behind it in one pack).
func (ps *psPacker) video(nals [][]byte, ts uint64, key, first bool, extra []byte) []rtpc.Packet {
	pack := ps.packHeader()
	if key || first || ps.p.Ps.PsmAll {
		pack = append(pack, ps.sysAndPsm()...)
	}
	var es []byte
	slices := 0
	for _, n := range nals {
		t := int(n[0] & 0x1f)
		isSlice := t == 1 || t == 5
		if ps.p.Video == "hevc" {
			t = int(n[0]>>1) & 0x3f
			isSlice = t < 32
		}
		if isSlice {
			slices++
		}
		if ps.p.Ps.Start3 && isSlice && slices > 1 {
			es = append(es, 0, 0, 1)
		} else {
			es = append(es, 0, 0, 0, 1)
		}
		es = append(es, n...)
	}
	pts := ps.pts(0, ts)
	pack = append(pack, ps.pes(0xe0, es, pts)...)
	pack = append(pack, extra...)
	return ps.rtp(pack, pts)
}

// audioRaw packs an audio PES whose payload is given as is (several ADTS frames, for instance).
func (ps *psPacker) audioRaw(body []byte, ts uint64, first bool) []rtpc.Packet {
	pack := ps.packHeader()
	if first || ps.p.Ps.PsmAll {
		pack = append(pack, ps.sysAndPsm()...)
	}
	pts := ps.pts(1, ts)
	pack = append(pack, ps.pes(0xc0, body, pts)...)
	return ps.rtp(pack, pts)
}

func (ps *psPacker) audio(frame []byte, ts uint64, first bool) []rtpc.Packet {
	pack := ps.packHeader()
	if first || ps.p.Ps.PsmAll {
		pack = append(pack, ps.sysAndPsm()...)
	}
	body := frame
	if ps.p.Audio == "aac" {
		body = makeAdts(frame, ps.p.AacSrIdx, 2)
	}
	pts := ps.pts(1, ts)
	pack = append(pack, ps.pes(0xc0, body, pts)...)
	return ps.rtp(pack, pts)
}

// ---- publishers -------------------------------------------------------------------------------------------------------------

type c07Pub interface {
	start(k *sim.Kernel, w *World, src *c07Src, stream string)
	sendPkt(k *sim.Kernel, src *c07Src, t int, q rtpc.Packet) bool
	sendFrame(k *sim.Kernel, src *c07Src, fi int) // customize only; the others go packet by packet
	gone() (bool, string)
	leave(k *sim.Kernel)
}

type c07RtspPub struct{ c *actors.RtspClient }

func (r *c07RtspPub) start(k *sim.Kernel, w *World, src *c07Src, stream string) {
	p := src.plan
	pub := actors.NewRtspClient(k, "pub", "pub", fmt.Sprintf("rtsp://127.0.0.1:%d/live/%s", PortRtsp, stream), p.Transport == "tcp")
	pub.Sdp = src.sdp()
	pub.ClientPort = 20000
	pub.Tracks = actors.ParseSdpTracks(pub.Sdp)
	if !pub.Connect(PortRtsp, 1) {
		k.Abort("rtsp listener missing")
	}
	r.c = pub
	k.Settle()
	if !pub.Ready {
		k.Violate("C07.publish-refused", "a well-formed RTSP publish (%s, video=%q audio=%q) was not accepted: %s, statuses %v, closed=%v", p.Transport, p.Video, p.Audio, pub.Failed, pub.Status, pub.Closed)
	}
}
func (r *c07RtspPub) sendPkt(k *sim.Kernel, src *c07Src, t int, q rtpc.Packet) bool {
	return r.c.SendRtp(src.trackIndex(t), q)
}
func (r *c07RtspPub) sendFrame(k *sim.Kernel, src *c07Src, fi int) {}
func (r *c07RtspPub) gone() (bool, string)                         { return r.c.Closed, fmt.Sprintf("statuses %v", r.c.Status) }
func (r *c07RtspPub) leave(k *sim.Kernel)                          { r.c.Leave(false) }

type c07GbPub struct {
	tcp  bool
	port int
	peer *rawPeer
}

func (g *c07GbPub) start(k *sim.Kernel, w *World, src *c07Src, stream string) {
	g.tcp = src.plan.Transport == "gb_tcp"
	body, _ := json.Marshal(map[string]interface{}{"stream_name": stream, "port": 0, "timeout_ms": 60000, "is_tcp_flag": map[bool]int{true: 1, false: 0}[g.tcp]})
	res := w.Api("api-rtppub", "/api/ctrl/start_rtp_pub", body)
	if d, ok := res.JSON["data"].(map[string]interface{}); ok {
		if f, ok := d["port"].(float64); ok {
			g.port = int(f)
		}
	}
	if !res.Done || res.ErrorCode() != 0 || g.port == 0 {
		k.Violate("C07.publish-refused", "start_rtp_pub with a valid request failed: %d %s", res.Status, res.Body)
	}
	if g.tcp {
		g.peer = &rawPeer{}
		g.peer.conn = k.Connect(g.port, "gbdev", 1, g.peer)
		if g.peer.conn == nil {
			k.Violate("C07.publish-refused", "start_rtp_pub answered port %d for TCP but nothing listens there", g.port)
		}
		k.Settle()
	}
}
func (g *c07GbPub) sendPkt(k *sim.Kernel, src *c07Src, t int, q rtpc.Packet) bool {
	b := q.Marshal()
	if g.tcp {
		if g.peer.closed {
			return false
		}
		g.peer.conn.Send(append([]byte{byte(len(b) >> 8), byte(len(b))}, b...))
		return true
	}
	k.UDPSend(net.UDPAddr{IP: net.IPv4(10, 0, 1, 1), Port: 30000}, g.port, b)
	return true
}
func (g *c07GbPub) sendFrame(k *sim.Kernel, src *c07Src, fi int) {}
func (g *c07GbPub) gone() (bool, string) {
	if g.tcp {
		return g.peer.closed, "tcp connection closed by lal"
	}
	return false, ""
}
func (g *c07GbPub) leave(k *sim.Kernel) {
	if g.tcp && !g.peer.closed {
		g.peer.conn.CloseByPeer()
	}
}

type c07CustomPub struct {
	w    *World
	ctx  logic.ICustomizePubSessionContext
	err  error
	dead bool
}

func (c *c07CustomPub) call(k *sim.Kernel, what string, fn func()) {
	t := k.Go("custom-"+what, fn)
	k.Settle()
	if !t.Done() {
		k.Violate("C07.api-hangs", "%s did not return: %v", what, k.BlockedLockWaiters())
	}
}

func (c *c07CustomPub) start(k *sim.Kernel, w *World, src *c07Src, stream string) {
	c.w = w
	p := src.plan
	c.call(k, "AddCustomizePubSession", func() { c.ctx, c.err = w.Srv.AddCustomizePubSession(stream) })
	if c.err != nil || c.ctx == nil {
		k.Violate("C07.publish-refused", "AddCustomizePubSession(%q) failed: %v", stream, c.err)
	}
	c.call(k, "WithOption", func() {
		c.ctx.WithOption(func(o *base.AvPacketStreamOption) {
			if p.Custom.Annexb {
				o.VideoFormat = base.AvPacketStreamVideoFormatAnnexb
			} else {
				o.VideoFormat = base.AvPacketStreamVideoFormatAvcc
			}
			if p.Custom.Adts {
				o.AudioFormat = base.AvPacketStreamAudioFormatAdtsAac
			} else {
				o.AudioFormat = base.AvPacketStreamAudioFormatRawAac
			}
		})
		if p.Audio == "aac" && !p.Custom.Adts {
			if err := c.ctx.FeedAudioSpecificConfig([]byte{byte(2<<3) | byte(p.AacSrIdx>>1), byte(p.AacSrIdx&1)<<7 | 2<<3}); err != nil {
				c.dead = true
			}
		}
	})
}
func (c *c07CustomPub) sendPkt(k *sim.Kernel, src *c07Src, t int, q rtpc.Packet) bool { return true }
func (c *c07CustomPub) sendFrame(k *sim.Kernel, src *c07Src, fi int) {
	p := src.plan
	f := p.Frames[fi]
	var pkt base.AvPacket
	pkt.Timestamp = p.Custom.BaseMs + int64((f.Ts*1000+uint64(p.clock(f.Track))/2)/uint64(p.clock(f.Track)))
	pkt.Pts = pkt.Timestamp
	if f.Track == 1 {
		pkt.Payload = src.raw[fi][0]
		switch p.Audio {
		case "aac":
			pkt.PayloadType = base.AvPacketPtAac
			if p.Custom.Adts {
				pkt.Payload = makeAdts(pkt.Payload, p.AacSrIdx, 2)
			}
		case "pcma":
			pkt.PayloadType = base.AvPacketPtG711A
		case "pcmu":
			pkt.PayloadType = base.AvPacketPtG711U
		case "opus":
			pkt.PayloadType = base.AvPacketPtOpus
		}
	} else {
		pkt.PayloadType = base.AvPacketPtAvc
		if p.Video == "hevc" {
			pkt.PayloadType = base.AvPacketPtHevc
		}
		for _, n := range src.raw[fi] {
			if p.Custom.Annexb {
				pkt.Payload = append(pkt.Payload, 0, 0, 0, 1)
			} else {
				pkt.Payload = append(pkt.Payload, byte(len(n)>>24), byte(len(n)>>16), byte(len(n)>>8), byte(len(n)))
			}
			pkt.Payload = append(pkt.Payload, n...)
		}
	}
	c.call(k, "FeedAvPacket", func() {
		if err := c.ctx.FeedAvPacket(pkt); err != nil {
			c.dead = true
		}
	})
}
func (c *c07CustomPub) gone() (bool, string) {
	return c.dead, "FeedAvPacket reported the session disposed"
}
func (c *c07CustomPub) leave(k *sim.Kernel) {
	if c.ctx != nil {
		c.call(k, "DelCustomizePubSession", func() { c.w.Srv.DelCustomizePubSession(c.ctx) })
	}
}

package scen

import (
	"bytes"
	"crypto/sha1"
	"encoding/base64"
	"encoding/json"
	"fmt"
	"io"
	"strings"

	"simlal/sim"
	"simlal/sim/httpc"
	"simlal/sim/media"

	"github.com/q191201771/lal/pkg/httpflv"
)

func relayProfileC11(tier string) RelayProfile {
	p := RelayProfile{
		Protos:         []string{"flv", "wsflv", "wsflv", "flv", "rtmp"},
		MaxUnits:       70,
		MaxCons:        4,
		Republish:      0.3,
		HeaderChange:   0.05,
		TsWeird:        0.5,
		BigUnits:       0.25,
		ZeroLen:        0.03,
		ShapeAudioOnly: 0.15,
		ShapeVideoOnly: 0.2,
		LeaveProb:      0.5,
		SettleProb:     [2]float64{0.1, 1.0},
	}
	if tier == "thorough" {
		p.MaxUnits = 250
		p.MaxCons = 8
		p.Thorough = true
	}
	return p
}

// recordFiles maps, per stream, the accepted incarnations to the recording files lal created (in creation order).
func recordFiles(k *sim.Kernel, dirPrefix string, stream int) []string {
	var out []string
	for _, f := range k.FS.OsFiles() {
		if strings.HasPrefix(f, dirPrefix+StreamName(stream)+"-") {
			out = append(out, f)
		}
	}
	return out
}

// CheckC11 validates every FLV byte stream of the run: HTTP-FLV bodies, WebSocket-FLV frame sequences and FLV recordings.
func CheckC11(k *sim.Kernel, rr *RelayRun) {
	for ci, c := range rr.Cons {
		if c.Http == nil || !c.Joined || (c.Plan.Proto != "flv" && c.Plan.Proto != "wsflv") {
			continue
		}
		name := fmt.Sprintf("cons%d(%s)", ci, c.Plan.Proto)
		h := c.Http
		if h.Resp.Err != nil {
			k.Violate("C11.http", "%s: HTTP response does not parse: %s", name, clip(h.Resp.Err.Error(), 160))
		}
		if !h.Resp.HeaderDone {
			continue
		}
		if c.Plan.Proto == "wsflv" {
			if h.Resp.Status != 101 {
				k.Violate("C11.ws-handshake", "%s: WebSocket upgrade answered with status %d", name, h.Resp.Status)
			}
			sum := sha1.Sum([]byte("dGhlIHNhbXBsZSBub25jZQ==" + "258EAFA5-E914-47DA-95CA-C5AB0DC85B11"))
			if got := h.Resp.Headers["sec-websocket-accept"]; got != base64.StdEncoding.EncodeToString(sum[:]) {
				k.Violate("C11.ws-handshake", "%s: Sec-WebSocket-Accept %q is not the RFC 6455 hash of the request key", name, got)
			}
			if h.Ws.Err != nil {
				k.Violate("C11.ws-frame", "%s: %v", name, h.Ws.Err)
			}
			for i, f := range h.Ws.Frames {
				if !f.Fin || f.Opcode != 2 || f.Masked || f.Rsv != 0 {
					k.Violate("C11.ws-frame", "%s: frame %d is not a complete unmasked binary frame (fin=%v opcode=%d masked=%v rsv=%d)", name, i, f.Fin, f.Opcode, f.Masked, f.Rsv)
				}
				switch f.LenForm {
				case 16:
					k.Probe("c11_ws_len16")
				case 64:
					k.Probe("c11_ws_len64")
				}
			}
		} else if h.Resp.Status != 200 {
			k.Violate("C11.http", "%s: status %d", name, h.Resp.Status)
		}
		if h.Flv.Err != nil {
			k.Violate("C11.flv", "%s: %v", name, h.Flv.Err)
		}
		if len(h.Tags) > 0 {
			k.Probe("nontrivial")
		}
		for _, t := range h.Tags {
			if t.Ts >= 1<<24 {
				k.Probe("c11_ts_over_24bit")
			}
		}
		// every tag is one of the published units (C01 judges order / completeness)
		F := rr.Forwardable(c.Plan.Stream)
		for j, t := range h.Tags {
			it := RItem{Type: t.Type, Ts: t.Ts, Payload: t.Data}
			ok := false
			for p := range F {
				if F[p].equals(&it) {
					ok = true
					break
				}
			}
			if !ok {
				k.Violate("C11.tag-content", "%s: tag #%d %s equals no published message", name, j, describe(&it))
			}
		}
	}
	if !rr.Plan.Conf.RecordFlv {
		return
	}
	// recordings
	nStreams := 0
	for _, p := range rr.Pubs {
		if p.Plan.Stream+1 > nStreams {
			nStreams = p.Plan.Stream + 1
		}
	}
	for s := 0; s < nStreams; s++ {
		files := recordFiles(k, "/simrec/flv/", s)
		var incs []*PubState
		for _, p := range rr.Pubs {
			if p.Plan.Stream == s && p.Actor != nil && p.Actor.Ready && len(p.Actor.Sent) > 0 {
				incs = append(incs, p)
			}
		}
		for fi, fname := range files {
			// a later file with the same name overwrote this one
			overwritten := false
			for _, g := range files[fi+1:] {
				if g == fname {
					overwritten = true
				}
			}
			if overwritten || fi >= len(incs) {
				continue
			}
			p := incs[fi]
			if !p.Stopped {
				continue // still being written
			}
			data, err := k.SandboxFile(fname)
			if err != nil {
				k.Violate("C11.record", "recording %s cannot be read: %v", fname, err)
			}
			var fp httpc.FlvParser
			tags := fp.Feed(data)
			if fp.Err != nil {
				k.Violate("C11.record", "recording %s: %v", fname, fp.Err)
			}
			if !fp.HeaderDone && len(data) > 0 {
				k.Violate("C11.record", "recording %s: %d bytes but no complete FLV header", fname, len(data))
			}
			if fp.Buffered() != 0 {
				k.Violate("C11.record", "recording %s ends with %d bytes that are not a whole tag", fname, fp.Buffered())
			}
			// expected: every forwardable unit of this incarnation that lal processed, in order
			var want []FUnit
			for _, f := range rr.Forwardable(s) {
				if rr.Pubs[f.Pub] == p {
					want = append(want, f)
				}
			}
			wi := 0
			for j, t := range tags {
				it := RItem{Type: t.Type, Ts: t.Ts, Payload: t.Data}
				for wi < len(want) && want[wi].Opt && !want[wi].equals(&it) {
					wi++
				}
				if wi >= len(want) || !want[wi].equals(&it) {
					k.Violate("C11.record-content", "recording %s: tag #%d %s is not the next published message", fname, j, describe(&it))
				}
				wi++
			}
			for ; wi < len(want); wi++ {
				if !want[wi].Opt {
					k.Violate("C11.record-content", "recording %s ends after %d tags; published unit #%d (%s) is missing", fname, len(tags), wi, want[wi].U.Kind)
				}
			}
			// lal's own reader must read back the same tags
			var rd httpflv.FlvFileReader
			if err := rd.Open(fname); err != nil {
				k.Violate("C11.record", "lal's FlvFileReader cannot open %s: %v", fname, err)
			}
			if _, err := rd.ReadFlvHeader(); err != nil && len(data) > 0 {
				k.Violate("C11.record", "lal's FlvFileReader cannot read the header of %s: %v", fname, err)
			}
			for j := 0; ; j++ {
				tag, err := rd.ReadTag()
				if err != nil {
					if err != io.EOF && j < len(tags) {
						k.Violate("C11.readback", "lal's FlvFileReader fails at tag #%d of %s: %v", j, fname, err)
					}
					if j != len(tags) {
						k.Violate("C11.readback", "lal's FlvFileReader returns %d tags of %s, the reference parser %d", j, fname, len(tags))
					}
					break
				}
				if j >= len(tags) {
					k.Violate("C11.readback", "lal's FlvFileReader returns more tags than the reference parser for %s", fname)
				}
				if tag.Header.Type != tags[j].Type || tag.Header.Timestamp != tags[j].Ts || !bytes.Equal(tag.Payload(), tags[j].Data) {
					k.Violate("C11.readback", "lal's FlvFileReader tag #%d of %s differs from the reference parser (type %d/%d ts %d/%d len %d/%d)",
						j, fname, tag.Header.Type, tags[j].Type, tag.Header.Timestamp, tags[j].Ts, len(tag.Payload()), len(tags[j].Data))
				}
			}
			rd.Dispose()
			k.Probe("c11_record_checked")
			k.Probe("nontrivial")
		}
	}
}

func init() {
	Register(&Check{
		ID: "C11",
		Gen: func(r *sim.Rng, tier string) json.RawMessage {
			pl := GenRelayPlan(r, relayProfileC11(tier))
			pl.Conf.RecordFlv = r.Bool(0.6)
			return mustJSON(pl)
		},
		Sched: relaySched,
		Run: func(k *sim.Kernel, plan json.RawMessage) {
			var pl RelayPlan
			fromJSON(plan, &pl)
			rr := ExecRelay(k, pl)
			CheckC11(k, rr)
			checkC11PackRead(k)
		},
		Shrink: relayShrink,
		Shape:  relayShape,
		Brief:  relayBrief,
	})
}

var _ = media.KMeta

// flvSegReader hands out a byte stream in seeded pieces, as a transport does.
type flvSegReader struct {
	b []byte
	r *sim.Rng
}

func (s *flvSegReader) Read(p []byte) (int, error) {
	if len(s.b) == 0 {
		return 0, io.EOF
	}
	n := len(p)
	if n > len(s.b) {
		n = len(s.b)
	}
	if n > 1 {
		switch s.r.Intn(4) {
		case 0:
			n = 1 + s.r.Intn(n)
		case 1:
			n = 1 + s.r.Intn(minIntS(n, 8))
		case 2:
			// end the read inside the trailing bytes of what was asked for
			n = n - s.r.Intn(minIntS(n, 5))
		}
	}
	copy(p, s.b[:n])
	s.b = s.b[n:]
	return n, nil
}

// checkC11PackRead: the tag writer and the tag reader of lal's httpflv package against the reference parser, for the
// payload lengths and timestamps end-to-end streams cannot reach (0, the WebSocket length-form boundaries, 2^24-1) and
// with the reader fed in arbitrary pieces (short reads of a transport).
func checkC11PackRead(k *sim.Kernel) {
	r := sim.NewRng(sim.Mix(k.Seed, 0xc11f))
	type tg struct {
		t    uint8
		ts   uint32
		data []byte
	}
	var tags []tg
	stream := []byte{'F', 'L', 'V', 1, 5, 0, 0, 0, 9, 0, 0, 0, 0}
	n := 1 + r.Intn(12)
	for i := 0; i < n; i++ {
		size := []int{0, 0, 1, 2, 10, 11, 125, 126, 127, 128, 65535, 65536, 65537, 200 + r.Intn(3000)}[r.Intn(14)]
		if r.Bool(0.04) {
			size = 1<<24 - 1 - r.Intn(16)
		}
		t := tg{t: []uint8{8, 9, 18}[r.Intn(3)], ts: []uint32{0, 1, 0xFFFFFE, 0xFFFFFF, 0x1000000, 0x1000001, 0x7FFFFFFF, 0xFFFFFFFF, uint32(r.Intn(1 << 30))}[r.Intn(9)], data: randBytes(r.U64(), size)}
		tags = append(tags, t)
		stream = append(stream, httpflv.PackHttpflvTag(t.t, t.ts, t.data)...)
	}
	var fp httpc.FlvParser
	got := fp.Feed(stream)
	if fp.Err != nil {
		k.Violate("C11.pack", "a stream of %d tags written by PackHttpflvTag is rejected by the reference parser: %v", n, fp.Err)
	}
	if len(got) != n || fp.Buffered() != 0 {
		k.Violate("C11.pack", "PackHttpflvTag wrote %d tags, the reference parser finds %d and %d stray bytes", n, len(got), fp.Buffered())
	}
	for i := range got {
		if got[i].Type != tags[i].t || got[i].Ts != tags[i].ts || !bytes.Equal(got[i].Data, tags[i].data) {
			k.Violate("C11.pack", "tag #%d (type %d ts %d len %d) written by PackHttpflvTag parses as type %d ts %d len %d", i, tags[i].t, tags[i].ts, len(tags[i].data), got[i].Type, got[i].Ts, len(got[i].Data))
		}
	}
	rd := &flvSegReader{b: stream[13:], r: r}
	for i := range tags {
		tag, err := httpflv.ReadTag(rd)
		if err != nil {
			k.Violate("C11.readback", "lal's ReadTag fails at tag #%d of %d (len %d) of a well-formed stream delivered in pieces: %v", i, n, len(tags[i].data), err)
		}
		if tag.Header.Type != tags[i].t || tag.Header.Timestamp != tags[i].ts || !bytes.Equal(tag.Payload(), tags[i].data) {
			k.Violate("C11.readback", "lal's ReadTag returns tag #%d as type %d ts %d len %d, it is type %d ts %d len %d (stream delivered in pieces)", i, tag.Header.Type, tag.Header.Timestamp, len(tag.Payload()), tags[i].t, tags[i].ts, len(tags[i].data))
		}
	}
	k.Probe("c11_pack_read_checked")
}

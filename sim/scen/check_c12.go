package scen

import (
	"bytes"
	"encoding/json"
	"fmt"
	"runtime/debug"

	"simlal/sim"
	"simlal/sim/media"
	"simlal/sim/rtpc"

	"github.com/q191201771/lal/pkg/base"
	"github.com/q191201771/lal/pkg/rtprtcp"
)

// C12: RTP packetise / depacketise, component level: lal packer -> simulated datagram channel (reorder
// inside a window, duplicates, sequence wrap) -> lal unpack container, plus both cross pairings with the
// reference packetiser / depacketiser.

type RtpUnitSpec struct {
	Size int   `json:"sz"`
	Type int   `json:"t"`           // NAL type
	A    int   `json:"a,omitempty"` // AVC nri / HEVC layer id
	B    int   `json:"b,omitempty"` // HEVC temporal id
	TsMs int64 `json:"ts"`
}

type RtpPlan struct {
	Codec     string        `json:"codec"` // avc | hevc | aac | pcm | opus
	Clock     int           `json:"clock"`
	FirstSeq  int           `json:"first_seq"`
	Units     []RtpUnitSpec `json:"units"`
	Seed      uint64        `json:"seed"`
	Window    int           `json:"window"`             // reorder window in packets (0: in order)
	ListMax   int           `json:"list_max,omitempty"` // capacity of lal's reorder list (0: 1024, what the RTSP sessions use)
	DupProb   float64       `json:"dup"`
	Pair      string        `json:"pair"` // lal2lal | lal2ref | ref2lal
	RefStap   bool          `json:"ref_stap,omitempty"`
	TouchHead bool          `json:"touch_head,omitempty"` // perturb the very first packets too (suffix equality only)
}

const rtpMaxPayload = 1200

func genC12Plan(r *sim.Rng, tier string) RtpPlan {
	var pl RtpPlan
	pl.Codec = []string{"avc", "avc", "hevc", "hevc", "aac", "pcm", "opus"}[r.Intn(7)]
	pl.Seed = r.U64()
	pl.Pair = []string{"lal2lal", "lal2ref", "ref2lal"}[r.Intn(3)]
	pl.FirstSeq = []int{0, 1, 65535, 65534, 65500, 32767, 32768, r.Intn(65536)}[r.Intn(8)]
	pl.Window = []int{0, 0, 1, 2, 3, 8, 16}[r.Intn(7)]
	// the capacity is a tuning knob of the callers (1024 in RTSP sessions, 1024 / 10 in GB28181 and its tests): a small one
	// makes bookkeeping errors of the list show within a few dozen units instead of a thousand
	pl.ListMax = []int{0, 0, 256, 64, 40}[r.Intn(5)]
	if pl.ListMax > 0 && pl.Window*4 >= pl.ListMax {
		pl.ListMax = 0
	}
	if r.Bool(0.5) {
		pl.DupProb = 0.05 + 0.3*r.Float()
	}
	pl.RefStap = r.Bool(0.5)
	pl.TouchHead = r.Bool(0.1)
	switch pl.Codec {
	case "avc", "hevc":
		pl.Clock = 90000
	case "aac":
		pl.Clock = []int{8000, 11025, 16000, 22050, 32000, 44100, 48000, 96000}[r.Intn(8)]
	case "pcm":
		pl.Clock = 8000
	case "opus":
		pl.Clock = 48000
	}
	n := 3 + r.Intn(30)
	if tier == "thorough" {
		n = 10 + r.Intn(150)
	}
	if pl.ListMax > 0 {
		n += pl.ListMax + r.Intn(pl.ListMax) // more units than the list has slots
	}
	ts := int64(r.Intn(100000))
	for i := 0; i < n; i++ {
		var u RtpUnitSpec
		ts += int64(r.Intn(60))
		u.TsMs = ts
		switch pl.Codec {
		case "avc":
			u.Type = 1 + r.Intn(23)
			u.A = r.Intn(4)
			u.Size = rtpSize(r)
		case "hevc":
			u.Type = []int{0, 1, 2, 3, 4, 5, 6, 7, 8, 9, 16, 17, 18, 19, 20, 21, 32, 33, 34, 35, 39, 40, r.Intn(48)}[r.Intn(23)]
			u.A = r.Intn(64)
			u.B = 1 + r.Intn(7)
			u.Size = rtpSize(r)
		case "aac":
			u.Size = 1 + r.Intn(1100)
			if r.Bool(0.05) {
				u.Size = 1200 + r.Intn(6000)
			}
		default:
			u.Size = 1 + r.Intn(1000)
			if r.Bool(0.06) {
				// a frame above the packer's payload limit: G.711 / Opus have no fragmentation, the frame stays one packet
				u.Size = rtpMaxPayload + 1 + r.Intn(3000)
			}
		}
		if pl.ListMax > 0 && u.Size > pl.ListMax/4*rtpMaxPayload {
			// a unit must fit into the list several times over, or reordering at its start overflows the list legitimately
			u.Size = 1 + u.Size%(pl.ListMax/4*rtpMaxPayload)
		}
		pl.Units = append(pl.Units, u)
	}
	return pl
}

func rtpSize(r *sim.Rng) int {
	switch r.Intn(8) {
	case 0:
		return 1 + r.Intn(4)
	case 1, 2:
		k := 1 + r.Intn(4)
		return maxInt(1, k*rtpMaxPayload-6+r.Intn(12))
	case 3:
		return 10000 + r.Intn(290000)
	default:
		return 2 + r.Intn(3000)
	}
}

func buildRtpUnit(pl *RtpPlan, i int) []byte {
	u := pl.Units[i]
	switch pl.Codec {
	case "avc":
		return append([]byte{byte(u.A&3)<<5 | byte(u.Type&0x1f)}, media.Body(7, 0, i, maxInt(0, u.Size-1))...)
	case "hevc":
		h0 := byte(u.Type&0x3f)<<1 | byte(u.A>>5)&1
		h1 := byte(u.A&0x1f)<<3 | byte(u.B&7)
		return append([]byte{h0, h1}, media.Body(7, 0, i, maxInt(0, u.Size-2))...)
	}
	return media.Body(7, 1, i, u.Size)
}

type chanPkt struct {
	raw []byte
}

// perturb applies reorder-within-window and duplication to the packet sequence.
func perturb(pkts [][]byte, r *sim.Rng, window int, dup float64, touchHead bool) (out [][]byte, reordered, duplicated int) {
	out = append(out, pkts...)
	start := 1
	if touchHead {
		start = 0
	}
	if window > 0 {
		for i := start; i < len(out); i++ {
			if r.Bool(0.3) {
				d := 1 + r.Intn(window)
				j := i + d
				if j >= len(out) {
					j = len(out) - 1
				}
				if j > i {
					p := out[i]
					copy(out[i:j], out[i+1:j+1])
					out[j] = p
					reordered++
					i = j
				}
			}
		}
	}
	if dup > 0 {
		var o2 [][]byte
		var pending []struct {
			at int
			p  []byte
		}
		for i, p := range out {
			o2 = append(o2, p)
			for k := 0; k < len(pending); {
				if pending[k].at <= i {
					o2 = append(o2, pending[k].p)
					pending = append(pending[:k], pending[k+1:]...)
					duplicated++
				} else {
					k++
				}
			}
			if i >= start && r.Bool(dup) {
				pending = append(pending, struct {
					at int
					p  []byte
				}{i + r.Intn(maxInt(1, window)+1), p})
			}
		}
		for _, pd := range pending {
			o2 = append(o2, pd.p)
			duplicated++
		}
		out = o2
	}
	return
}

func execRtp(k *sim.Kernel, pl RtpPlan) {
	r := sim.NewRng(pl.Seed)
	var pt base.AvPacketPt
	var refCodec rtpc.Codec
	switch pl.Codec {
	case "avc":
		pt, refCodec = base.AvPacketPtAvc, rtpc.H264
	case "hevc":
		pt, refCodec = base.AvPacketPtHevc, rtpc.H265
	case "aac":
		pt, refCodec = base.AvPacketPtAac, rtpc.AAC
	case "pcm":
		pt, refCodec = base.AvPacketPtG711A, rtpc.Raw
	default:
		pt, refCodec = base.AvPacketPtOpus, rtpc.Raw
	}
	video := pl.Codec == "avc" || pl.Codec == "hevc"
	units := make([][]byte, len(pl.Units))
	for i := range pl.Units {
		units[i] = buildRtpUnit(&pl, i)
	}
	wantTs := func(i int) uint32 { return uint32(float64(pl.Units[i].TsMs) * float64(pl.Clock) / 1000) }

	// ---- packetise
	var wire [][]byte // marshalled packets in send order
	var unitOf []int  // unit index per packet
	if pl.Pair == "ref2lal" {
		pk := &rtpc.Packer{Codec: refCodec, PT: uint8(pt), Ssrc: 0x1234, Seq: uint16(pl.FirstSeq), Max: rtpMaxPayload, UseStap: false}
		for i, u := range units {
			var ps []rtpc.Packet
			if video {
				ps = pk.PackVideoAU([][]byte{u}, wantTs(i))
			} else {
				if pl.Codec == "aac" && len(u) > 8191 {
					u = u[:8191]
					units[i] = u
				}
				ps = pk.PackAudio(u, wantTs(i))
			}
			for _, p := range ps {
				wire = append(wire, p.Marshal())
				unitOf = append(unitOf, i)
			}
		}
	} else {
		var payloadPacker rtprtcp.IRtpPackerPayload
		switch pl.Codec {
		case "avc":
			payloadPacker = rtprtcp.NewRtpPackerPayloadAvc()
		case "hevc":
			payloadPacker = rtprtcp.NewRtpPackerPayloadHevc()
		case "aac":
			payloadPacker = rtprtcp.NewRtpPackerPayloadAac()
		case "pcm":
			payloadPacker = rtprtcp.NewRtpPackerPayloadPcm()
		default:
			payloadPacker = rtprtcp.NewRtpPackerPayloadOpus()
		}
		packer := rtprtcp.NewRtpPacker(payloadPacker, pl.Clock, 0x1234, func(o *rtprtcp.RtpPackerOption) { o.FirstSeq = uint16(pl.FirstSeq) })
		seq := uint16(pl.FirstSeq)
		for i, u := range units {
			if pl.Codec == "aac" && len(u) > 8191 {
				u = u[:8191]
				units[i] = u
			}
			out := packer.Pack(base.AvPacket{PayloadType: pt, Timestamp: pl.Units[i].TsMs, Payload: u})
			if len(out) == 0 {
				k.Violate("C12.pack-empty", "unit %d (%d bytes) was packetised into no packet", i, len(u))
			}
			for j, p := range out {
				// packet-level clauses of the property
				rp, err := rtpc.Parse(p.Raw)
				if err != nil {
					k.Violate("C12.pack-malformed", "unit %d packet %d: %v", i, j, err)
				}
				if video && len(rp.Payload) > rtpMaxPayload {
					k.Violate("C12.payload-limit", "unit %d (%d bytes) packet %d has a %d byte payload, the limit is %d", i, len(u), j, len(rp.Payload), rtpMaxPayload)
				}
				if rp.Marker != (j == len(out)-1) {
					k.Violate("C12.marker", "unit %d packet %d of %d: marker=%v", i, j, len(out), rp.Marker)
				}
				if rp.Seq != seq {
					k.Violate("C12.sequence", "unit %d packet %d: sequence number %d, expected %d", i, j, rp.Seq, seq)
				}
				seq++
				if rp.Ts != wantTs(i) {
					k.Violate("C12.timestamp", "unit %d (media time %d ms, clock %d): RTP timestamp %d, expected %d", i, pl.Units[i].TsMs, pl.Clock, rp.Ts, wantTs(i))
				}
				wire = append(wire, append([]byte(nil), p.Raw...))
				unitOf = append(unitOf, i)
			}
		}
	}
	if uint32(pl.FirstSeq)+uint32(len(wire)) > 65536 {
		k.Probe("c12_sequence_wrap")
	}
	// ---- channel
	perturbed := wire
	reordered, duplicated := 0, 0
	if pl.Pair != "lal2ref" {
		perturbed, reordered, duplicated = perturb(wire, r, pl.Window, pl.DupProb, pl.TouchHead)
	}
	if reordered > 0 {
		k.Fault("udp_reorder")
	}
	if duplicated > 0 {
		k.Fault("udp_duplicate")
	}
	// ---- depacketise
	var got [][]byte
	var gotTs []int64
	if pl.Pair == "lal2ref" {
		d := &rtpc.Depacketiser{Codec: refCodec}
		for _, raw := range perturbed {
			p, err := rtpc.Parse(raw)
			if err != nil {
				k.Violate("C12.pack-malformed", "%v", err)
			}
			for _, u := range d.Feed(p) {
				got = append(got, u.Data)
				gotTs = append(gotTs, int64(u.Ts))
			}
			if d.Err != nil {
				k.Violate("C12.ref-depacketise", "the reference depacketiser rejects lal's packets: %v", d.Err)
			}
		}
	} else {
		listMax := 1024
		if pl.ListMax > 0 {
			listMax = pl.ListMax
		}
		un := rtprtcp.DefaultRtpUnpackerFactory(pt, pl.Clock, listMax, func(pkt base.AvPacket) {
			pl := append([]byte(nil), pkt.Payload...)
			if video {
				// AVCC: 4-byte length prefixed NAL units
				for len(pl) >= 4 {
					n := int(pl[0])<<24 | int(pl[1])<<16 | int(pl[2])<<8 | int(pl[3])
					if n > len(pl)-4 {
						n = len(pl) - 4
					}
					got = append(got, pl[4:4+n])
					gotTs = append(gotTs, pkt.Timestamp)
					pl = pl[4+n:]
				}
				return
			}
			got = append(got, pl)
			gotTs = append(gotTs, pkt.Timestamp)
		})
		for _, raw := range perturbed {
			p, err := rtprtcp.ParseRtpPacket(raw)
			if err != nil {
				k.Violate("C12.parse", "lal cannot parse a packet: %v", err)
			}
			un.Feed(p)
		}
	}
	// ---- compare
	expect := units
	if pl.TouchHead && (reordered > 0 || duplicated > 0) {
		// the depacketiser has no notion of "before the first packet": only a suffix is promised
		if len(got) > len(expect) {
			k.Violate("C12.duplicate-output", "%d units were sent but %d came out", len(expect), len(got))
		}
		off := len(expect) - len(got)
		for i := range got {
			if !bytes.Equal(got[i], expect[off+i]) {
				k.Violate("C12.mismatch", "with the first packets perturbed the output is not a suffix of the input (output unit %d)", i)
			}
		}
		k.Probe("nontrivial")
		return
	}
	if len(got) != len(expect) {
		first := -1
		for i := 0; i < len(got) && i < len(expect); i++ {
			if !bytes.Equal(got[i], expect[i]) {
				first = i
				break
			}
		}
		k.Violate("C12.count", "%s %s: %d units in, %d units out (first difference at unit %d; reordered=%d duplicated=%d window=%d)", pl.Pair, pl.Codec, len(expect), len(got), first, reordered, duplicated, pl.Window)
	}
	for i := range expect {
		if !bytes.Equal(got[i], expect[i]) {
			hdr := 2
			if len(expect[i]) < 2 || len(got[i]) < 2 {
				hdr = 1
			}
			k.Violate("C12.mismatch", "%s %s: unit %d (%d bytes, header % x) came out as %d bytes, header % x", pl.Pair, pl.Codec, i, len(expect[i]), expect[i][:hdr], len(got[i]), got[i][:minIntS(hdr, len(got[i]))])
		}
	}
	k.Probe("nontrivial")
}

func init() {
	Register(&Check{
		ID:    "C12",
		Gen:   func(r *sim.Rng, tier string) json.RawMessage { return mustJSON(genC12Plan(r, tier)) },
		Sched: func(plan json.RawMessage) sim.SchedParams { return sim.SchedParams{} },
		Run: func(k *sim.Kernel, plan json.RawMessage) {
			var pl RtpPlan
			fromJSON(plan, &pl)
			k.Mix(string(plan))
			defer func() {
				if r := recover(); r != nil {
					if sim.IsAbort(r) {
						panic(r)
					}
					k.Violate("C12.panic", "lal's codec panicked on this input: %v\n%s", r, debug.Stack())
				}
			}()
			execRtp(k, pl)
		},
		Shrink: func(plan json.RawMessage) []json.RawMessage {
			var pl RtpPlan
			fromJSON(plan, &pl)
			var out []json.RawMessage
			for i := range pl.Units {
				q := pl
				q.Units = append(append([]RtpUnitSpec{}, pl.Units[:i]...), pl.Units[i+1:]...)
				out = append(out, mustJSON(q))
			}
			for i := range pl.Units {
				if pl.Units[i].Size > 16 {
					q := pl
					q.Units = append([]RtpUnitSpec{}, pl.Units...)
					q.Units[i].Size = pl.Units[i].Size / 2
					out = append(out, mustJSON(q))
				}
			}
			if pl.Window > 0 {
				q := pl
				q.Window = 0
				out = append(out, mustJSON(q))
			}
			if pl.DupProb > 0 {
				q := pl
				q.DupProb = 0
				out = append(out, mustJSON(q))
			}
			return out
		},
		Shape: func(plan json.RawMessage) string {
			var pl RtpPlan
			fromJSON(plan, &pl)
			s := fmt.Sprintf("%s/%s/c%d/s%d/w%d/d%v/", pl.Codec, pl.Pair, pl.Clock, pl.FirstSeq>>12, pl.Window, pl.DupProb > 0)
			for _, u := range pl.Units {
				s += fmt.Sprintf("%d.%d,", u.Type, u.Size/600)
			}
			if len(s) > 100 {
				s = s[:100]
			}
			return s
		},
		Brief: func(plan json.RawMessage) interface{} {
			var pl RtpPlan
			fromJSON(plan, &pl)
			return pl
		},
	})
}

package scen

import (
	"encoding/json"
	"fmt"

	"simlal/sim"
)

// Check is one property's simulation check: a plan generator, an interpreter with the property's
// oracles, a shrinker and descriptive helpers for the evidence.
type Check struct {
	ID string
	// Gen draws a plan from the run's PRNG (pure function of it).
	Gen func(r *sim.Rng, tier string) json.RawMessage
	// Sched extracts the scheduling parameters from a plan.
	Sched func(plan json.RawMessage) sim.SchedParams
	// Run executes the plan in the kernel and evaluates the property's oracles (k.Violate on failure).
	Run func(k *sim.Kernel, plan json.RawMessage)
	// Shrink proposes simpler plans (each must still be a valid plan).
	Shrink func(plan json.RawMessage) []json.RawMessage
	// Shape returns a short key describing the plan's shape, for counting distinct non-trivial cases.
	Shape func(plan json.RawMessage) string
	// Brief renders a plan compactly for evidence samples.
	Brief func(plan json.RawMessage) interface{}
}

var Checks = map[string]*Check{}

func Register(c *Check) { Checks[c.ID] = c }

func mustJSON(v interface{}) json.RawMessage {
	b, err := json.Marshal(v)
	if err != nil {
		panic(err)
	}
	return b
}

func fromJSON(b json.RawMessage, v interface{}) {
	if err := json.Unmarshal(b, v); err != nil {
		panic(fmt.Sprintf("bad plan: %v", err))
	}
}

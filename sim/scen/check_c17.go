package scen

import (
	"encoding/json"
	"fmt"
	"strings"
	"time"

	"simlal/sim"
	"simlal/sim/actors"
	"simlal/sim/rtmpc"
)

// ---- relay pull / push rules against an executable timed reference model -----------------------------------------------------

type RelayRulesOp struct {
	Kind     string `json:"op"` // sub_join | sub_leave | pub_start | pub_stop | api_start | api_stop | api_kick | origin_close | advance
	Ms       int    `json:"ms,omitempty"`
	Retry    int    `json:"retry,omitempty"`
	AutoStop int    `json:"autostop,omitempty"`
	Reset    bool   `json:"reset,omitempty"`
}

type RelayRulesPlan struct {
	Conf       LalConf         `json:"conf"`
	Sched      sim.SchedParams `json:"sched"`
	Origin     []string        `json:"origin"`      // outcome of the n-th pull connection: accept | refuse | mute | die_hs | refuse_play
	PushTarget []string        `json:"push_target"` // per push connection attempt (all targets, in order): accept | refuse | die_hs
	PubQuery   string          `json:"pub_query,omitempty"`
	PubKind    string          `json:"pub_kind,omitempty"` // "" / rtmp | rtsp: what kind of publisher the push scenario uses
	Ops        []RelayRulesOp  `json:"ops"`
}

const pullTimeoutMs = 5300

// pullModel is the executable reference model written from the property text.
type pullModel struct {
	inTick    bool
	inclusive bool // an attempt that times out at the instant of a tick is over before that tick
	// tie: when an attempt times out at the very instant of a tick, whether the timeout or the tick comes first is a
	// scheduling decision inside lal, made anew each time; the model follows what was observed at that instant
	// (did connection attempt number n start at `now`?) instead of fixing one order for the whole run
	tie        func(now int64, n int) bool
	static     bool
	api        bool
	retry      int // <0 forever
	autoStop   int // <0 never, 0 immediately, >0 ms
	hasPub     bool
	subs       int
	lastHasOut int64
	inFlight   bool  // an attempt is connecting
	attached   bool  // the pull is the stream's input
	flightEnds int64 // when a muted attempt times out
	startCount int
	timeoutMs  int64
	attempts   []int64 // model times of connection attempts
	stops      []int64 // model times at which an attached / in-flight pull is stopped by the rules
	outcomes   []string
	log        []string
}

func (m *pullModel) hasInput() bool { return m.hasPub || m.attached }

func (m *pullModel) autoStopDue(now int64) bool {
	if m.autoStop < 0 || m.subs > 0 {
		return false
	}
	if m.autoStop == 0 {
		return true
	}
	return now-m.lastHasOut >= int64(m.autoStop)
}

func (m *pullModel) mayAttempt(now int64) bool {
	if !(m.static || m.api) || m.hasInput() || m.inFlight {
		return false
	}
	if m.retry >= 0 && m.startCount > m.retry {
		return false
	}
	if m.autoStopDue(now) {
		return false
	}
	return true
}

// attempt performs a connection attempt at time now with the scripted outcome.
func (m *pullModel) attempt(now int64) bool {
	if m.inFlight && now >= m.flightEnds && !m.inTick {
		m.inFlight = false // an operation issued at this instant comes after the (settled) timeout
	}
	if !m.mayAttempt(now) {
		return false
	}
	i := len(m.attempts)
	m.attempts = append(m.attempts, now)
	m.startCount++
	out := "accept"
	if len(m.outcomes) > 0 {
		if i < len(m.outcomes) {
			out = m.outcomes[i]
		} else {
			out = m.outcomes[len(m.outcomes)-1]
		}
	}
	m.log = append(m.log, fmt.Sprintf("t=%d attempt #%d -> %s", now, i, out))
	switch out {
	case "accept":
		m.attached = true
	case "mute":
		m.inFlight = true
		m.flightEnds = now + m.timeoutMs
	default: // refuse, die_hs, refuse_play: the attempt is over at once
	}
	return true
}

func (m *pullModel) stop(now int64, why string) bool {
	m.startCount = 0
	if m.attached {
		m.attached = false
		m.stops = append(m.stops, now)
		m.log = append(m.log, fmt.Sprintf("t=%d stop (%s)", now, why))
		return true
	}
	return false
}

func (m *pullModel) tick(now int64) {
	m.inTick = true
	defer func() { m.inTick = false }()
	if m.inFlight && now == m.flightEnds && m.tie != nil {
		if m.tie(now, len(m.attempts)) {
			m.inFlight = false
		}
	} else if m.inFlight && (now > m.flightEnds || (m.inclusive && now == m.flightEnds)) {
		m.inFlight = false
	}
	if m.subs > 0 {
		m.lastHasOut = now
	}
	if (m.attached || m.inFlight) && m.autoStopDue(now) {
		m.stop(now, "auto-stop")
		return
	}
	m.attempt(now)
}

type ivl struct{ from, to int64 } // to < 0: still open

type apiRec struct {
	seq      int
	kind     string
	at       int64
	code     int
	retry    int
	autoStop int
	dials    int
}

type relayRulesRun struct {
	evSeq    int
	subIvl   []ivl
	pubIvl   []ivl
	apis     []apiRec
	W        *World
	Plan     RelayRulesPlan
	Origins  []*pullConnObs
	Pushes   []*pushConnObs
	pub      *actors.RtmpClient
	rtspPub  *actors.RtspClient
	rtspLeft bool
	subs     []*actors.RtmpClient
	apiLog   []string
	problems []string
}

type pullConnObs struct {
	Seq      int
	AtMs     int64
	Mode     string
	Stub     *actors.RtmpServerStub
	ClosedMs int64
}

type pushConnObs struct {
	AtMs int64
	Mode string
	Addr string
	Stub *actors.RtmpServerStub
}

var pushTargets = []string{"10.8.8.1:1935", "10.8.8.2:1935"}

func execRelayRules(k *sim.Kernel, pl RelayRulesPlan) {
	rr := &relayRulesRun{Plan: pl}
	m := &pullModel{static: pl.Conf.StaticPull != "", retry: -1, autoStop: 0, outcomes: pl.Origin, timeoutMs: 10000}
	if !m.static {
		m.retry, m.autoStop = 0, -1
	}
	m2 := &pullModel{}
	*m2 = *m
	m2.inclusive = true
	tie := func(now int64, n int) bool { return n < len(rr.Origins) && rr.Origins[n].AtMs == now }
	m.tie, m2.tie = tie, tie
	k.RegisterStub(originHostPort, func(c *sim.Conn) (sim.ConnHandler, time.Duration) {
		i := len(rr.Origins)
		mode := "accept"
		if len(pl.Origin) > 0 {
			if i < len(pl.Origin) {
				mode = pl.Origin[i]
			} else {
				mode = pl.Origin[len(pl.Origin)-1]
			}
		}
		rr.evSeq++
		o := &pullConnObs{Seq: rr.evSeq, AtMs: k.NowMs(), Mode: mode, ClosedMs: -1}
		rr.Origins = append(rr.Origins, o)
		k.Fault("origin_" + mode)
		if mode == "refuse" {
			return nil, 0
		}
		st := actors.NewRtmpServerStub(k, fmt.Sprintf("origin%d", i), c)
		st.Mute = mode == "mute"
		st.DieAfterHandshake = mode == "die_hs"
		st.RefusePlay = mode == "refuse_play"
		if mode == "slow" {
			c.Hold(true) // the origin's answers are delayed until a release_origin op
		}
		o.Stub = st
		return st, 0
	})
	nPush := 0
	for ti, addr := range pl.Conf.PushAddrs {
		addr := addr
		ti := ti
		_ = ti
		k.RegisterStub(addr, func(c *sim.Conn) (sim.ConnHandler, time.Duration) {
			mode := "accept"
			if len(pl.PushTarget) > 0 {
				if nPush < len(pl.PushTarget) {
					mode = pl.PushTarget[nPush]
				} else {
					mode = pl.PushTarget[len(pl.PushTarget)-1]
				}
			}
			nPush++
			p := &pushConnObs{AtMs: k.NowMs(), Mode: mode, Addr: addr}
			rr.Pushes = append(rr.Pushes, p)
			k.Fault("push_target_" + mode)
			if mode == "refuse" {
				return nil, 0
			}
			st := actors.NewRtmpServerStub(k, fmt.Sprintf("pushtarget%d", len(rr.Pushes)), c)
			st.DieAfterHandshake = mode == "die_hs"
			p.Stub = st
			if mode == "slow" {
				c.Hold(true) // the target's answers are delayed: the connect stays in progress across ticks
			}
			return st, 0
		})
	}
	rr.W = StartWorld(k, pl.Conf)
	rr.W.Observe(func() {
		for _, o := range rr.Origins {
			if o.Stub != nil && o.Stub.Closed && o.ClosedMs < 0 {
				o.ClosedMs = k.NowMs()
			}
		}
	})
	nextTick := int64(1000)
	syncModel := func() {
		now := k.NowMs()
		for nextTick <= now {
			m.tick(nextTick)
			m2.tick(nextTick)
			nextTick += 1000
		}
	}
	for oi, op := range pl.Ops {
		k.Settle()
		syncModel()
		now := k.NowMs()
		// one session per configured target: never two connections to a target at once, connecting ones included
		// (a connect that a previous incarnation of the publisher left behind is not a session of this one: it is judged at
		// the end - it must never come to publish next to the current session)
		curFrom := int64(0)
		if n := len(rr.pubIvl); n > 0 {
			curFrom = rr.pubIvl[n-1].from
		}
		for _, addr := range pl.Conf.PushAddrs {
			open := 0
			for _, p := range rr.Pushes {
				if p.Addr == addr && p.Stub != nil && !p.Stub.Closed && p.AtMs >= curFrom {
					open++
				}
			}
			if open > 1 {
				k.Violate("C17.push-duplicate", "%d connections to push target %s are open at once at %d ms (a connect still in progress counts)", open, addr, now)
			}
		}
		switch op.Kind {
		case "advance":
			k.Advance(time.Duration(op.Ms) * time.Millisecond)
			syncModel()
		case "sub_join":
			s := actors.NewRtmpClient(k, fmt.Sprintf("sub%d", len(rr.subs)), actors.RolePlay, "live", "st0")
			s.Connect(PortRtmp, 50+len(rr.subs))
			rr.subs = append(rr.subs, s)
			k.Settle()
			rr.subIvl = append(rr.subIvl, ivl{now, -1})
			for _, x := range []*pullModel{m, m2} {
				x.subs++
				x.lastHasOut = now
				x.attempt(now)
			}
		case "sub_leave":
			for _, s := range rr.subs {
				if s.LeftStep < 0 {
					s.Leave(op.Reset)
					k.Settle()
					for i := range rr.subIvl {
						if rr.subIvl[i].to < 0 {
							rr.subIvl[i].to = now
							break
						}
					}
					m.subs--
					m2.subs--
					break
				}
			}
		case "pub_start":
			if pl.PubKind == "rtsp" {
				if rr.rtspPub == nil {
					a := actors.NewRtspClient(k, "pub", "pub", fmt.Sprintf("rtsp://127.0.0.1:%d/live/st0", PortRtsp), true)
					a.Sdp = "v=0\r\no=- 0 0 IN IP4 127.0.0.1\r\ns=No Name\r\nc=IN IP4 127.0.0.1\r\nt=0 0\r\nm=video 0 RTP/AVP 96\r\na=rtpmap:96 H264/90000\r\na=fmtp:96 packetization-mode=1\r\na=control:streamid=0\r\n"
					a.Tracks = actors.ParseSdpTracks(a.Sdp)
					a.Connect(PortRtsp, 10)
					k.Settle()
					rr.rtspPub = a
					if a.Ready {
						m.hasPub, m2.hasPub = true, true
						rr.pubIvl = append(rr.pubIvl, ivl{now, -1})
					}
				}
				break
			}
			if rr.pub == nil {
				name := "st0"
				if pl.PubQuery != "" {
					name += "?" + pl.PubQuery
				}
				rr.pub = actors.NewRtmpClient(k, "pub", actors.RolePublish, "live", name)
				rr.pub.Connect(PortRtmp, 10)
				k.Settle()
				for _, x := range []*pullModel{m, m2} {
					if !x.hasInput() && !rr.pub.Closed {
						x.hasPub = true
					}
				}
				if !rr.pub.Closed {
					rr.pubIvl = append(rr.pubIvl, ivl{now, -1})
				}
				if m.hasInput() && !m.hasPub != rr.pub.Closed && m.attached {
					// refused because the pull is the input: fine either way, the C03 check judges admission
				}
				rr.pub.Publish(rtmpc.Msg{Type: rtmpc.TypeDataAmf0, Payload: []byte{2, 0, 10, 'o', 'n', 'M', 'e', 't', 'a', 'D', 'a', 't', 'a', 5}})
				k.Settle()
			}
		case "pub_restart":
			// the name is published again (RTMP publishers only): a new incarnation after the previous one has left
			if pl.PubKind != "rtsp" && rr.pub != nil && rr.pub.LeftStep >= 0 {
				name := "st0"
				if pl.PubQuery != "" {
					name += "?" + pl.PubQuery
				}
				rr.pub = actors.NewRtmpClient(k, fmt.Sprintf("pub-again%d", oi), actors.RolePublish, "live", name)
				rr.pub.Connect(PortRtmp, 10)
				k.Settle()
				if !rr.pub.Closed {
					rr.pubIvl = append(rr.pubIvl, ivl{now, -1})
					m.hasPub, m2.hasPub = true, true
				}
				rr.pub.Publish(rtmpc.Msg{Type: rtmpc.TypeDataAmf0, Payload: []byte{2, 0, 10, 'o', 'n', 'M', 'e', 't', 'a', 'D', 'a', 't', 'a', 5}})
				k.Settle()
				k.Probe("c17_republish_during_push")
			}
		case "pub_stop":
			if rr.rtspPub != nil && !rr.rtspLeft {
				rr.rtspLeft = true
				rr.rtspPub.Leave(op.Reset)
				k.Settle()
				for i := range rr.pubIvl {
					if rr.pubIvl[i].to < 0 {
						rr.pubIvl[i].to = now
					}
				}
				m.hasPub, m2.hasPub = false, false
			}
			if rr.pub != nil && rr.pub.LeftStep < 0 {
				rr.pub.Leave(op.Reset)
				k.Settle()
				for i := range rr.pubIvl {
					if rr.pubIvl[i].to < 0 {
						rr.pubIvl[i].to = now
					}
				}
				m.hasPub = false
				m2.hasPub = false
			}
		case "api_start":
			body, _ := json.Marshal(map[string]interface{}{
				"url": fmt.Sprintf("rtmp://%s/live/st0", originHostPort), "stream_name": "st0",
				"pull_timeout_ms": pullTimeoutMs, "pull_retry_num": op.Retry, "auto_stop_pull_after_no_out_ms": op.AutoStop,
			})
			before := len(rr.Origins)
			rr.evSeq++
			startSeq := rr.evSeq
			call := rr.W.ApiStart(fmt.Sprintf("api%d", oi), "/api/ctrl/start_relay_pull", body)
			k.Settle()
			res := call.Result()
			if call.C != nil {
				call.C.Leave(false)
			}
			m.api, m.retry, m.autoStop, m.timeoutMs = true, op.Retry, op.AutoStop, pullTimeoutMs
			m2.api, m2.retry, m2.autoStop, m2.timeoutMs = true, op.Retry, op.AutoStop, pullTimeoutMs
			if op.AutoStop > 0 && m.subs == 0 && !m.hasInput() && !m.inFlight {
				// the property does not say from when the "consumer seen within the window" clock runs for a
				// stream that has no consumer at the time the pull is configured: accept either outcome
				if res.ErrorCode() == 0 {
					m.lastHasOut, m2.lastHasOut = now, now
				} else {
					m.lastHasOut = now - int64(op.AutoStop) - 1
					m2.lastHasOut = m.lastHasOut
				}
				k.Probe("c17_ambiguous_window_start")
			}
			started := m.attempt(now)
			started2 := m2.attempt(now)
			rr.apiLog = append(rr.apiLog, fmt.Sprintf("t=%d api_start retry=%d autostop=%d -> code=%d model_started=%v dials=%d", now, op.Retry, op.AutoStop, res.ErrorCode(), started, len(rr.Origins)-before))
			rr.apis = append(rr.apis, apiRec{startSeq, "start", now, res.ErrorCode(), op.Retry, op.AutoStop, len(rr.Origins) - before})
			if !res.Done {
				k.Violate("C17.api", "start_relay_pull did not answer")
			}
			// a start that follows a stop / kick (or is the first one) opens a new pull task with a fresh budget: when the
			// rules say an attempt is due under either tie order, lal must make one
			freshTask := true
			for i := len(rr.apis) - 2; i >= 0; i-- {
				if rr.apis[i].kind == "start" {
					freshTask = false
				}
				break
			}
			for _, o := range rr.Origins[:before] {
				if o.Stub != nil && !o.Stub.Closed {
					freshTask = false // an earlier connection is still open (slow origin): "nothing in flight" is not certain
				}
			}
			// (with an auto-stop window and no consumer attached right now, whether "a consumer has been present within the
			// window" holds depends on per-tick sampling of consumers that came and went: not judged here)
			if !m.static && freshTask && (op.AutoStop < 0 || m.subs > 0) && res.Done && started && started2 && res.ErrorCode() != 0 && len(rr.Origins)-before == 0 {
				k.Violate("C17.api-start-refused", "start_relay_pull (retry=%d autostop=%d) after a stop answered error_code=%d (%s) and made no attempt although the pull is enabled, the stream has no input, nothing is in flight and the new task's budget is unused (model: %s)", op.Retry, op.AutoStop, res.ErrorCode(), clip(string(res.Body), 120), strings.Join(m.log, "; "))
			}
			if m.static && (res.ErrorCode() == 0) != started && (res.ErrorCode() == 0) != started2 {
				k.Violate("C17.api-start-response", "start_relay_pull answered error_code=%d but by the rules an attempt %s start (model: %s)", res.ErrorCode(), map[bool]string{true: "must", false: "must not"}[started], strings.Join(m.log, "; "))
			}
			if (len(rr.Origins)-before > 0) != (res.ErrorCode() == 0) {
				k.Violate("C17.api-start-response", "start_relay_pull answered error_code=%d but %d connection attempt(s) were made", res.ErrorCode(), len(rr.Origins)-before)
			}
		case "api_stop":
			res := rr.W.Api(fmt.Sprintf("api%d", oi), "/api/ctrl/stop_relay_pull?stream_name=st0", nil)
			m.api, m2.api = false, false
			stopped := m.stop(now, "api stop")
			stopped2 := m2.stop(now, "api stop")
			rr.apiLog = append(rr.apiLog, fmt.Sprintf("t=%d api_stop -> code=%d model_stopped=%v", now, res.ErrorCode(), stopped))
			rr.evSeq++
			rr.apis = append(rr.apis, apiRec{rr.evSeq, "stop", now, res.ErrorCode(), 0, 0, 0})
			if m.static && res.Done && res.ErrorCode() != 1002 && (res.ErrorCode() == 0) != stopped && (res.ErrorCode() == 0) != stopped2 {
				k.Violate("C17.api-stop-response", "stop_relay_pull answered error_code=%d but by the rules a pull session %s attached (model: %s)", res.ErrorCode(), map[bool]string{true: "was", false: "was not"}[stopped], strings.Join(m.log, "; "))
			}
		case "api_kick":
			st := rr.W.Api(fmt.Sprintf("statk%d", oi), "/api/stat/group?stream_name=st0", nil)
			sid := ""
			if data, _ := st.JSON["data"].(map[string]interface{}); data != nil {
				if pull, _ := data["pull"].(map[string]interface{}); pull != nil {
					sid, _ = pull["session_id"].(string)
				}
			}
			if sid == "" {
				break
			}
			body, _ := json.Marshal(map[string]interface{}{"stream_name": "st0", "session_id": sid})
			res := rr.W.Api(fmt.Sprintf("kick%d", oi), "/api/ctrl/kick_session", body)
			rr.apiLog = append(rr.apiLog, fmt.Sprintf("t=%d api_kick %s -> code=%d", now, sid, res.ErrorCode()))
			if res.Done && res.ErrorCode() == 0 {
				rr.evSeq++
				rr.apis = append(rr.apis, apiRec{rr.evSeq, "kick", now, 0, 0, 0, 0})
				// a kicked pull is stopped and, if it was started through the API, no longer enabled
				for _, x := range []*pullModel{m, m2} {
					x.api = false
					x.inFlight = false
					x.stop(now, "kick")
				}
				k.Probe("c17_pull_kicked")
			}
		case "release_origin":
			for _, o := range rr.Origins {
				if o.Stub != nil && o.Mode == "slow" {
					o.Stub.Conn.Hold(false)
				}
			}
			k.Settle()
		case "origin_close":
			for _, o := range rr.Origins {
				if o.Stub != nil && !o.Stub.Closed && o.Stub.Started {
					if op.Reset {
						o.Stub.Conn.ResetByPeer()
					} else {
						o.Stub.Conn.CloseByPeer()
					}
					k.Settle()
					m.attached, m2.attached = false, false
				}
			}
		}
	}
	k.Settle()
	for _, p := range rr.Pushes {
		if p.Mode == "slow" && p.Stub != nil && !p.Stub.Closed {
			p.Stub.Conn.Hold(false)
		}
	}
	k.Advance(2500 * time.Millisecond)
	syncModel()
	// ---- compare connection attempts
	if k.Tracing() {
		for _, l := range m.log {
			k.Note("MODEL %s", l)
		}
		for _, l := range rr.apiLog {
			k.Note("API %s", l)
		}
		for i, o := range rr.Origins {
			k.Note("OBS attempt #%d at %d mode=%s closed=%d", i, o.AtMs, o.Mode, o.ClosedMs)
		}
	}
	matches := func(x *pullModel) bool {
		if len(rr.Origins) != len(x.attempts) {
			return false
		}
		for i, o := range rr.Origins {
			if d := o.AtMs - x.attempts[i]; d < -1000 || d > 1000 {
				return false
			}
		}
		return true
	}
	if !matches(m) && matches(m2) {
		m = m2
		k.Probe("c17_timeout_tick_tie")
	}
	usesApi := len(rr.apis) > 0
	if usesApi {
		rr.checkApiInvariants(k)
	}
	if !usesApi && len(rr.Origins) != len(m.attempts) {
		var obs []int64
		for _, o := range rr.Origins {
			obs = append(obs, o.AtMs)
		}
		k.Violate("C17.pull-attempts", "relay pull connection attempts observed at %v ms, the rules give %v ms (model: %s)", obs, m.attempts, strings.Join(m.log, "; "))
	}
	for i, o := range rr.Origins {
		if usesApi {
			break
		}
		d := o.AtMs - m.attempts[i]
		if d < -1000 || d > 1000 {
			k.Violate("C17.pull-attempt-time", "pull attempt #%d observed at %d ms, the rules give %d ms (more than one tick apart)", i, o.AtMs, m.attempts[i])
		}
	}
	// ---- an attached pull is stopped when the rules say so, and only then
	attachedEnd := false
	for _, o := range rr.Origins {
		if o.Stub != nil && o.Stub.Started && !o.Stub.Closed {
			attachedEnd = true
		}
	}
	if !usesApi && attachedEnd != m.attached {
		k.Violate("C17.pull-state", "at the end a pull session is %s but by the rules it should be %s (model: %s; api: %s)",
			map[bool]string{true: "still attached", false: "not attached"}[attachedEnd], map[bool]string{true: "attached", false: "stopped"}[m.attached],
			strings.Join(m.log, "; "), strings.Join(rr.apiLog, "; "))
	}
	if len(rr.Origins) > 0 {
		k.Probe("nontrivial")
	}
	if len(m.stops) > 0 {
		k.Probe("c17_rule_stops")
	}
	// ---- push
	pubReady := (rr.pub != nil && rr.pub.Ready) || (rr.rtspPub != nil && rr.rtspPub.Ready)
	pubGone := (rr.pub != nil && rr.pub.LeftStep >= 0) || rr.rtspLeft
	pubClosed := (rr.pub != nil && rr.pub.Closed) || (rr.rtspPub != nil && rr.rtspPub.Closed)
	if len(pl.Conf.PushAddrs) > 0 && pubReady {
		k.Probe("nontrivial")
		perTarget := map[string][]*pushConnObs{}
		for _, p := range rr.Pushes {
			perTarget[p.Addr] = append(perTarget[p.Addr], p)
		}
		for _, addr := range pl.Conf.PushAddrs {
			ps := perTarget[addr]
			if len(ps) == 0 {
				k.Violate("C17.push-missing", "a publisher was accepted but no push connection was made to target %s", addr)
			}
			open := 0
			for _, p := range ps {
				if p.Stub != nil && p.Stub.Started && !p.Stub.Closed {
					open++
				}
				if p.Stub != nil && p.Stub.Started {
					want := "st0"
					if pl.PubQuery != "" {
						want += "?" + pl.PubQuery
					}
					if pl.PubKind == "rtsp" {
						want = p.Stub.Stream // only an RTMP publisher's URL parameters are to be forwarded
						if !strings.HasPrefix(p.Stub.Stream, "st0") {
							k.Violate("C17.push-url-param", "push target %s was asked to publish %q for the RTSP publisher of st0", addr, clip(p.Stub.Stream, 80))
						}
					}
					if p.Stub.Stream != want {
						k.Violate("C17.push-url-param", "push target %s was asked to publish %q (len %d), the publisher's name+parameters are %q (len %d)", addr, clip(p.Stub.Stream, 80), len(p.Stub.Stream), clip(want, 80), len(want))
					}
					k.Probe("c17_push_started")
				}
			}
			if open > 1 {
				k.Violate("C17.push-duplicate", "%d push sessions are open to target %s at once", open, addr)
			}
			// a failed target is retried on later ticks for as long as the publisher stays
			if !pubGone && !pubClosed && open == 0 && len(ps) > 0 {
				last := ps[len(ps)-1]
				if now := k.NowMs(); now-last.AtMs > 2600 {
					k.Violate("C17.push-no-retry", "push to target %s failed (attempt at %d ms, target behaviour %q) and was not retried although the publisher is still there at %d ms", addr, last.AtMs, last.Mode, now)
				}
				k.Probe("c17_push_retry_judged")
			}
			if pubGone && open > 0 {
				k.Violate("C17.push-not-ended", "the publisher left but the push session to %s is still open", addr)
			}
		}
	}
}

func clip(s string, n int) string {
	if len(s) > n {
		return s[:n] + "..."
	}
	return s
}

func genC17Plan(r *sim.Rng, tier string) RelayRulesPlan {
	var pl RelayRulesPlan
	pl.Conf = LalConf{ApiEnable: true, NoHook: true}
	pl.Sched = sim.SchedParams{MaxSteps: 60000, MaxSimSec: 3600, PermuteMap: r.Bool(0.5)}
	pushMode := r.Bool(0.35)
	if pushMode {
		pl.Conf.PushAddrs = pushTargets[:1+r.Intn(2)]
		for i := 0; i < 1+r.Intn(4); i++ {
			pl.PushTarget = append(pl.PushTarget, []string{"accept", "accept", "refuse", "die_hs", "slow"}[r.Intn(5)])
		}
		pl.PushTarget = append(pl.PushTarget, "accept")
		switch r.Intn(4) {
		case 0:
		case 1:
			pl.PubQuery = "a=1&token=xyz"
		case 2:
			pl.PubQuery = "k=" + strings.Repeat("v", 100+r.Intn(400))
		case 3:
			pl.PubQuery = "k=" + strings.Repeat("w", 3000+r.Intn(3000))
		}
		if r.Bool(0.3) {
			pl.PubKind, pl.PubQuery = "rtsp", ""
			pl.Conf.RtspEnable = true
		}
		pl.Ops = append(pl.Ops, RelayRulesOp{Kind: "pub_start"})
		for i := 0; i < 1+r.Intn(4); i++ {
			pl.Ops = append(pl.Ops, RelayRulesOp{Kind: "advance", Ms: 300 + r.Intn(2500)})
		}
		if r.Bool(0.6) {
			pl.Ops = append(pl.Ops, RelayRulesOp{Kind: "pub_stop", Reset: r.Bool(0.3)})
			if r.Bool(0.4) {
				// the name is published again, at once or a little later (a push attempt may still be connecting)
				if r.Bool(0.5) {
					pl.Ops = append(pl.Ops, RelayRulesOp{Kind: "advance", Ms: 100 + r.Intn(2500)})
				}
				pl.Ops = append(pl.Ops, RelayRulesOp{Kind: "pub_restart"})
				for i := 0; i < 1+r.Intn(3); i++ {
					pl.Ops = append(pl.Ops, RelayRulesOp{Kind: "advance", Ms: 300 + r.Intn(2500)})
				}
				if r.Bool(0.5) {
					pl.Ops = append(pl.Ops, RelayRulesOp{Kind: "pub_stop", Reset: r.Bool(0.3)})
				}
			}
			pl.Ops = append(pl.Ops, RelayRulesOp{Kind: "advance", Ms: 1500})
		}
		return pl
	}
	for i := 0; i < 1+r.Intn(5); i++ {
		pl.Origin = append(pl.Origin, []string{"accept", "accept", "refuse", "mute", "die_hs"}[r.Intn(5)])
	}
	n := 3 + r.Intn(10)
	if tier == "thorough" {
		n = 5 + r.Intn(25)
	}
	adv := func() RelayRulesOp {
		return RelayRulesOp{Kind: "advance", Ms: []int{200, 700, 1000, 1300, 2500, 6000, 11000}[r.Intn(7)]}
	}
	static := r.Bool(0.5)
	if static {
		// mode A: static relay pull (retry forever, stop as soon as no consumer is left)
		pl.Conf.StaticPull = originHostPort
		for i := 0; i < n; i++ {
			switch r.Intn(9) {
			case 0, 1:
				pl.Ops = append(pl.Ops, RelayRulesOp{Kind: "sub_join"})
			case 2:
				pl.Ops = append(pl.Ops, RelayRulesOp{Kind: "sub_leave", Reset: r.Bool(0.3)})
			case 3:
				pl.Ops = append(pl.Ops, RelayRulesOp{Kind: "origin_close", Reset: r.Bool(0.5)})
			case 5:
				pl.Ops = append(pl.Ops, RelayRulesOp{Kind: "api_kick"})
			case 4:
				if r.Bool(0.5) {
					pl.Ops = append(pl.Ops, RelayRulesOp{Kind: "pub_start"})
				} else {
					pl.Ops = append(pl.Ops, RelayRulesOp{Kind: "pub_stop"})
				}
			default:
				pl.Ops = append(pl.Ops, adv())
			}
		}
		return pl
	}
	// mode B: API-started pull
	if r.Bool(0.4) {
		pl.Origin[r.Intn(len(pl.Origin))] = "slow"
	}
	start := RelayRulesOp{Kind: "api_start", Retry: []int{-1, 0, 1, 2}[r.Intn(4)], AutoStop: []int{-1, 0, 1500, 4000}[r.Intn(4)]}
	if r.Bool(0.6) {
		pl.Ops = append(pl.Ops, RelayRulesOp{Kind: "sub_join"})
	}
	pl.Ops = append(pl.Ops, start)
	for i := 0; i < n; i++ {
		switch r.Intn(10) {
		case 0:
			pl.Ops = append(pl.Ops, RelayRulesOp{Kind: "sub_join"})
		case 1:
			pl.Ops = append(pl.Ops, RelayRulesOp{Kind: "sub_leave", Reset: r.Bool(0.3)})
		case 2:
			pl.Ops = append(pl.Ops, RelayRulesOp{Kind: "origin_close", Reset: r.Bool(0.5)})
		case 3:
			pl.Ops = append(pl.Ops, RelayRulesOp{Kind: "api_stop"})
		case 5:
			pl.Ops = append(pl.Ops, RelayRulesOp{Kind: "release_origin"})
		case 6:
			pl.Ops = append(pl.Ops, RelayRulesOp{Kind: "api_kick"})
		case 4:
			pl.Ops = append(pl.Ops, RelayRulesOp{Kind: "api_start", Retry: []int{-1, 0, 1, 2}[r.Intn(4)], AutoStop: []int{-1, 0, 1500, 4000}[r.Intn(4)]})
		default:
			pl.Ops = append(pl.Ops, adv())
		}
	}
	return pl
}

func init() {
	Register(&Check{
		ID:  "C17",
		Gen: func(r *sim.Rng, tier string) json.RawMessage { return mustJSON(genC17Plan(r, tier)) },
		Sched: func(plan json.RawMessage) sim.SchedParams {
			var pl RelayRulesPlan
			fromJSON(plan, &pl)
			return pl.Sched
		},
		Run: func(k *sim.Kernel, plan json.RawMessage) {
			var pl RelayRulesPlan
			fromJSON(plan, &pl)
			execRelayRules(k, pl)
		},
		Shrink: func(plan json.RawMessage) []json.RawMessage {
			var pl RelayRulesPlan
			fromJSON(plan, &pl)
			var out []json.RawMessage
			for i := range pl.Ops {
				q := pl
				q.Ops = append(append([]RelayRulesOp{}, pl.Ops[:i]...), pl.Ops[i+1:]...)
				out = append(out, mustJSON(q))
			}
			if len(pl.Origin) > 1 {
				q := pl
				q.Origin = pl.Origin[:len(pl.Origin)-1]
				out = append(out, mustJSON(q))
			}
			if len(pl.PubQuery) > 20 {
				q := pl
				q.PubQuery = pl.PubQuery[:len(pl.PubQuery)/2]
				out = append(out, mustJSON(q))
			}
			return out
		},
		Shape: func(plan json.RawMessage) string {
			var pl RelayRulesPlan
			fromJSON(plan, &pl)
			ops := ""
			for _, o := range pl.Ops {
				ops += o.Kind[:1] + o.Kind[len(o.Kind)-1:]
			}
			return fmt.Sprintf("sp%v/push%d/q%d/%s/%s", pl.Conf.StaticPull != "", len(pl.Conf.PushAddrs), len(pl.PubQuery)/100, strings.Join(pl.Origin, ""), ops)
		},
		Brief: func(plan json.RawMessage) interface{} {
			var pl RelayRulesPlan
			fromJSON(plan, &pl)
			if len(pl.PubQuery) > 40 {
				pl.PubQuery = fmt.Sprintf("%s...(%d bytes)", pl.PubQuery[:40], len(pl.PubQuery))
			}
			return pl
		},
	})
}

func inAny(iv []ivl, t int64) bool {
	for _, x := range iv {
		if t > x.from && (x.to < 0 || t < x.to) {
			return true
		}
	}
	return false
}

// checkApiInvariants judges an API-driven relay pull history by invariants taken from the property text
// (no exact timing model: the property leaves open from when several clocks run).
func (rr *relayRulesRun) checkApiInvariants(k *sim.Kernel) {
	end := k.NowMs()
	// attempt end times: when lal closed the connection (refused dials end at once)
	endOf := func(o *pullConnObs) int64 {
		if o.Stub == nil {
			return o.AtMs
		}
		if o.ClosedMs >= 0 {
			return o.ClosedMs
		}
		return -1
	}
	for i, o := range rr.Origins {
		// I1: one attempt at a time
		if i > 0 {
			pe := endOf(rr.Origins[i-1])
			if pe < 0 || pe > o.AtMs {
				k.Violate("C17.concurrent-attempts", "pull attempt #%d started at %d ms while attempt #%d (started %d ms) was still open", i, o.AtMs, i-1, rr.Origins[i-1].AtMs)
			}
		}
		// I2: never while a publisher is the stream's input
		if inAny(rr.pubIvl, o.AtMs) {
			k.Violate("C17.attempt-with-input", "pull attempt #%d started at %d ms while a publisher was the stream's input", i, o.AtMs)
		}
		// I5: not after an API stop (until the next API start)
		lastStop, lastStart := int64(-1), int64(-1)
		for _, a := range rr.apis {
			if a.seq < o.Seq {
				if a.kind == "stop" || (a.kind == "kick" && rr.Plan.Conf.StaticPull == "") {
					// (a kick ends the session and the API enablement; a statically configured pull stays enabled)
					lastStop = int64(a.seq)
				} else if a.kind == "start" {
					lastStart = int64(a.seq)
				}
			}
		}
		// I6: with auto-stop "immediately" (0 ms) in force a pull is only attempted while a consumer is present
		// (presence within a second of the attempt is taken as present: joins, leaves and ticks share instants)
		{
			auto, nStart := -1, 0
			for _, a := range rr.apis {
				if a.kind == "start" && a.seq < o.Seq {
					auto = a.autoStop
					nStart++
				}
			}
			near := false
			for _, s := range rr.subIvl {
				if s.from <= o.AtMs+1100 && (s.to < 0 || s.to >= o.AtMs-1100) {
					near = true
				}
			}
			if nStart == 1 && auto == 0 && rr.Plan.Conf.StaticPull == "" && !near {
				k.Violate("C17.attempt-without-consumer", "pull attempt #%d started at %d ms although auto_stop_pull_after_no_out_ms is 0 and no consumer was present within a second of that instant", i, o.AtMs)
			}
		}
		if lastStop >= 0 && lastStop > lastStart {
			k.Violate("C17.attempt-after-stop", "pull attempt #%d started at %d ms although stop_relay_pull / kick_session was called (event %d) and the pull was not started again", i, o.AtMs, lastStop)
		}
	}
	// I3: retry budget: attempts since the last explicit (re)start or stop never exceed budget+1
	for i, o := range rr.Origins {
		budget, since := -1, int64(0)
		multi := 0
		for _, a := range rr.apis {
			if a.seq < o.Seq {
				if a.kind == "start" {
					budget = a.retry
					multi++
				}
				if a.kind == "stop" || a.kind == "kick" {
					since = a.at
				}
			}
		}
		if multi > 1 {
			continue // the property does not say how a re-configuration interacts with the attempts already made
		}
		// a pull that was attached and then stopped by the auto-stop rule also restarts the budget
		for j := 0; j < i; j++ {
			p := rr.Origins[j]
			if p.Stub != nil && p.Stub.Started && p.ClosedMs > since {
				since = p.ClosedMs
			}
		}
		// with auto-stop configured, the pull counts as stopped once the stream has had no consumer for the
		// window; a consumer coming back (re)starts it with a fresh budget
		for _, sv := range rr.subIvl {
			alone := true
			for _, other := range rr.subIvl {
				if other != sv && other.from < sv.from && (other.to < 0 || other.to > sv.from) {
					alone = false
				}
			}
			if alone && sv.from <= o.AtMs && sv.from > since {
				since = sv.from
			}
		}
		if budget < 0 {
			continue
		}
		n := 0
		for j := 0; j <= i; j++ {
			if rr.Origins[j].AtMs >= since {
				n++
			}
		}
		if n > budget+1 {
			k.Violate("C17.retry-budget", "pull attempt #%d at %d ms is attempt number %d since the pull was (re)started at %d ms, the retry budget is %d", i, o.AtMs, n, since, budget)
		}
	}
	// I5b: after stop_relay_pull nothing stays attached
	for _, a := range rr.apis {
		if a.kind != "stop" {
			continue
		}
		restarted := false
		for _, b := range rr.apis {
			if b.kind == "start" && b.at >= a.at {
				restarted = true
			}
		}
		if restarted {
			continue
		}
		for i, o := range rr.Origins {
			if o.Stub != nil && o.Stub.Started && !o.Stub.Closed && end-a.at > 1500 {
				k.Violate("C17.stop-ineffective", "stop_relay_pull was called at %d ms (answer error_code=%d) but pull attempt #%d (started %d ms) is still attached at %d ms", a.at, a.code, i, o.AtMs, end)
			}
		}
	}
	// I4: auto-stop. With auto-stop a in force, an attached pull is closed once no consumer has been present
	// for a (+1 tick); it is never closed by lal while a consumer is present unless stop was called.
	for i, o := range rr.Origins {
		if o.Stub == nil || !o.Stub.Started {
			continue
		}
		auto, nStart := -1, 0
		for _, a := range rr.apis {
			if a.kind == "start" {
				auto = a.autoStop
				nStart++
			}
		}
		if nStart > 1 {
			auto = -1 // re-configured: which value is in force for an already attached pull is left open
		}
		closed := o.ClosedMs
		if closed >= 0 && inAny(rr.subIvl, closed) && o.Stub.Conn != nil && !o.Stub.PeerClosedFirst() {
			stopped := false
			for _, a := range rr.apis {
				if (a.kind == "stop" || a.kind == "kick") && a.at <= closed && a.at >= o.AtMs {
					stopped = true
				}
			}
			if !stopped {
				k.Violate("C17.stopped-with-consumer", "pull attempt #%d was closed by lal at %d ms while a consumer was present and no stop was requested", i, closed)
			}
		}
		if auto > 0 && closed >= 0 && !inAny(rr.subIvl, closed) && o.Stub.Conn != nil && !o.Stub.PeerClosedFirst() {
			// closed by lal with nobody watching: was it the auto-stop rule, and if so not before the stream had been
			// without a consumer for the configured time (the rule is evaluated once per 1 s tick)
			stopped := false
			for _, a := range rr.apis {
				if (a.kind == "stop" || a.kind == "kick") && a.at <= closed && a.at >= o.AtMs {
					stopped = true
				}
			}
			// the window runs from the start request, or from the departure of the last consumer after it
			lastGone := int64(0)
			for _, a := range rr.apis {
				if a.kind == "start" {
					lastGone = a.at
				}
			}
			// consumer presence is sampled once per 1 s tick: a consumer counts from the last tick that saw it
			for _, s := range rr.subIvl {
				if s.to < 0 || s.to > closed {
					continue
				}
				seen := (s.to - 1) / 1000 * 1000      // last tick strictly before the departure ...
				if seen > s.from && seen > lastGone { // ... and strictly after the arrival (same-millisecond orders are open)
					lastGone = seen
				}
			}
			if !stopped && closed-lastGone < int64(auto)-150 {
				k.Violate("C17.auto-stop-early", "auto-stop is %d ms; the last consumer left at %d ms but lal closed pull attempt #%d already at %d ms (%d ms later)", auto, lastGone, i, closed, closed-lastGone)
			}
			k.Probe("c17_auto_stop_timing_judged")
		}
		if auto >= 0 && closed < 0 {
			// when did the last consumer leave (or: never any since the attempt)?
			lastGone := o.AtMs
			open := false
			for _, s := range rr.subIvl {
				if s.to < 0 {
					open = true
				} else if s.to > lastGone {
					lastGone = s.to
				}
			}
			if !open && end-lastGone > int64(auto)+2100 {
				k.Violate("C17.auto-stop-missing", "auto-stop is %d ms and no consumer has been present since %d ms, but pull attempt #%d is still attached at %d ms", auto, lastGone, i, end)
			}
		}
	}
	// I7: API responses tell what happened
	for _, a := range rr.apis {
		if a.kind == "start" && (a.code == 0) != (a.dials > 0) {
			k.Violate("C17.api-start-response", "start_relay_pull at %d ms answered error_code=%d but %d connection attempt(s) were made by the call", a.at, a.code, a.dials)
		}
	}
}

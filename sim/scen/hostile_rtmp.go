package scen

import (
	"encoding/binary"
	"encoding/json"
	"fmt"
	"strings"
	"time"

	"simlal/sim"
	"simlal/sim/actors"
	"simlal/sim/media"
	"simlal/sim/rtmpc"
)

// ---- hostile RTMP peers (C04) and hostile payloads from an accepted publisher (C05) -----------------------------------------

// WireItem is one thing a hostile connection sends after its valid prefix.
type WireItem struct {
	Kind  string `json:"k"` // msg | badchunk | raw | cmd | close | reset | pause
	Type  int    `json:"t,omitempty"`
	Csid  int    `json:"csid,omitempty"`
	Msid  int    `json:"msid,omitempty"`
	Ts    uint32 `json:"ts,omitempty"`
	Fmt   int    `json:"fmt,omitempty"`
	Gen   string `json:"gen,omitempty"` // payload generator
	N     int    `json:"n,omitempty"`
	Seed  uint64 `json:"seed,omitempty"`
	Len   int    `json:"len,omitempty"` // declared message length for badchunk (-1: actual)
	Name  string `json:"name,omitempty"`
	Shape int    `json:"shape,omitempty"`
	Lit   []byte `json:"lit,omitempty"` // Gen "literal": the payload itself
}

type HostileConn struct {
	Prefix int    `json:"prefix"` // 0 nothing, 1 handshake, 2 +connect, 3 +createStream, 4 +publish, 5 +play
	Stream string `json:"stream"`
	// TcUrl: the tcUrl of the connect command in the valid prefix ("" = the usual rtmp://127.0.0.1/live); lal appends
	// the stream name to it and parses the result, so odd forms of both are part of the input space
	TcUrl string     `json:"tc_url,omitempty"`
	Items []WireItem `json:"items"`
}

type HostilePlan struct {
	Conf    LalConf         `json:"conf"`
	Sched   sim.SchedParams `json:"sched"`
	Conns   []HostileConn   `json:"conns"`
	ByUnits int             `json:"by_units"`
}

func randBytes(seed uint64, n int) []byte {
	r := sim.NewRng(seed)
	b := make([]byte, n)
	for i := range b {
		b[i] = byte(r.U64())
	}
	return b
}

// genPayload builds a payload from a generator name.
func genPayload(it WireItem) []byte {
	n := it.N
	switch it.Gen {
	case "literal":
		return append([]byte{}, it.Lit...)
	case "rand":
		return randBytes(it.Seed, n)
	case "zeros":
		return make([]byte, n)
	case "amf_nest_obj":
		// {a:{a:{a:...}}} n levels deep, unterminated
		b := make([]byte, 0, n*4+8)
		for i := 0; i < n; i++ {
			b = append(b, 3, 0, 1, 'a')
		}
		return append(b, 5)
	case "amf_nest_arr":
		b := make([]byte, 0, n*5+8)
		for i := 0; i < n; i++ {
			b = append(b, 10, 0, 0, 0, 1)
		}
		return append(b, 5)
	case "amf_nest_ecma":
		b := make([]byte, 0, n*8+8)
		for i := 0; i < n; i++ {
			b = append(b, 8, 0, 0, 0, 1, 0, 1, 'a')
		}
		return append(b, 5)
	case "meta_objvals":
		// onMetaData whose ecma array / object holds hostile property values
		var f rtmpc.Amf
		if n%2 == 0 {
			f.Str("@setDataFrame")
		}
		f.Str("onMetaData")
		b := f.B
		if n%3 == 0 {
			b = append(b, 3)
		} else {
			b = append(b, 8, 0, 0, 0, byte(n%4))
		}
		for i := 0; i < 1+n%3; i++ {
			b = append(b, 0, 1, byte('p'+i))
			b = append(b, amfHostileValue(n/3+i*5+int(it.Seed%23))...)
		}
		if n%5 != 0 {
			b = append(b, 0, 0, 9)
		}
		return b
	case "meta_knownkeys":
		// a well-framed onMetaData whose well-known properties (the ones servers look up by name) hold well-formed values
		// of another type than expected: strings where numbers belong and the other way round
		var f rtmpc.Amf
		if n%2 == 0 {
			f.Str("@setDataFrame")
		}
		f.Str("onMetaData")
		b := f.B
		if n%3 == 0 {
			b = append(b, 3)
		} else {
			b = append(b, 8, 0, 0, 0, 12)
		}
		wrong := [][]byte{{2, 0, 4, 'm', 'p', '4', 'a'}, {2, 0, 0}, {1, 1}, {5}, {6}, {3, 0, 0, 9}, {8, 0, 0, 0, 0, 0, 0, 9}, {10, 0, 0, 0, 0}, {11, 0, 0, 0, 0, 0, 0, 0, 0, 0, 0},
			{12, 0, 0, 0, 2, '1', '0'}, {0, 0x7f, 0xf8, 0, 0, 0, 0, 0, 0}, {0, 0xc0, 0x24, 0, 0, 0, 0, 0, 0}, {0, 0x7f, 0xf0, 0, 0, 0, 0, 0, 0}, {0, 0x43, 0xf0, 0, 0, 0, 0, 0, 0}}
		keys := []string{"audiocodecid", "audiosamplerate", "videocodecid", "width", "height", "framerate", "duration", "audiodatarate", "videodatarate", "audiosamplesize", "stereo", "encoder", "audiochannels", "filesize"}
		x := it.Seed
		for ki, key := range keys {
			if (it.Shape>>uint(ki%6))&1 == 0 && ki != int(x%uint64(len(keys))) {
				continue
			}
			b = append(b, 0, byte(len(key)))
			b = append(b, key...)
			b = append(b, wrong[(int(x/16%1000)+ki*5)%len(wrong)]...)
		}
		return append(b, 0, 0, 9)
	case "amf_bigcount":
		return []byte{10, 0xff, 0xff, 0xff, 0xff, 0, 0x40, 0, 0, 0, 0, 0, 0, 0}
	case "amf_longstr":
		b := []byte{12, 0, 1, 0x11, 0x70}
		return append(b, make([]byte, 70000)...)
	case "amf_shortlong":
		return []byte{12, 0xff, 0xff, 0xff, 0xff, 'x'}
	case "meta_nest":
		var f rtmpc.Amf
		f.Str("@setDataFrame").Str("onMetaData")
		b := f.B
		for i := 0; i < n; i++ {
			b = append(b, 3, 0, 1, 'a')
		}
		return b
	case "meta_bad":
		var f rtmpc.Amf
		f.Str("onMetaData")
		return append(f.B, randBytes(it.Seed, n)...)
	case "video_hdr":
		// plausible video header followed by garbage / bad NAL lengths
		hdr := [][]byte{{0x17, 0}, {0x17, 1, 0, 0, 0}, {0x27, 1, 0, 0, 0}, {0x1c, 0}, {0x1c, 1, 0, 0, 0}, {0x90, 'h', 'v', 'c', '1'}, {0x91, 'h', 'v', 'c', '1', 0, 0, 0}, {0x93, 'h', 'v', 'c', '1'},
			{0x17, 1, 0, 0, 0, 0xff, 0xff, 0xff, 0xff}, {0x17, 1, 0, 0, 0, 0, 0, 0, 5, 0x65}, {0x17, 0, 0, 0, 0, 1, 0x64, 0, 0x1f, 0xff, 0xe1, 0xff, 0xff}, {0x17, 0, 0, 0, 0, 1, 0x64, 0, 0x1f, 0xff, 0xe1, 0, 2, 0x67},
			{0x1c, 0, 0, 0, 0, 1, 1, 0x60, 0, 0, 0, 0x90, 0, 0, 0, 0, 0, 0x3f, 0xf0, 0, 0xfc, 0xfd, 0xf8, 0xf8, 0, 0, 0x0f, 0xff}, {0x37, 1, 0, 0, 0}, {0x47}, {0xf7, 1},
			// enhanced RTMP: IsExHeader | frame type | packet type, then the FourCC; short bodies for every packet type
			{0x91, 'h', 'v', 'c', '1'}, {0xa1, 'h', 'v', 'c', '1'}, {0x92, 'h', 'v', 'c', '1'}, {0x94, 'h', 'v', 'c', '1'}, {0x95, 'h', 'v', 'c', '1'},
			{0x91, 'a', 'v', '0', '1'}, {0x90, 'a', 'v', 'c', '1'}, {0x91, 'h', 'v', 'c'}}[it.Shape%24]
		return append(append([]byte{}, hdr...), randBytes(it.Seed, n)...)
	case "ex_video_trunc":
		// every prefix of every enhanced-RTMP video header: IsExHeader | frame type | packet type, FourCC, composition time,
		// a little body - cut after 1..12 bytes (key frames, sequence start and hvc1 are drawn more often: most code looks there)
		x := it.Seed
		ft := []int{1, 1, 1, 2, 3, 5}[x%6]
		pt := []int{0, 0, 1, 1, 3, 2, 4, 5}[x/6%8]
		cc := []string{"hvc1", "hvc1", "hvc1", "av01", "avc1", "vp09"}[x/48%6]
		full := append([]byte{byte(0x80 | ft<<4 | pt)}, cc...)
		full = append(full, 0, 0, 0, 0, 0, 0, 1, 0x26)
		return full[:1+n%12]
	case "audio_hdr":
		hdr := [][]byte{{0xaf}, {0xaf, 0}, {0xaf, 0, 0x12}, {0xaf, 0, 0xff, 0xff}, {0xaf, 1}, {0xaf, 2}, {0x7f}, {0x8f, 1}, {0xdf, 0}, {0x2f, 1}, {0xaf, 0, 0, 0}, {0x0f}}[it.Shape%12]
		return append(append([]byte{}, hdr...), randBytes(it.Seed, n)...)
	case "seqhdr_trunc":
		sps, pps := media.AvcParamSets(9, 0)
		full := media.AvcSeqHeaderPayload(sps, pps)
		if n > len(full) {
			n = len(full)
		}
		return full[:n]
	case "hevc_seqhdr_trunc":
		v, s, p := media.HevcParamSets(9, 0)
		full := media.HevcSeqHeaderPayload(v, s, p)
		if n > len(full) {
			n = len(full)
		}
		return full[:n]
	case "aggr":
		// an aggregate message: well-formed sub-messages, then 0..12 trailing bytes (a torn next sub-message header),
		// optionally with the last sub-message's declared length beyond the end
		var b []byte
		for j := 0; j < 1+n%3; j++ {
			body := randBytes(it.Seed+uint64(j), 3+j*7)
			l := len(body)
			if it.Shape&0x10 != 0 && j == n%3 {
				l += 1 + it.Shape%5
			}
			b = append(b, []byte{[]byte{8, 9, 18}[j%3], byte(l >> 16), byte(l >> 8), byte(l), 0, 0, byte(40 * j), 0, 0, 0, 0}...)
			b = append(b, body...)
			b = append(b, 0, 0, 0, byte(11+len(body)))
		}
		return append(b, randBytes(it.Seed+99, it.Shape%13)...)
	case "nal_zero_len":
		// AVCC / HVCC NAL lists with zero-length and tiny NAL units between valid ones
		hdr := [][]byte{{0x27, 1, 0, 0, 0}, {0x17, 1, 0, 0, 0}, {0x2c, 1, 0, 0, 0}, {0x1c, 1, 0, 0, 0}}[it.Shape%4]
		b := append([]byte{}, hdr...)
		for j := 0; j < 1+n%4; j++ {
			switch (it.Shape >> (2 + 2*uint(j))) & 3 {
			case 0:
				b = append(b, 0, 0, 0, 0)
			case 1:
				b = append(b, 0, 0, 0, 1, 0x41)
			case 2:
				b = append(b, 0, 0, 0, 2, 0x41, 0x9a)
			default:
				b = append(b, 0, 0, 0, 3, 0x65, 0x88, 0x80)
			}
		}
		return b
	case "userctl":
		// user control message: every event type, 0..8 bytes behind the type
		b := []byte{0, byte(it.Shape % 9)}
		if it.Shape%11 == 10 {
			b = []byte{byte(it.Seed), byte(it.Seed >> 8)}
		}
		return append(b, randBytes(it.Seed, n%9)...)
	case "sps_golomb":
		// AVC sequence header whose SPS is syntactically plausible up to one exp-golomb field that is huge (or where the
		// data simply ends): parsers that loop on such counts must stop at the end of the data
		bw := &bitW{}
		profile := []int{66, 66, 100, 77, 244}[it.Shape%5]
		bw.bits(uint64(profile), 8)
		bw.bits(0, 8)
		bw.bits(31, 8)
		bw.ue(0) // sps id
		if profile == 100 || profile == 244 {
			bw.ue(uint64([]int{1, 3, 3}[it.Shape%3])) // chroma_format_idc
			if it.Shape%3 != 0 {
				bw.bits(0, 1)
			}
			bw.ue(0)
			bw.ue(0)
			bw.bits(0, 1)
			bw.bits(uint64(it.Shape/5%2), 1) // seq_scaling_matrix_present_flag
			if it.Shape/5%2 == 1 {
				bw.bits(0xff, 8) // lists present, then the data may end
			}
		}
		huge := []uint64{1<<32 - 2, 1 << 20, 255, 70000}[it.Shape/10%4]
		field := n % 6
		val := func(i int, normal uint64) uint64 {
			if i == field {
				return huge
			}
			return normal
		}
		bw.ue(val(0, 0)) // log2_max_frame_num_minus4
		poc := uint64(it.Shape / 40 % 3)
		bw.ue(poc)
		switch poc {
		case 0:
			bw.ue(val(1, 2))
		case 1:
			bw.bits(0, 1)
			bw.se(0)
			bw.se(0)
			bw.ue(val(1, 2)) // num_ref_frames_in_pic_order_cnt_cycle
			for i := 0; i < n%4; i++ {
				bw.se(int64(i))
			}
		}
		if n%7 != 0 { // otherwise the SPS ends here
			bw.ue(val(2, 1)) // max_num_ref_frames
			bw.bits(0, 1)
			bw.ue(val(3, 39)) // pic_width_in_mbs_minus1
			bw.ue(val(4, 29))
			bw.bits(1, 1)
			bw.bits(1, 1)
			bw.bits(0, 1) // frame_cropping_flag
			bw.bits(uint64(it.Shape/120%2), 1)
			if it.Shape/120%2 == 1 {
				bw.bits(uint64(it.Seed), 32) // vui bits
			}
		}
		sps := append([]byte{0x67}, bw.bytes()...)
		pps := []byte{0x68, 0xeb, 0xe3, 0xcb, 0x22, 0xc0}
		return media.AvcSeqHeaderPayload(sps, pps)
	case "hevc_ps_cut":
		// a well-formed HEVC configuration record whose VPS or SPS is cut short (ending on a one bit, i.e. on a complete
		// exp-golomb zero): parsers must notice the end of the data
		vps, sps, pps := media.HevcParamSets(9, 0)
		cut := func(b []byte, at int) []byte {
			if len(b) <= 3 {
				return b
			}
			c := append([]byte{}, b[:2+at%(len(b)-2)]...)
			if it.Shape%3 != 0 {
				c[len(c)-1] |= 1
			}
			return c
		}
		if it.Shape%2 == 0 {
			sps = cut(sps, n)
		} else {
			vps = cut(vps, n)
		}
		return media.HevcSeqHeaderPayload(vps, sps, pps)
	case "nal_types":
		// well-framed AVCC / HVCC lists of tiny NAL units whose first byte runs over every NAL type (aggregation and
		// fragmentation types of the RTP payload formats included), 1..4 bytes each
		hdr := [][]byte{{0x27, 1, 0, 0, 0}, {0x17, 1, 0, 0, 0}, {0x2c, 1, 0, 0, 0}, {0x1c, 1, 0, 0, 0}}[it.Shape%4]
		b := append([]byte{}, hdr...)
		x := it.Seed
		for j := 0; j < 1+n%3; j++ {
			l := 1 + int(x>>8)%4
			first := byte(x)
			if it.Shape%4 < 2 {
				first = byte(x)&0x60 | byte(x>>16)%32 // AVC: every type with some NRI
			} else {
				first = byte(x>>16) % 64 << 1 // HEVC: every type
			}
			b = append(b, 0, 0, 0, byte(l), first)
			b = append(b, []byte{0, 0, 0}[:l-1]...)
			if (x>>24)%3 == 0 && l > 1 {
				copy(b[len(b)-l+1:], randBytes(x, l-1))
			}
			x = x*6364136223846793005 + 1442695040888963407
		}
		return b
	case "seqhdr_annexb":
		// sequence headers that carry Annex-B data instead of a configuration record (lal accepts that form for HEVC):
		// start codes with nothing between them, parameter sets cut short, garbage
		b := [][]byte{{0x1c, 0, 0, 0, 0}, {0x17, 0, 0, 0, 0}, {0x90, 'h', 'v', 'c', '1'}}[it.Shape%3]
		b = append([]byte{}, b...)
		x := it.Seed
		for j := 0; j < 1+n%6; j++ {
			b = append(b, 0, 0, 0, 1)
			switch x % 6 {
			case 0: // empty NAL
			case 1:
				b = append(b, 0x40, 1, 0x0c)
			case 2:
				b = append(b, 0x42, 1, 1)
			case 3:
				b = append(b, 0x44, 1, 0xc0)
			case 4:
				b = append(b, randBytes(x, int(x>>8)%20)...)
			case 5:
				b = append(b, 0)
			}
			x = x*6364136223846793005 + 1442695040888963407
		}
		if n%4 == 0 {
			b = append(b, 0, 0, 0, 1) // ends with a start code
		}
		return b
	case "cmd_nest_arr":
		// a command whose object holds a property that nests strict / ecma arrays / objects n deep
		var f rtmpc.Amf
		f.Str([]string{"connect", "publish", "play", "xyz"}[it.Shape%4]).Num(1)
		b := append(f.B, 3, 0, 3, 'a', 'p', 'p', 2, 0, 4, 'l', 'i', 'v', 'e', 0, 1, 'n')
		for i := 0; i < n; i++ {
			switch it.Shape / 4 % 3 {
			case 0:
				b = append(b, 10, 0, 0, 0, 1)
			case 1:
				b = append(b, 8, 0, 0, 0, 1, 0, 1, 'a')
			default:
				b = append(b, 3, 0, 1, 'a')
			}
		}
		return append(b, 5)
	case "meta_nest_arr", "meta_nest_ecma":
		var f rtmpc.Amf
		if it.Shape%2 == 0 {
			f.Str("@setDataFrame")
		}
		f.Str("onMetaData")
		b := f.B
		if it.Shape%4 < 2 {
			b = append(b, 8, 0, 0, 0, 1, 0, 1, 'k') // the usual ecma array, its one value being the nest
		}
		for i := 0; i < n; i++ {
			if it.Gen == "meta_nest_arr" {
				b = append(b, 10, 0, 0, 0, 1)
			} else {
				b = append(b, 8, 0, 0, 0, 1, 0, 1, 'a')
			}
		}
		return append(b, 5)
	case "valid_video":
		return media.VideoPayload(media.CodecAVC, it.Shape%2 == 0, 0, [][]byte{media.AvcNal(map[bool]int{true: 5, false: 1}[it.Shape%2 == 0], 3, 9, int(it.Seed%1000), 0, maxInt(1, n))})
	case "valid_audio":
		return media.AudioPayload(media.SoundAAC, media.Body(9, 1, int(it.Seed%1000), maxInt(1, n)))
	}
	return nil
}

// bitW writes MSB-first bit strings (exp-golomb coded SPS fields).
type bitW struct {
	b []byte
	n uint
}

func (w *bitW) bits(v uint64, n int) {
	for i := n - 1; i >= 0; i-- {
		if w.n%8 == 0 {
			w.b = append(w.b, 0)
		}
		if v>>uint(i)&1 == 1 {
			w.b[len(w.b)-1] |= 0x80 >> (w.n % 8)
		}
		w.n++
	}
}
func (w *bitW) ue(v uint64) {
	v++
	l := 0
	for x := v; x > 1; x >>= 1 {
		l++
	}
	w.bits(0, l)
	w.bits(v, l+1)
}
func (w *bitW) se(v int64) {
	if v <= 0 {
		w.ue(uint64(-2 * v))
	} else {
		w.ue(uint64(2*v - 1))
	}
}
func (w *bitW) bytes() []byte { return w.b }

// amfHostileValue: one AMF0 value whose declared count / length lies, or whose marker is rare.
func amfHostileValue(n int) []byte {
	vals := [][]byte{
		{10, 0xff, 0xff, 0xff, 0xff, 0, 0x40, 0, 0, 0, 0, 0, 0, 0}, // strict array, 2^32-1 elements declared, one present
		{10, 0x7f, 0xff, 0xff, 0xff},                               // strict array, huge count, nothing behind it
		{10, 0, 0, 0, 2, 5},                                        // strict array, two declared, one present
		{8, 0xff, 0xff, 0xff, 0xff, 0, 1, 'k', 5, 0, 0, 9},         // ecma array, huge count
		{8, 0, 0, 0, 0, 0, 0, 9},                                   // empty ecma array
		{12, 0xff, 0xff, 0xff, 0xff, 'x'},                          // long string, 4 GiB declared
		{12, 0, 0, 0, 3, 'a', 'b', 'c'},                            // long string
		{2, 0xff, 0xff, 'x'},                                       // string longer than the message
		{11, 0x42, 0x77, 0, 0, 0, 0, 0, 0, 0, 0},                   // date
		{11, 0, 0},                                                 // truncated date
		{7, 0, 1},                                                  // reference
		{15, 0xff, 0xff, 0xff, 0xff},                               // xml document, huge length
		{16, 0, 1, 'c', 0, 1, 'a', 5, 0, 0, 9},                     // typed object
		{13},                                                       // unsupported
		{6},                                                        // undefined
		{3, 0, 1, 'a', 3, 0, 1, 'b', 10, 0xff, 0xff, 0xff, 0xf0, 0, 0, 9}, // nested object holding a lying strict array, end marker missing
		{0, 1, 2}, // truncated number
		{1},       // truncated boolean
		{9},       // object end where a value belongs
		{4}, {14}, {17, 1}, {0xff},
	}
	return vals[n%len(vals)]
}

func cmdPayload(it WireItem) []byte {
	var f rtmpc.Amf
	f.Str(it.Name)
	if it.Gen == "objvals" {
		// a command object (connect's, or any other command's) whose property values are hostile
		f.Num(1)
		b := append(f.B, 3)
		if it.Seed%3 == 0 {
			// the properties a server looks up by name, with values of another type than it expects
			wrong := [][]byte{{0, 0x3f, 0xf0, 0, 0, 0, 0, 0, 0}, {1, 1}, {5}, {3, 0, 0, 9}, {2, 0, 1, '3'}, {10, 0, 0, 0, 0}, {8, 0, 0, 0, 0, 0, 0, 9}, {11, 0, 0, 0, 0, 0, 0, 0, 0, 0, 0}}
			for ki, key := range []string{"app", "tcUrl", "flashVer", "objectEncoding", "type", "swfUrl"} {
				if (it.N>>uint(ki))&1 == 1 || ki == int(it.Seed/3%6) {
					b = append(b, 0, byte(len(key)))
					b = append(b, key...)
					b = append(b, wrong[(int(it.Seed/7)+ki)%len(wrong)]...)
				}
			}
		} else {
			b = append(b, 0, 3, 'a', 'p', 'p', 2, 0, 4, 'l', 'i', 'v', 'e')
		}
		if it.Seed%3 == 0 {
			// (a well-formed object otherwise: the wrongly typed values must survive the decoder to be looked up)
			return append(b, 0, 0, 9)
		}
		for i := 0; i < 1+it.N%3; i++ {
			b = append(b, 0, 1, byte('p'+i))
			b = append(b, amfHostileValue(it.N/3+i*7+int(it.Seed%23))...)
		}
		if it.N%5 != 0 {
			b = append(b, 0, 0, 9)
		}
		return b
	}
	switch it.Shape % 10 {
	case 0: // normal-ish
		f.Num(float64(it.N))
		switch it.Name {
		case "connect":
			// tcUrl forms: the stream name is later appended to it and the result parsed as a URL
			tc := []string{"rtmp://x/live", "rtmp://x", "rtmp://x/", "rtmp://", "", "x", "rtmp://x/live?a=b", "rtmp://x/a?x?y", "rtmp://x?x?y", "http://x/live", "rtmp://x:99999/live", "rtmp://[::1/live", "rtmp://x/live/" + strings.Repeat("seg/", 50), "rtmp://x/%zz"}[it.N%14]
			f.Obj("app", []string{"live", "", "a?x?y", "/"}[(it.N/14)%4], "tcUrl", tc)
		case "publish":
			f.Null().Str([]string{"hostile", "a?x?y", "?", "??", "a?b=c?d=e/f", "", "/", "a/b/c", "%zz", "a b"}[it.N%10]).Str("live")
		case "play":
			f.Null().Str([]string{"hostile", "a?x?y", "?", "??", "a?b=c?d=e/f", "", "/", "a/b/c", "%zz", "a b"}[it.N%10])
		default:
			f.Null()
		}
	case 1: // no transaction id
	case 2: // transaction id of the wrong type
		f.Str("tid")
	case 3: // missing arguments
		f.Num(1)
	case 4: // arguments of wrong types
		f.Num(1).Num(2).Num(3)
	case 5: // object without app
		f.Num(1).Obj("x", "y")
	case 6: // huge stream name
		f.Num(1).Null()
		name := make([]byte, 60000)
		for i := range name {
			name[i] = 'a' + byte(i%26)
		}
		f.Str(string(name))
	case 7: // name with separators
		f.Num(1).Null().Str("a/../b?x=1?y=2")
	case 8: // boolean where null expected
		f.Num(1).Bool(true).Str("s")
	case 9: // truncated
		f.Num(1)
		if len(f.B) > 3 {
			f.B = f.B[:len(f.B)-3]
		}
	}
	return f.B
}

func rawChunk(it WireItem, payload []byte) []byte {
	var b []byte
	fmtv := uint8(it.Fmt & 3)
	switch {
	case it.Shape%3 == 1:
		b = []byte{fmtv << 6, byte(it.Csid)}
	case it.Shape%3 == 2:
		b = []byte{fmtv<<6 | 1, byte(it.Csid), byte(it.Csid >> 8)}
	default:
		c := it.Csid & 0x3f
		if c < 2 {
			c = 2
		}
		b = []byte{fmtv<<6 | byte(c)}
	}
	l := it.Len
	if l < 0 {
		l = len(payload)
	}
	tsf := it.Ts
	ext := tsf >= 0xFFFFFF
	f24 := tsf
	if ext {
		f24 = 0xFFFFFF
	}
	if fmtv <= 2 {
		b = append(b, byte(f24>>16), byte(f24>>8), byte(f24))
	}
	if fmtv <= 1 {
		b = append(b, byte(l>>16), byte(l>>8), byte(l), byte(it.Type))
	}
	if fmtv == 0 {
		var m [4]byte
		binary.LittleEndian.PutUint32(m[:], uint32(it.Msid))
		b = append(b, m[:]...)
	}
	if ext && fmtv <= 2 {
		var e [4]byte
		binary.BigEndian.PutUint32(e[:], tsf)
		b = append(b, e[:]...)
	}
	return append(b, payload...)
}

// hostileActor drives one hostile connection: a valid prefix, then the items.
type hostileActor struct {
	k       *sim.Kernel
	plan    HostileConn
	conn    *sim.Conn
	w       *rtmpc.Writer
	hs      []byte
	state   int
	sentAll bool
	next    int
	closed  bool
	reader  *rtmpc.Reader
	results int
}

func (a *hostileActor) OnClose(c *sim.Conn) { a.closed = true }

func (a *hostileActor) OnData(c *sim.Conn, b []byte) {
	if a.state == 1 {
		a.hs = append(a.hs, b...)
		if len(a.hs) >= rtmpc.S0S1S2Len {
			c.Send(rtmpc.C2(a.hs))
			rest := a.hs[rtmpc.S0S1S2Len:]
			a.hs = nil
			a.state = 2
			a.advancePrefix()
			if len(rest) > 0 {
				a.reader.Feed(rest)
			}
		}
		return
	}
	for _, m := range a.reader.Feed(b) {
		if m.Type == rtmpc.TypeCmdAmf0 {
			a.results++
		}
	}
}

func (a *hostileActor) send(m rtmpc.Msg) {
	// a 16 MiB message cut into 1..100-byte chunks is millions of chunks: legitimate, but it only measures the
	// simulated socket; keep a message to at most 100000 chunks
	if cs := a.w.ChunkSize; cs > 0 && len(m.Payload)/cs > 100000 {
		m.Payload = m.Payload[:cs*100000]
	}
	a.conn.Send(a.w.Encode(m))
}

func (a *hostileActor) cmd(name string, tid float64, rest func(*rtmpc.Amf)) {
	var f rtmpc.Amf
	f.Str(name).Num(tid)
	rest(&f)
	a.send(rtmpc.Msg{Type: rtmpc.TypeCmdAmf0, Csid: 3, Payload: f.B})
}

// advancePrefix sends the valid part of the session up to the planned point (without waiting for answers:
// lal does not require the client to wait).
func (a *hostileActor) advancePrefix() {
	p := a.plan.Prefix
	if p >= 2 {
		tc := a.plan.TcUrl
		if tc == "" {
			tc = "rtmp://127.0.0.1/live"
		}
		a.cmd("connect", 1, func(f *rtmpc.Amf) { f.Obj("app", "live", "tcUrl", tc) })
	}
	if p >= 3 {
		a.cmd("createStream", 2, func(f *rtmpc.Amf) { f.Null() })
	}
	if p == 4 {
		var f rtmpc.Amf
		f.Str("publish").Num(3).Null().Str(a.plan.Stream).Str("live")
		a.send(rtmpc.Msg{Type: rtmpc.TypeCmdAmf0, Csid: 4, Msid: 1, Payload: f.B})
	}
	if p == 5 {
		var f rtmpc.Amf
		f.Str("play").Num(3).Null().Str(a.plan.Stream)
		a.send(rtmpc.Msg{Type: rtmpc.TypeCmdAmf0, Csid: 4, Msid: 1, Payload: f.B})
	}
	a.state = 3
}

// sendItems queues up to n more items; returns false when nothing is left.
func (a *hostileActor) sendItems(n int) bool {
	if a.state == 0 {
		if a.plan.Prefix >= 1 {
			a.conn.Send(rtmpc.C0C1(7))
			a.state = 1
			return true
		}
		a.state = 3
	}
	if a.state < 3 {
		return true // handshake answer pending
	}
	for ; n > 0 && a.next < len(a.plan.Items); n-- {
		it := a.plan.Items[a.next]
		a.next++
		switch it.Kind {
		case "msg":
			m := rtmpc.Msg{Type: uint8(it.Type), Csid: it.Csid, Msid: uint32(it.Msid), Ts: it.Ts, Payload: genPayload(it)}
			if m.Csid < 2 {
				m.Csid = 5
			}
			a.send(m)
		case "cmd":
			m := rtmpc.Msg{Type: rtmpc.TypeCmdAmf0, Csid: 3, Msid: uint32(it.Msid), Payload: cmdPayload(it)}
			if it.Type != 0 {
				m.Type = uint8(it.Type)
			}
			a.send(m)
		case "badchunk":
			a.conn.Send(rawChunk(it, genPayload(it)))
		case "raw":
			a.conn.Send(randBytes(it.Seed, it.N))
		case "setchunk":
			var p [4]byte
			binary.BigEndian.PutUint32(p[:], uint32(it.N))
			a.send(rtmpc.Msg{Type: rtmpc.TypeSetChunkSize, Csid: 2, Payload: p[:]})
			if it.N > 0 && it.N < 1<<24 && it.Shape%2 == 0 {
				a.w.ChunkSize = it.N // honest about it, or not (Shape odd: keeps the old size)
			}
		case "close":
			a.conn.CloseByPeer()
			a.next = len(a.plan.Items)
		case "reset":
			a.conn.ResetByPeer()
			a.next = len(a.plan.Items)
		}
	}
	return a.next < len(a.plan.Items)
}

// quickTier is set by the plan generators (a plan is generated for one tier at a time within a process).
var quickTier bool

func genWireItems(r *sim.Rng, n int, asPublisher bool) []WireItem {
	var items []WireItem
	types := []int{1, 2, 3, 4, 5, 6, 8, 9, 15, 16, 17, 18, 19, 20, 22, 0, 7, 21, 255}
	for i := 0; i < n; i++ {
		seed := r.U64()
		switch r.Intn(16) {
		case 0, 1: // any type id with a short random payload
			t := types[r.Intn(len(types))]
			if r.Bool(0.3) {
				t = r.Intn(256)
			}
			items = append(items, WireItem{Kind: "msg", Type: t, Csid: 2 + r.Intn(8), Msid: r.Intn(2), Ts: uint32(r.Intn(1000)), Gen: "rand", N: []int{0, 1, 2, 3, 4, 5, 7, 11, 100}[r.Intn(9)], Seed: seed})
		case 2: // control messages with short payloads
			items = append(items, WireItem{Kind: "msg", Type: []int{1, 2, 3, 4, 5, 6}[r.Intn(6)], Csid: 2, Gen: "zeros", N: r.Intn(4)})
			if r.Bool(0.5) {
				items[len(items)-1] = WireItem{Kind: "msg", Type: 4, Csid: 2, Gen: "userctl", N: r.Intn(9), Shape: r.Intn(64), Seed: seed}
			}
		case 3:
			items = append(items, WireItem{Kind: "cmd", Name: []string{"connect", "createStream", "publish", "play", "deleteStream", "FCPublish", "releaseStream", "getStreamLength", "pause", "xyz", "_result", "onStatus"}[r.Intn(12)], Shape: []int{0, 0, 0, r.Intn(10)}[r.Intn(4)], N: r.Intn(60), Msid: r.Intn(2), Type: []int{0, 0, 0, 17}[r.Intn(4)]})
			if r.Bool(0.3) {
				items[len(items)-1].Gen, items[len(items)-1].Seed = "objvals", seed
				if r.Bool(0.6) {
					items[len(items)-1].Name = "connect" // the command whose object lal looks into
				}
			}
		case 4: // media / data before or after the role is fixed
			gen := []string{"video_hdr", "audio_hdr", "valid_video", "valid_audio", "seqhdr_trunc", "hevc_seqhdr_trunc", "nal_zero_len", "ex_video_trunc", "ex_video_trunc"}[r.Intn(9)]
			t := 9
			if gen == "audio_hdr" || gen == "valid_audio" {
				t = 8
			}
			items = append(items, WireItem{Kind: "msg", Type: t, Csid: 6, Msid: 1, Ts: []uint32{0, 40, 0xFFFFFF, 0xFFFFFFFF, 0x7FFFFFFF, 100000}[r.Intn(6)], Gen: gen, N: r.Intn(60), Seed: seed, Shape: r.Intn(64)})
		case 5: // metadata variants
			items = append(items, WireItem{Kind: "msg", Type: []int{18, 15, 18}[r.Intn(3)], Csid: 5, Msid: 1, Gen: []string{"meta_bad", "meta_nest", "rand", "amf_bigcount", "amf_shortlong", "meta_objvals", "meta_objvals", "meta_knownkeys"}[r.Intn(8)], N: []int{0, 1, 3, 50, 3000, 7, 11, 17}[r.Intn(8)], Seed: seed, Shape: r.Intn(64)})
		case 6: // deep nesting (up to the 16 MiB message limit occasionally)
			// 400 000 levels are 2-3 MB of message and, at the 250 MB stack cap of the workers, more than any recursion
			// that is not bounded by the parser survives; deeper (up to the 16 MiB message limit) only costs minutes per run
			depth := []int{100, 5000, 100000, 400000, 400000}[r.Intn(5)]
			gen := []string{"amf_nest_obj", "amf_nest_arr", "amf_nest_ecma", "meta_nest", "meta_nest_arr", "meta_nest_ecma", "cmd_nest_arr", "cmd_nest_arr"}[r.Intn(8)]
			if gen == "amf_nest_ecma" && depth > 2000000 {
				depth = 2000000
			}
			items = append(items, WireItem{Kind: "msg", Type: []int{20, 18, 17}[r.Intn(3)], Csid: 3, Msid: r.Intn(2), Gen: gen, N: depth, Shape: r.Intn(64)})
			if gen == "cmd_nest_arr" {
				items[len(items)-1].Type = 20
			}
		case 7: // malformed chunk headers
			items = append(items, WireItem{Kind: "badchunk", Fmt: r.Intn(4), Csid: []int{0, 1, 2, 63, 64, 255, 319, 65535}[r.Intn(8)], Shape: r.Intn(3), Type: types[r.Intn(len(types))], Msid: r.Intn(3),
				Ts: []uint32{0, 1, 0xFFFFFE, 0xFFFFFF, 0x1000000, 0xFFFFFFFF}[r.Intn(6)], Len: []int{-1, -1, 0, 1, 5, 100, 4096, 70000, -1, -1, 0xFFFFFF, 0x800000}[r.Intn(12)], Gen: "rand", N: r.Intn(300), Seed: seed})
		case 8:
			items = append(items, WireItem{Kind: "raw", N: 1 + r.Intn(500), Seed: seed})
		case 9:
			items = append(items, WireItem{Kind: "setchunk", N: []int{0, 1, 2, 127, 128, 4096, 65536, 0xFFFFFF, 0x1000000, 0x7fffffff, -2147483648, -1}[r.Intn(12)], Shape: r.Intn(2)})
		case 10:
			if r.Bool(0.5) {
				items = append(items, WireItem{Kind: "msg", Type: 22, Csid: 4, Msid: r.Intn(2), Gen: "aggr", N: r.Intn(9), Shape: r.Intn(64), Seed: seed})
			} else {
				items = append(items, WireItem{Kind: "msg", Type: 22, Csid: 4, Msid: 1, Gen: "rand", N: []int{0, 5, 10, 11, 12, 30, 200}[r.Intn(7)], Seed: seed})
			}
		case 11:
			if asPublisher {
				it := WireItem{Kind: "msg", Type: 9, Csid: 6, Msid: 1, Ts: uint32(r.Intn(5000)), Gen: "valid_video", N: r.Intn(300), Seed: seed, Shape: r.Intn(2)}
				if r.Bool(0.25) {
					// a large frame (several of lal's own output chunks) at or beyond the extended-timestamp threshold
					it.N = []int{4000, 8100, 8200, 9000, 20000, 70000}[r.Intn(6)] + r.Intn(200)
					it.Ts = []uint32{0xFFFFFE, 0xFFFFFF, 0x1000000, 0x7FFFFFFF, 0xFFFFFFFF}[r.Intn(5)]
				}
				items = append(items, it)
			} else {
				items = append(items, WireItem{Kind: "cmd", Name: "publish", Shape: 0})
			}
		case 12: // long strings
			items = append(items, WireItem{Kind: "msg", Type: 20, Csid: 3, Gen: "amf_longstr"})
		default:
			items = append(items, WireItem{Kind: "msg", Type: []int{8, 9}[r.Intn(2)], Csid: 6, Msid: 1, Ts: uint32(r.Intn(100000)), Gen: "rand", N: []int{0, 1, 2, 3, 4, 5, 6, 9, 13}[r.Intn(9)], Seed: seed})
		}
	}
	switch r.Intn(4) {
	case 0:
		items = append(items, WireItem{Kind: "close"})
	case 1:
		items = append(items, WireItem{Kind: "reset"})
	}
	return items
}

func genC04Plan(r *sim.Rng, tier string) HostilePlan {
	var pl HostilePlan
	quickTier = tier != "thorough"
	pl.Conf = LalConf{ApiEnable: true, FlvEnable: true, TsEnable: r.Bool(0.5), RtmpGop: r.Intn(2), NoHook: r.Bool(0.5)}
	pl.Sched = GenSched(r.Fork("sched"), tier == "thorough")
	pl.Sched.MaxSteps = 200000
	pl.ByUnits = 12 + r.Intn(20)
	nConn := 1 + r.Intn(3)
	for i := 0; i < nConn; i++ {
		hc := HostileConn{Prefix: []int{0, 1, 2, 3, 4, 4, 5, 5}[r.Intn(8)], Stream: []string{"hostile", "hostile", "by", "x/../y"}[r.Intn(4)]}
		if r.Bool(0.25) {
			hc.TcUrl = []string{"rtmp://x", "rtmp://x/", "rtmp://", "x", "rtmp://x/live?a=b", "rtmp://x?x?y", "http://x/live", "rtmp://x:99999/live", "rtmp://[::1/live", "rtmp://x/%zz", "rtmp://x/a/b/c/d"}[r.Intn(11)]
			hc.Stream = []string{"hostile", "a?x?y", "?", "??", "a?b=c?d=e/f", "", "/", "a/b/c", "%zz", "a b", "?x?y"}[r.Intn(11)]
		}
		n := 1 + r.Intn(10)
		if tier == "thorough" {
			n = 1 + r.Intn(30)
		}
		hc.Items = genWireItems(r, n, hc.Prefix == 4)
		pl.Conns = append(pl.Conns, hc)
	}
	return pl
}

// execHostileRtmp runs the bystander stream, the hostile connections and the liveness probes.
func execHostileRtmp(k *sim.Kernel, pl HostilePlan, prop string) {
	w := StartWorld(k, pl.Conf)
	// bystander
	by := &PubState{Plan: PubPlan{Stream: 0, Inc: 0, VideoCodec: media.CodecAVC, AudioCodec: media.SoundAAC, AacSr: 4}}
	by.Units = admUnits(0, pl.ByUnits, true)
	by.Actor = actors.NewRtmpClient(k, "bypub", actors.RolePublish, "live", "by")
	by.Actor.Connect(PortRtmp, 1)
	w.Observe(by.Actor.Observe)
	k.Settle()
	cons := &ConsState{Plan: ConsPlan{Stream: 0, Proto: "rtmp"}, Joined: true}
	cons.Rtmp = actors.NewRtmpClient(k, "bysub", actors.RolePlay, "live", "by")
	cons.Rtmp.Connect(PortRtmp, 2)
	w.Observe(cons.Rtmp.Observe)
	k.Settle()
	var hs []*hostileActor
	for i, hc := range pl.Conns {
		a := &hostileActor{k: k, plan: hc, w: rtmpc.NewWriter(), reader: rtmpc.NewReader()}
		a.conn = k.Connect(PortRtmp, fmt.Sprintf("hostile%d", i), 100+i, a)
		if a.conn == nil {
			k.Violate(prop+".listener-gone", "the RTMP listener no longer accepts connections")
		}
		hs = append(hs, a)
	}
	sent := 0
	for round := 0; round < 400; round++ {
		more := false
		for _, a := range hs {
			if a.sendItems(2) {
				more = true
			}
		}
		if sent < len(by.Units) {
			by.Actor.Publish(by.Units[sent].Msg)
			sent++
			more = true
		}
		k.Settle()
		if round%5 == 4 {
			k.Advance(300 * time.Millisecond)
		}
		if !more {
			break
		}
	}
	k.Settle()
	k.Advance(1500 * time.Millisecond)
	// the bystander must be untouched
	if by.Actor.Closed {
		k.Violate(prop+".bystander-disconnected", "the well-behaved publisher on another stream was disconnected")
	}
	if cons.Rtmp.Closed {
		k.Violate(prop+".bystander-disconnected", "the well-behaved player on another stream was disconnected")
	}
	rr := &RelayRun{W: w, Pubs: []*PubState{by}, Cons: []*ConsState{cons}}
	rr.Plan.Conf = pl.Conf
	JudgeConsumer(k, prop, "bystander", cons, rr.Forwardable(0), pl.Conf)
	// the listener still serves a fresh connection
	probe := actors.NewRtmpClient(k, "probe", actors.RolePlay, "live", "by")
	if !probe.Connect(PortRtmp, 3) {
		k.Violate(prop+".listener-gone", "the RTMP listener no longer accepts connections")
	}
	k.Settle()
	if !probe.Ready {
		k.Violate(prop+".listener-stuck", "a fresh, well-behaved RTMP connection does not get served after the hostile peers (state: %s)", probe)
	}
	k.Probe("nontrivial")
	for _, a := range hs {
		if a.closed {
			k.Probe("hostile_conn_closed_by_lal")
		}
	}
}

func hostileShrink(plan json.RawMessage) []json.RawMessage {
	var pl HostilePlan
	fromJSON(plan, &pl)
	var out []json.RawMessage
	for ci := range pl.Conns {
		if len(pl.Conns) > 1 {
			q := pl
			q.Conns = append(append([]HostileConn{}, pl.Conns[:ci]...), pl.Conns[ci+1:]...)
			out = append(out, mustJSON(q))
		}
		for ii := range pl.Conns[ci].Items {
			q := pl
			q.Conns = append([]HostileConn{}, pl.Conns...)
			c := q.Conns[ci]
			c.Items = append(append([]WireItem{}, c.Items[:ii]...), c.Items[ii+1:]...)
			q.Conns[ci] = c
			out = append(out, mustJSON(q))
		}
	}
	if pl.ByUnits > 4 {
		q := pl
		q.ByUnits = 4
		out = append(out, mustJSON(q))
	}
	if pl.Sched.Chaos != 0 || pl.Sched.Preempt != 0 || pl.Sched.SegMode != 0 {
		q := pl
		q.Sched.Chaos, q.Sched.Preempt, q.Sched.SegMode, q.Sched.PermuteMap = 0, 0, 0, false
		out = append(out, mustJSON(q))
	}
	return out
}

func hostileShape(plan json.RawMessage) string {
	var pl HostilePlan
	fromJSON(plan, &pl)
	s := ""
	for _, c := range pl.Conns {
		s += fmt.Sprintf("p%d:", c.Prefix)
		for _, it := range c.Items {
			s += it.Kind[:1] + it.Gen
		}
		s += "/"
	}
	if len(s) > 120 {
		s = s[:120]
	}
	return s
}

func init() {
	Register(&Check{
		ID:  "C04",
		Gen: func(r *sim.Rng, tier string) json.RawMessage { return mustJSON(genC04Plan(r, tier)) },
		Sched: func(plan json.RawMessage) sim.SchedParams {
			var pl HostilePlan
			fromJSON(plan, &pl)
			return pl.Sched
		},
		Run: func(k *sim.Kernel, plan json.RawMessage) {
			var pl HostilePlan
			fromJSON(plan, &pl)
			execHostileRtmp(k, pl, "C04")
		},
		Shrink: hostileShrink,
		Shape:  hostileShape,
		Brief: func(plan json.RawMessage) interface{} {
			var pl HostilePlan
			fromJSON(plan, &pl)
			return pl
		},
	})
}

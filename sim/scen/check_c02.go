package scen

import (
	"encoding/json"
	"fmt"
	"strings"

	"simlal/sim/media"

	"simlal/sim"
)

func relayProfileC02(tier string) RelayProfile {
	p := RelayProfile{
		Protos:         []string{"rtmp", "flv", "wsflv", "rtmp", "flv", "ts", "wsts", "rtsp"},
		MaxUnits:       70,
		MaxCons:        5,
		Republish:      0.4,
		HeaderChange:   0.25,
		TsWeird:        0.1,
		NalKinds:       0.15,
		BigUnits:       0.02,
		ZeroLen:        0.01,
		ShapeAudioOnly: 0.25,
		ShapeVideoOnly: 0.2,
		LeaveProb:      0.15,
		SettleProb:     [2]float64{0.2, 1.0},
	}
	if tier == "thorough" {
		p.MaxUnits = 200
		p.MaxCons = 8
		p.Thorough = true
	}
	return p
}

// checkC02TsRtsp: the "decodable from the first byte" clauses for HTTP-TS and RTSP consumers: PAT/PMT before any
// elementary-stream packet, the SDP before any RTP, and - when the stream carries video - a key frame first.
func checkC02TsRtsp(k *sim.Kernel, rr *RelayRun) {
	// an RTSP player's headers are its SDP: it must not be the description of a publisher that had already left
	{
		accepted := map[int][]*PubState{}
		for _, p := range rr.Pubs {
			if p.Actor != nil && p.Actor.Ready && rr.sessionIdOf(p.Actor.Conn.RemoteAddr().String()) != "" {
				accepted[p.Plan.Stream] = append(accepted[p.Plan.Stream], p)
			}
		}
		checkStaleSdp(k, rr, accepted, "C02.stale-header")
	}
	for ci, c := range rr.Cons {
		if !c.Joined {
			continue
		}
		name := fmt.Sprintf("cons%d(%s)", ci, c.Plan.Proto)
		// only streams published once: which incarnation a frame belongs to does not matter then
		var pub *PubState
		npub := 0
		for _, p := range rr.Pubs {
			if p.Plan.Stream == c.Plan.Stream && p.Actor != nil {
				pub = p
				npub++
			}
		}
		if npub != 1 {
			continue
		}
		hevc := pub.Plan.VideoCodec == media.CodecHEVC
		isKeyNal := func(n []byte) bool {
			if hevc {
				t := (n[0] >> 1) & 0x3f
				return len(n) > 1 && t >= 16 && t <= 23
			}
			return len(n) > 0 && n[0]&0x1f == 5
		}
		// the publisher's own first video frame (lal assumes publishers start at a key frame: known finding of C02)
		firstOwn := -1
		for i := range pub.Units {
			if pub.Units[i].Kind == media.KVideo && len(pub.Units[i].Nals) > 0 {
				firstOwn = i
				break
			}
		}
		ownStartsNonKey := firstOwn >= 0 && !pub.Units[firstOwn].Key
		switch {
		case c.Http != nil && (c.Plan.Proto == "ts" || c.Plan.Proto == "wsts") && len(c.Http.TsBytes) >= 188:
			tc := ParseTs(c.Http.TsBytes)
			if tc.D.DataBeforePsi >= 0 {
				k.Violate("C02.ts-no-psi", "%s: elementary stream packet %d precedes PAT/PMT", name, tc.D.DataBeforePsi)
			}
			if len(tc.Video) > 0 {
				key := false
				for _, n := range tc.Video[0].Nals {
					key = key || isKeyNal(n)
				}
				if !key && !ownStartsNonKey {
					k.Violate("C02.first-video-not-key", "%s: the first video frame in the TS stream (packet %d, %d NAL units, first NAL byte %02x) is not a key frame", name, tc.Video[0].Pkt, len(tc.Video[0].Nals), firstByte(tc.Video[0].Nals))
				}
				if key && len(tc.Video[0].Params) == 0 {
					k.Violate("C02.no-header", "%s: the first key frame in the TS stream carries no parameter sets", name)
				}
				k.Probe("c02_ts_starts_judged")
				k.Probe("nontrivial")
			}
			// the cached GOPs replayed to an HTTP-TS joiner and the live frames that follow are one run of the published
			// frames, nothing twice (with a per-GOP frame cap the replay is legitimately non-contiguous)
			if rr.Plan.Conf.TsGopCap == 0 && len(tc.Problems) == 0 {
				prob, nv, na := CompareTsToPublished(tc, pub.Units, hevc, pub.Plan.AacSr, false)
				if prob != "" && !strings.HasPrefix(prob, "BELOW-FIRST") {
					k.Violate("C02.replay", "%s: replay + live in the TS stream: %s", name, prob)
				}
				if nv+na > 0 {
					k.Probe("c02_ts_replay_checked")
				}
			}
		case c.Rtsp != nil && len(c.Rtsp.Rtp) > 0:
			if !c.Rtsp.DescribeOK || c.Rtsp.SdpRecv == "" {
				k.Violate("C02.rtsp-no-sdp", "%s: RTP arrived without a stream description", name)
			}
			rc := ParseRtspSession(c.Rtsp)
			if len(rc.Video) > 0 {
				if !isKeyNal(rc.Video[0].Data) && !ownStartsNonKey {
					// parameter sets / SEI may precede the slice: look at the first slice NAL
					first := rc.Video[0].Data
					for _, u := range rc.Video {
						t := u.Data[0] & 0x1f
						if hevc {
							t = (u.Data[0] >> 1) & 0x3f
						}
						if (!hevc && (t == 1 || t == 5)) || (hevc && t <= 23) {
							first = u.Data
							break
						}
					}
					if !isKeyNal(first) {
						k.Violate("C02.first-video-not-key", "%s: the first video slice received over RTP (NAL byte %02x) is not part of a key frame although out_wait_key_frame_flag is on", name, first[0])
					}
				}
				k.Probe("c02_rtsp_starts_judged")
				k.Probe("nontrivial")
			}
		}
	}
}

func firstByte(n [][]byte) byte {
	if len(n) > 0 && len(n[0]) > 0 {
		return n[0][0]
	}
	return 0
}

func init() {
	Register(&Check{
		ID: "C02",
		Gen: func(r *sim.Rng, tier string) json.RawMessage {
			prof := relayProfileC02(tier)
			crowd := r.Bool(0.2)
			if crowd {
				// several RTSP players on few streams, large key frames (several RTP packets each), park points between the
				// writes to the players: joins that take effect in the middle of a fragmented key frame
				prof.Protos = []string{"rtsp", "rtsp", "rtsp", "rtmp"}
				prof.BigUnits = 0.4
				prof.ShapeAudioOnly = 0.05
			}
			pl := GenRelayPlan(r, prof)
			if crowd {
				pl.Sched.YieldWrite = 0.5
			}
			pl.Conf.TsEnable = true
			pl.Conf.TsGop = r.Intn(3)
			pl.Conf.RtspEnable = true
			pl.Conf.RtspWaitKey = true // with out_wait_key_frame_flag off lal forwards RTP from any frame by configuration
			return mustJSON(pl)
		},
		Sched: relaySched,
		Run: func(k *sim.Kernel, plan json.RawMessage) {
			var pl RelayPlan
			fromJSON(plan, &pl)
			rr := ExecRelay(k, pl)
			CheckC02(k, rr)
			checkC02TsRtsp(k, rr)
		},
		Shrink: relayShrink,
		Shape:  relayShape,
		Brief:  relayBrief,
	})
}

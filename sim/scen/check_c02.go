package scen

import (
	"encoding/json"

	"simlal/sim"
)

func relayProfileC02(tier string) RelayProfile {
	p := RelayProfile{
		Protos:         []string{"rtmp", "flv", "wsflv", "rtmp", "flv"},
		MaxUnits:       70,
		MaxCons:        5,
		Republish:      0.4,
		HeaderChange:   0.25,
		TsWeird:        0.1,
		BigUnits:       0.02,
		ZeroLen:        0.01,
		ShapeAudioOnly: 0.25,
		ShapeVideoOnly: 0.2,
		LeaveProb:      0.15,
		SettleProb:     [2]float64{0.2, 1.0},
	}
	if tier == "thorough" {
		p.MaxUnits = 200
		p.MaxCons = 8
		p.Thorough = true
	}
	return p
}

func init() {
	Register(&Check{
		ID: "C02",
		Gen: func(r *sim.Rng, tier string) json.RawMessage {
			return mustJSON(GenRelayPlan(r, relayProfileC02(tier)))
		},
		Sched: relaySched,
		Run: func(k *sim.Kernel, plan json.RawMessage) {
			var pl RelayPlan
			fromJSON(plan, &pl)
			rr := ExecRelay(k, pl)
			CheckC02(k, rr)
		},
		Shrink: relayShrink,
		Shape:  relayShape,
		Brief:  relayBrief,
	})
}

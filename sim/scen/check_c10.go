package scen

import (
	"bytes"
	"encoding/json"
	"fmt"
	"math"
	"strings"
	"time"

	"simlal/sim"
	"simlal/sim/actors"
	"simlal/sim/media"
	"simlal/sim/tsc"
)

// ---- HLS consistency at every instant (after every single file-system operation) ----------------------------------------------

type hlsDirState struct {
	versions   [][]string // segment lists of the live playlist versions of the current incarnation
	lastSeq    int
	hasSeq     bool
	segVerdict map[string]string // closed segment -> "" ok / problem
	segVideo   map[string]bool
	everListed map[string]bool
	created    []string
	faulted    bool // an injected I/O error touched this directory
}

// HlsWatch evaluates the HLS invariants after every operation on the simulated disk.
type HlsWatch struct {
	k        *sim.Kernel
	conf     LalConf
	dirs     map[string]*hlsDirState
	Problem  string // first problem found (set inside the FS callback, reported by the driver)
	Rule     string
	Checks   int
	hasVideo map[string]bool // stream dir -> current publisher has video
	live     map[string]bool // stream dir -> a publisher is live (between NewIncarnation and EndIncarnation)
}

func WatchHls(k *sim.Kernel, conf LalConf) *HlsWatch {
	w := &HlsWatch{k: k, conf: conf, dirs: map[string]*hlsDirState{}, hasVideo: map[string]bool{}, live: map[string]bool{}}
	prev := k.FS.OnOp
	k.FS.OnOp = func(op *sim.FsOp) {
		if prev != nil {
			prev(op)
		}
		w.onOp(op)
	}
	return w
}

func (w *HlsWatch) dir(d string) *hlsDirState {
	st := w.dirs[d]
	if st == nil {
		st = &hlsDirState{segVerdict: map[string]string{}, segVideo: map[string]bool{}, everListed: map[string]bool{}}
		w.dirs[d] = st
	}
	return st
}

// NewIncarnation tells the watch that a new publisher (or a restarted server) starts writing this stream.
func (w *HlsWatch) NewIncarnation(dir string, hasVideo bool) {
	st := w.dir(dir)
	st.versions = nil
	st.hasSeq = false
	w.hasVideo[dir] = hasVideo
	w.live[dir] = true
}

// EndIncarnation: the publisher is about to leave (or the server to die); from here on the directory may be cleaned up.
func (w *HlsWatch) EndIncarnation(dir string) { w.live[dir] = false }

func (w *HlsWatch) fail(rule, format string, a ...interface{}) {
	if w.Problem == "" {
		w.Rule = rule
		w.Problem = fmt.Sprintf(format, a...)
	}
}

func dirOf(p string) string {
	i := strings.LastIndex(p, "/")
	return p[:i+1]
}

// checkSegment validates a closed segment file once.
func (w *HlsWatch) checkSegment(st *hlsDirState, path string, data []byte) string {
	if v, ok := st.segVerdict[path]; ok {
		return v
	}
	verdict := ""
	switch {
	case len(data) == 0:
		verdict = "is empty"
	case len(data)%188 != 0:
		verdict = fmt.Sprintf("has %d bytes, not a whole number of TS packets", len(data))
	default:
		d := tsc.New()
		d.Feed(data)
		d.Flush()
		switch {
		case d.Err != nil:
			verdict = "does not demultiplex: " + d.Err.Error()
		case d.FirstPat != 0 || d.FirstPmt != 1:
			verdict = fmt.Sprintf("does not begin with PAT, PMT (first PAT at packet %d, first PMT at packet %d)", d.FirstPat, d.FirstPmt)
		case len(d.PsiErrors) > 0:
			verdict = d.PsiErrors[0]
		}
		if verdict == "" {
			// does its first video access unit start at a key frame?
			tc := ParseTs(data)
			if len(tc.Video) > 0 {
				v := tc.Video[0]
				key := v.RandAcc
				for _, n := range v.Nals {
					if tc.VType == 0x1b && len(n) > 0 && n[0]&0x1f == 5 {
						key = true
					}
					if tc.VType == 0x24 && len(n) > 1 && (n[0]>>1)&0x3f >= 16 && (n[0]>>1)&0x3f <= 21 {
						key = true
					}
				}
				st.segVideo[path] = true
				if !key {
					verdict = "KEY" // judged together with the playlist's discontinuity flag
				}
			}
		}
	}
	st.segVerdict[path] = verdict
	return verdict
}

func (w *HlsWatch) onOp(op *sim.FsOp) {
	if !strings.HasPrefix(op.Path, "/simhls/") {
		return
	}
	d := dirOf(op.Path)
	if op.Path2 != "" {
		d = dirOf(op.Path2)
	}
	st := w.dir(d)
	if op.Err == "injected" {
		st.faulted = true
	}
	if (op.Kind == "create" || op.Kind == "write" || op.Kind == "remove") && strings.HasSuffix(op.Path, ".ts") {
		// a re-published stream may reuse a segment file name: never judge new content by an old verdict
		delete(st.segVerdict, op.Path)
		delete(st.segVideo, op.Path)
	}
	if op.Kind == "create" && strings.HasSuffix(op.Path, ".ts") && op.Err == "" {
		st.created = append(st.created, op.Path)
	}
	if op.Kind == "removeall" {
		// the delayed directory clean-up: legitimate only when no stream is live there
		for dir, live := range w.live {
			if live && (dir == op.Path || dir == op.Path+"/" || strings.HasPrefix(dir, op.Path+"/")) {
				w.fail("C10.live-stream-wiped", "fs op #%d removes %s although a publisher is live on that stream: its playlist and every listed segment are gone", op.Seq, op.Path)
			}
		}
		st.versions = nil
		return
	}
	w.Checks++
	fs := w.k.FS
	live := d + "playlist.m3u8"
	b, ok := fs.FileLocked(live)
	if !ok {
		return
	}
	m, err := ParseM3u8(b)
	if err != nil {
		w.fail("C10.playlist-malformed", "after fs op #%d (%s %s): %s is not a complete well-formed playlist: %v", op.Seq, op.Kind, op.Path, live, err)
		return
	}
	if op.Kind == "rename" && op.Path2 == live && op.Err == "" {
		// a new version of the live playlist
		if st.hasSeq && m.MediaSequence < st.lastSeq {
			w.fail("C10.media-sequence-decreased", "after fs op #%d: EXT-X-MEDIA-SEQUENCE went from %d to %d", op.Seq, st.lastSeq, m.MediaSequence)
		}
		st.lastSeq, st.hasSeq = m.MediaSequence, true
		var names []string
		for _, s := range m.Segments {
			names = append(names, s.URI)
			st.everListed[d+s.URI] = true
		}
		st.versions = append(st.versions, names)
	}
	for _, s := range m.Segments {
		if int(math.Floor(s.Duration+0.5-0.001)) > m.TargetDuration { // (a printed x.500 is a rounding tie)
			w.fail("C10.target-duration", "after fs op #%d: segment %s lasts %.3f s but EXT-X-TARGETDURATION is %d; playlist: %q", op.Seq, s.URI, s.Duration, m.TargetDuration, clip(string(b), 400))
		}
		if st.faulted {
			// after an injected I/O error the on-disk playlist may be stale (its update failed) and segment
			// writes may have failed: only "never partial or malformed" stays asserted
			continue
		}
		data, ok := fs.FileLocked(d + s.URI)
		if !ok {
			w.fail("C10.listed-segment-missing", "after fs op #%d (%s %s): the live playlist lists %s which does not exist", op.Seq, op.Kind, op.Path, s.URI)
			return
		}
		switch v := w.checkSegment(st, d+s.URI, data); v {
		case "":
		case "KEY":
			if !s.Discont && w.hasVideo[d] {
				w.fail("C10.segment-not-at-key-frame", "after fs op #%d: segment %s carries video, was not opened by a discontinuity and does not start at a key frame; playlist: %q", op.Seq, s.URI, clip(string(b), 600))
			}
		default:
			w.fail("C10.segment-malformed", "after fs op #%d: listed segment %s %s", op.Seq, s.URI, v)
		}
	}
	// segments of the current and the previous delete_threshold playlist versions are still there
	if st.faulted {
		return
	}
	keep := w.conf.HlsDelThresh + 1
	from := len(st.versions) - keep
	if from < 0 {
		from = 0
	}
	for vi := from; vi < len(st.versions); vi++ {
		for _, name := range st.versions[vi] {
			if _, ok := fs.FileLocked(d + name); !ok {
				w.fail("C10.segment-deleted-too-early", "after fs op #%d (%s %s): segment %s was listed %d playlist version(s) ago (delete_threshold=%d) but no longer exists",
					op.Seq, op.Kind, op.Path, name, len(st.versions)-1-vi, w.conf.HlsDelThresh)
				return
			}
		}
	}
}

// ---- scenario --------------------------------------------------------------------------------------------------------------

type HlsOp struct {
	Kind  string `json:"op"` // pub | send | stop | crash | advance
	N     int    `json:"n,omitempty"`
	Ms    int    `json:"ms,omitempty"`
	Reset bool   `json:"reset,omitempty"`
}

type HlsPlan struct {
	Conf   LalConf         `json:"conf"`
	Sched  sim.SchedParams `json:"sched"`
	Pubs   []PubPlan       `json:"pubs"` // successive incarnations of stream st0
	Ops    []HlsOp         `json:"ops"`
	Faults []sim.FsFault   `json:"faults,omitempty"`
}

func genHlsUnits(r *sim.Rng, p *PubPlan, n int, fragMs int) {
	hasV := p.VideoCodec != 0
	hasA := p.AudioCodec != 0
	if hasV {
		p.Units = append(p.Units, UnitSpec{Kind: media.KVideoSeq})
	}
	if hasA {
		p.Units = append(p.Units, UnitSpec{Kind: media.KAudioSeq})
	}
	ts := uint32(r.Intn(5000))
	gop := 1 + r.Intn(40)
	frameMs := []int{20, 40, 100, 250, 1000}[r.Intn(5)]
	i := 0
	noKey := r.Bool(0.1) // a stretch without key frames
	for len(p.Units) < n {
		step := uint32(frameMs)
		switch r.Intn(40) {
		case 0: // forward jump (forced split when far enough)
			step = uint32(fragMs * (2 + r.Intn(15)))
		case 1: // backward jump
			back := uint32(r.Intn(fragMs * 3))
			if ts > back {
				ts -= back
			}
			step = 0
		}
		ts += step
		if hasV && (!hasA || r.Bool(0.6)) {
			key := i%gop == 0
			if noKey && i > 3 && i < 3+gop*3 {
				key = false
			}
			p.Units = append(p.Units, UnitSpec{Kind: media.KVideo, Key: key, Ts: ts, Size: 20 + r.Intn(2000), Nals: 1})
			i++
		} else if hasA {
			p.Units = append(p.Units, UnitSpec{Kind: media.KAudio, Ts: ts, Size: 10 + r.Intn(300)})
		}
	}
}

func genC10Plan(r *sim.Rng, tier string) HlsPlan {
	var pl HlsPlan
	pl.Conf = LalConf{ApiEnable: true, HlsEnable: true, TsEnable: true, RecordTs: true, NoHook: true}
	pl.Conf.HlsFragMs = []int{200, 500, 1000, 3000, 6000}[r.Intn(5)]
	pl.Conf.HlsFragNum = 1 + r.Intn(8)
	pl.Conf.HlsDelThresh = r.Intn(9)
	pl.Conf.HlsCleanup = r.Intn(3)
	pl.Sched = GenSched(r.Fork("s"), tier == "thorough")
	nInc := 1 + r.Intn(3)
	total := 60 + r.Intn(120)
	if tier == "thorough" {
		total = 150 + r.Intn(500)
	}
	for i := 0; i < nInc; i++ {
		p := PubPlan{Stream: 0, Inc: i, VideoCodec: media.CodecAVC, AudioCodec: media.SoundAAC, AacSr: 4}
		switch r.Intn(6) {
		case 0:
			p.VideoCodec = 0
		case 1:
			p.AudioCodec = 0
		case 2:
			p.VideoCodec = media.CodecHEVC
		}
		genHlsUnits(r.Fork(fmt.Sprintf("u%d", i)), &p, total/nInc, pl.Conf.HlsFragMs)
		pl.Pubs = append(pl.Pubs, p)
	}
	for i := 0; i < nInc; i++ {
		pl.Ops = append(pl.Ops, HlsOp{Kind: "pub", N: i})
		left := len(pl.Pubs[i].Units)
		for left > 0 {
			n := 1 + r.Intn(12)
			pl.Ops = append(pl.Ops, HlsOp{Kind: "send", N: n})
			left -= n
			if r.Bool(0.3) {
				pl.Ops = append(pl.Ops, HlsOp{Kind: "advance", Ms: 50 + r.Intn(1500)})
			}
		}
		switch r.Intn(5) {
		case 0:
			pl.Ops = append(pl.Ops, HlsOp{Kind: "crash"})
		default:
			pl.Ops = append(pl.Ops, HlsOp{Kind: "stop", Reset: r.Bool(0.3)})
		}
		// the delayed clean-up of the directory may or may not have run when the next publisher arrives
		pl.Ops = append(pl.Ops, HlsOp{Kind: "advance", Ms: []int{0, 300, 2000, 20000, 60000}[r.Intn(5)]})
	}
	// a crash in the middle of an incarnation, at an arbitrary point
	if r.Bool(0.4) {
		at := r.Intn(len(pl.Ops))
		pl.Ops = append(pl.Ops[:at:at], append([]HlsOp{{Kind: "crash"}}, pl.Ops[at:]...)...)
	}
	if r.Bool(0.3) {
		// fault-injecting configuration (reported separately in the evidence through the fault counters)
		for i := 0; i < 1+r.Intn(3); i++ {
			kind := []string{"create", "write", "close", "rename", "writefile", "remove"}[r.Intn(6)]
			suffix := ""
			if kind == "rename" || kind == "writefile" {
				suffix = []string{".m3u8", ".bak", ""}[r.Intn(3)]
			}
			pl.Faults = append(pl.Faults, sim.FsFault{Kind: kind, Suffix: suffix, Nth: 1 + r.Intn(30), Mode: []string{"error", "short", "enospc"}[r.Intn(3)]})
		}
	}
	return pl
}

func execHls(k *sim.Kernel, pl HlsPlan) {
	for i := range pl.Faults {
		f := pl.Faults[i]
		k.FS.AddFault(&f)
	}
	watch := WatchHls(k, pl.Conf)
	dir := "/simhls/st0/"
	w := StartWorld(k, pl.Conf)
	var pub *actors.RtmpClient
	var units []media.Unit
	var curPlan *PubPlan
	queued := 0
	report := func() {
		if watch.Problem != "" {
			k.Violate(watch.Rule, "%s", watch.Problem)
		}
	}
	k.AddInvariant(report)
	finished := map[int]bool{}
	crashOp, nPubs := 0, 0
	faulty := len(pl.Faults) > 0
	for _, op := range pl.Ops {
		switch op.Kind {
		case "pub":
			if pub != nil && !pub.Closed && pub.LeftStep < 0 {
				watch.EndIncarnation(dir)
				pub.Leave(false)
				k.Settle()
			}
			if op.N >= len(pl.Pubs) {
				continue
			}
			if nPubs > 0 {
				// segment names carry the wall clock in ms: a re-publish within the same millisecond would reuse the
				// names of segments the finished playlist still lists, which no real clock allows
				k.Advance(time.Duration(3+7*nPubs) * time.Millisecond)
			}
			nPubs++
			curPlan = &pl.Pubs[op.N]
			units = BuildUnits(*curPlan)
			queued = 0
			watch.NewIncarnation(dir, curPlan.VideoCodec != 0)
			pub = actors.NewRtmpClient(k, fmt.Sprintf("pub%d", op.N), actors.RolePublish, "live", "st0")
			if !pub.Connect(PortRtmp, 10+op.N) {
				k.Abort("rtmp listener missing")
			}
			w.Observe(pub.Observe)
			k.Settle()
		case "send":
			if pub == nil || pub.Closed || pub.LeftStep >= 0 {
				continue
			}
			for i := 0; i < op.N && queued < len(units); i++ {
				pub.Publish(units[queued].Msg)
				queued++
			}
			k.Settle()
		case "advance":
			k.Advance(time.Duration(op.Ms) * time.Millisecond)
		case "stop":
			if pub != nil && pub.LeftStep < 0 {
				watch.EndIncarnation(dir)
				pub.Leave(op.Reset)
				k.Settle()
				k.Advance(100 * time.Millisecond)
				if curPlan != nil && !faulty {
					finished[curPlan.Inc] = true
					checkHlsEnd(k, pl, dir, pub, units[:queued], curPlan, crashOp, nPubs == 1 && crashOp == 0)
				}
			}
		case "crash":
			watch.EndIncarnation(dir)
			k.Crash()
			crashOp = k.FS.OpsLen()
			pub = nil
			// only what is on the simulated disk survives; a new server starts on it
			w = StartWorld(k, pl.Conf)
			k.Probe("c10_restart_on_persisted_disk")
		}
	}
	k.Settle()
	report()
	if watch.Checks > 0 {
		k.Probe("nontrivial")
	}
	if faulty {
		k.Probe("c10_fault_config")
	}
}

// checkHlsEnd: when the stream ends the live playlist is finalised and (unless clean-up is immediate) the
// record playlist lists every segment ever produced; the segments hold every TS packet exactly once, in order.
func checkHlsEnd(k *sim.Kernel, pl HlsPlan, dir string, pub *actors.RtmpClient, units []media.Unit, pp *PubPlan, sinceOp int, first bool) {
	b, ok := k.FS.File(dir + "playlist.m3u8")
	created := 0
	for _, op := range k.FS.OpsSnapshot() {
		if op.Kind == "create" && strings.HasPrefix(op.Path, dir) && strings.HasSuffix(op.Path, ".ts") && op.Err == "" {
			created++
		}
	}
	if !ok {
		if created > 0 {
			// cleanup may already have removed the directory
			return
		}
		return
	}
	m, err := ParseM3u8(b)
	if err != nil {
		k.Violate("C10.playlist-malformed", "final live playlist: %v", err)
	}
	if !m.EndList {
		k.Violate("C10.no-end-marker", "the stream ended but the live playlist has no EXT-X-ENDLIST")
	}
	if pl.Conf.HlsCleanup == 2 {
		return
	}
	rec, okr := k.FS.File(dir + "record.m3u8")
	if !okr {
		if created > 0 {
			k.Violate("C10.record-playlist-missing", "%d segments were produced but there is no record playlist (cleanup_mode=%d)", created, pl.Conf.HlsCleanup)
		}
		return
	}
	rm, err := ParseM3u8(rec)
	if err != nil {
		k.Violate("C10.record-playlist-malformed", "record playlist: %v", err)
	}
	listed := map[string]bool{}
	for _, s := range rm.Segments {
		listed[dir+s.URI] = true
	}
	for _, op := range k.FS.OpsSnapshot() {
		if op.Seq <= sinceOp {
			continue // produced by a server incarnation that crashed: its open segment was never closed
		}
		if op.Kind == "create" && strings.HasPrefix(op.Path, dir) && strings.HasSuffix(op.Path, ".ts") && op.Err == "" && !listed[op.Path] {
			if _, still := k.FS.File(op.Path); still {
				k.Violate("C10.record-playlist-incomplete", "segment %s was produced but the record playlist does not list it", op.Path)
			}
		}
	}
	// conservation against the TS recording of the same incarnation (same packets, PAT/PMT aside); judged for
	// the first incarnation on a fresh disk, where the record playlist holds exactly this stream life
	files := recordFiles(k, "/simrec/ts/", 0)
	if len(files) == 0 || pub == nil || !first {
		return
	}
	recTs, err := k.SandboxFile(files[len(files)-1])
	if err != nil || len(recTs)%188 != 0 {
		return
	}
	var hls []byte
	for _, s := range rm.Segments {
		seg, ok := k.FS.File(dir + s.URI)
		if !ok {
			return // an earlier incarnation's segments may have been cleaned up
		}
		hls = append(hls, seg...)
	}
	strip := func(b []byte) [][]byte {
		var out [][]byte
		for i := 0; i+188 <= len(b); i += 188 {
			pid := int(b[i+1]&0x1f)<<8 | int(b[i+2])
			if pid == 0 || pid == 0x1001 || pid == 4097 {
				continue
			}
			out = append(out, b[i:i+188])
		}
		return out
	}
	hp := strip(hls)
	rp := strip(recTs)
	if len(hp) == 0 {
		return
	}
	// the record playlist may span several incarnations: compare the tail that belongs to this one
	if len(hp) > len(rp) {
		hp = hp[len(hp)-len(rp):]
	}
	// the recording starts with the stream, HLS with its first segment: align on the first HLS packet
	start := -1
	for i := range rp {
		if bytes.Equal(rp[i], hp[0]) {
			start = i
			break
		}
	}
	if start < 0 {
		k.Violate("C10.conservation", "the first TS packet of the HLS segments does not occur in the TS recording of the same stream")
	}
	if len(rp)-start != len(hp) {
		k.Violate("C10.conservation", "HLS segments hold %d elementary TS packets, the recording holds %d from the same starting point", len(hp), len(rp)-start)
	}
	for i := range hp {
		if !bytes.Equal(hp[i], rp[start+i]) {
			k.Violate("C10.conservation", "TS packet #%d of the HLS segments differs from the packet the remuxer produced (lost, duplicated or reordered)", i)
		}
	}
	k.Probe("c10_conservation_checked")
}

func init() {
	Register(&Check{
		ID:  "C10",
		Gen: func(r *sim.Rng, tier string) json.RawMessage { return mustJSON(genC10Plan(r, tier)) },
		Sched: func(plan json.RawMessage) sim.SchedParams {
			var pl HlsPlan
			fromJSON(plan, &pl)
			return pl.Sched
		},
		Run: func(k *sim.Kernel, plan json.RawMessage) {
			var pl HlsPlan
			fromJSON(plan, &pl)
			execHls(k, pl)
		},
		Shrink: func(plan json.RawMessage) []json.RawMessage {
			var pl HlsPlan
			fromJSON(plan, &pl)
			var out []json.RawMessage
			n := len(pl.Ops)
			for chunk := n / 2; chunk >= 1; chunk /= 2 {
				for at := 0; at+chunk <= n; at += chunk {
					q := pl
					q.Ops = append(append([]HlsOp{}, pl.Ops[:at]...), pl.Ops[at+chunk:]...)
					out = append(out, mustJSON(q))
				}
				if chunk == 1 {
					break
				}
			}
			for i := range pl.Faults {
				q := pl
				q.Faults = append(append([]sim.FsFault{}, pl.Faults[:i]...), pl.Faults[i+1:]...)
				out = append(out, mustJSON(q))
			}
			for pi := range pl.Pubs {
				if len(pl.Pubs[pi].Units) > 6 {
					q := pl
					q.Pubs = append([]PubPlan{}, pl.Pubs...)
					q.Pubs[pi].Units = pl.Pubs[pi].Units[:len(pl.Pubs[pi].Units)*2/3]
					out = append(out, mustJSON(q))
				}
			}
			if pl.Sched.Chaos != 0 || pl.Sched.Preempt != 0 || pl.Sched.SegMode != 0 {
				q := pl
				q.Sched.Chaos, q.Sched.Preempt, q.Sched.SegMode, q.Sched.PermuteMap = 0, 0, 0, false
				out = append(out, mustJSON(q))
			}
			return out
		},
		Shape: func(plan json.RawMessage) string {
			var pl HlsPlan
			fromJSON(plan, &pl)
			ops := ""
			for _, o := range pl.Ops {
				if o.Kind != "send" && o.Kind != "advance" {
					ops += o.Kind[:1]
				}
			}
			return fmt.Sprintf("f%d.%d.%d.%d/%s/faults%d/u%d", pl.Conf.HlsFragMs, pl.Conf.HlsFragNum, pl.Conf.HlsDelThresh, pl.Conf.HlsCleanup, ops, len(pl.Faults), len(pl.Ops)/5)
		},
		Brief: func(plan json.RawMessage) interface{} {
			var pl HlsPlan
			fromJSON(plan, &pl)
			type pb struct{ Units, V, A int }
			var pubs []pb
			for _, p := range pl.Pubs {
				pubs = append(pubs, pb{len(p.Units), p.VideoCodec, p.AudioCodec})
			}
			return map[string]interface{}{"conf": pl.Conf, "pubs": pubs, "ops": pl.Ops, "faults": pl.Faults}
		},
	})
}

package scen

import (
	"encoding/json"
	"fmt"
	"strings"
	"syscall"
	"time"

	"simlal/sim"
	"simlal/sim/actors"
	"simlal/sim/media"
	"simlal/sim/rtmpc"
)

// C05: an accepted publisher sends well-framed messages with hostile payloads; every output is enabled.

type PayloadPlan struct {
	Conf    LalConf         `json:"conf"`
	Sched   sim.SchedParams `json:"sched"`
	Items   []WireItem      `json:"items"` // all Kind "msg" with type 8 / 9 / 18
	Joins   []PayloadJoin   `json:"joins"`
	ByUnits int             `json:"by_units"`
	// DropEquiv > 0: the publisher's stream is an ordinary H.264 stream into which one audio message lal cannot interpret
	// is inserted (right after the sequence header); "dropped or forwarded opaquely" then means the rest of the stream is
	// served as if the message had not been sent: an RTSP player still gets the description and the video
	DropEquiv int `json:"drop_equiv,omitempty"`
}

type PayloadJoin struct {
	After int    `json:"after"` // join after this many items
	Proto string `json:"proto"`
}

func genC05Plan(r *sim.Rng, tier string) PayloadPlan {
	var pl PayloadPlan
	pl.Conf = LalConf{ApiEnable: true, FlvEnable: true, TsEnable: true, HlsEnable: true, HlsFragMs: []int{200, 1000, 3000}[r.Intn(3)], HlsFragNum: 1 + r.Intn(4), HlsDelThresh: r.Intn(4),
		HlsCleanup: r.Intn(3), RecordFlv: true, RecordTs: true, RtspEnable: true, RtspWaitKey: r.Bool(0.5),
		RtmpGop: r.Intn(3), FlvGop: r.Intn(3), TsGop: r.Intn(3), MergeWrite: []int{0, 0, 1000}[r.Intn(3)],
		DummyAudio: r.Bool(0.5), DummyAudioWaitMs: []int{0, 1, 50, 150}[r.Intn(4)]}
	pl.Sched = GenSched(r.Fork("sched"), tier == "thorough")
	pl.ByUnits = 10 + r.Intn(12)
	n := 4 + r.Intn(30)
	if tier == "thorough" {
		n = 10 + r.Intn(120)
	}
	ts := uint32(r.Intn(1000))
	if r.Bool(0.06) {
		pl.DropEquiv = 1 + r.Intn(6)
		pl.Items = append(pl.Items, WireItem{Kind: "msg", Type: 9, Gen: "seqhdr_trunc", N: 1000, Ts: ts, Msid: 1, Csid: 6})
		odd := [][]byte{{0xaf, 0x00, 0x17, 0x90}, {0xaf, 0x00, 0x12}, {0xaf, 0x00, 0x06, 0x90}, {0xaf, 0x00, 0x16, 0x90}, {0xaf, 0x00, 0x17, 0x10}, {0xaf, 0x00, 0x12, 0x00}}[pl.DropEquiv-1]
		pl.Items = append(pl.Items, WireItem{Kind: "msg", Type: 8, Gen: "literal", Lit: odd, Ts: ts, Msid: 1, Csid: 6})
		for i := 0; i < 40; i++ {
			ts += 40
			pl.Items = append(pl.Items, WireItem{Kind: "msg", Type: 9, Gen: "valid_video", N: 50 + r.Intn(300), Shape: map[bool]int{true: 0, false: 1}[i%10 == 0], Seed: r.U64(), Ts: ts, Msid: 1, Csid: 6})
		}
		pl.Joins = []PayloadJoin{{After: r.Intn(3), Proto: "rtsp"}, {After: len(pl.Items), Proto: "rtsp"}}
		return pl
	}
	for i := 0; i < n; i++ {
		seed := r.U64()
		switch r.Intn(12) {
		case 0:
			ts = []uint32{0, 0xFFFFFF, 0xFFFFFFF0, 0x7FFFFFFF, 0x80000000, 1, 3600000}[r.Intn(7)]
		case 1:
			ts += uint32(r.Intn(100000))
		case 2:
			if ts > 1000 {
				ts -= uint32(r.Intn(1000))
			}
		default:
			ts += uint32(r.Intn(60))
		}
		var it WireItem
		switch r.Intn(15) {
		case 12:
			it = WireItem{Type: 9, Gen: "nal_types", N: r.Intn(9), Shape: r.Intn(64)}
			if r.Bool(0.4) {
				it = WireItem{Type: 9, Gen: "sps_golomb", N: r.Intn(42), Shape: r.Intn(240)}
			} else if r.Bool(0.4) {
				it = WireItem{Type: 9, Gen: "hevc_ps_cut", N: r.Intn(64), Shape: r.Intn(6)}
			}
		case 13:
			it = WireItem{Type: 9, Gen: "seqhdr_annexb", N: r.Intn(24), Shape: r.Intn(64)}
		case 14:
			depth := []int{3, 100, 5000, 70000, 400000}[r.Intn(5)]
			it = WireItem{Type: 18, Gen: []string{"meta_nest_arr", "meta_nest_ecma", "meta_objvals", "meta_objvals"}[r.Intn(4)], N: depth, Shape: r.Intn(64)}
			if it.Gen == "meta_objvals" {
				it.N = r.Intn(60)
			}
		case 0, 1:
			it = WireItem{Type: []int{8, 9}[r.Intn(2)], Gen: "rand", N: []int{0, 1, 2, 3, 4, 5, 6, 7, 9, 12, 40}[r.Intn(11)]}
		case 2, 3:
			it = WireItem{Type: 9, Gen: "video_hdr", N: []int{0, 1, 2, 3, 4, 5, 8, 20, 200}[r.Intn(9)], Shape: r.Intn(64)}
			if r.Bool(0.3) {
				it = WireItem{Type: 9, Gen: "ex_video_trunc", N: r.Intn(12), Shape: r.Intn(60)}
			}
		case 4:
			it = WireItem{Type: 9, Gen: "nal_zero_len", N: r.Intn(8), Shape: r.Intn(1024)}
		case 5:
			it = WireItem{Type: 8, Gen: "audio_hdr", N: []int{0, 1, 2, 7, 100}[r.Intn(5)], Shape: r.Intn(64)}
		case 6:
			it = WireItem{Type: 9, Gen: []string{"seqhdr_trunc", "hevc_seqhdr_trunc"}[r.Intn(2)], N: r.Intn(80)}
		case 7:
			it = WireItem{Type: 18, Gen: []string{"meta_bad", "meta_nest", "rand", "amf_bigcount", "meta_knownkeys", "meta_knownkeys"}[r.Intn(6)], N: []int{0, 1, 5, 100, 2000}[r.Intn(5)], Shape: r.Intn(64)}
		case 8, 9:
			it = WireItem{Type: 9, Gen: "valid_video", N: 1 + r.Intn(400), Shape: r.Intn(2)}
		case 10:
			it = WireItem{Type: 8, Gen: "valid_audio", N: 1 + r.Intn(300)}
		case 11:
			it = WireItem{Type: 9, Gen: "seqhdr_trunc", N: 1000} // complete sequence header
		}
		it.Kind, it.Seed, it.Ts, it.Msid, it.Csid = "msg", seed, ts, 1, 6
		pl.Items = append(pl.Items, it)
	}
	for i := 0; i < 1+r.Intn(5); i++ {
		pl.Joins = append(pl.Joins, PayloadJoin{After: r.Intn(n + 1), Proto: []string{"rtmp", "flv", "wsflv", "ts", "wsts", "rtsp", "rtsp", "rtspudp"}[r.Intn(8)]})
	}
	return pl
}

// cpuSeconds is the CPU time (user + system) this process has used so far.
func cpuSeconds() float64 {
	var ru syscall.Rusage
	if err := syscall.Getrusage(syscall.RUSAGE_SELF, &ru); err != nil {
		return 0
	}
	return float64(ru.Utime.Sec+ru.Stime.Sec) + float64(ru.Utime.Usec+ru.Stime.Usec)/1e6
}

func execHostilePayload(k *sim.Kernel, pl PayloadPlan) {
	w := StartWorld(k, pl.Conf)
	by := &PubState{Plan: PubPlan{Stream: 0, Inc: 0, VideoCodec: media.CodecAVC, AudioCodec: media.SoundAAC, AacSr: 4}}
	by.Units = admUnits(0, pl.ByUnits, true)
	by.Actor = actors.NewRtmpClient(k, "bypub", actors.RolePublish, "live", "by")
	by.Actor.Connect(PortRtmp, 1)
	w.Observe(by.Actor.Observe)
	k.Settle()
	cons := &ConsState{Plan: ConsPlan{Stream: 0, Proto: "rtmp"}, Joined: true}
	cons.Rtmp = actors.NewRtmpClient(k, "bysub", actors.RolePlay, "live", "by")
	cons.Rtmp.Connect(PortRtmp, 2)
	w.Observe(cons.Rtmp.Observe)
	k.Settle()
	hp := actors.NewRtmpClient(k, "hostilepub", actors.RolePublish, "live", "hp")
	hp.Connect(PortRtmp, 3)
	k.Settle()
	if !hp.Ready || hp.Closed {
		k.Abort("the hostile-payload publisher was not accepted")
	}
	sent := 0
	var rtspJoiners []*actors.RtspClient
	for i := 0; i <= len(pl.Items); i++ {
		for ji, j := range pl.Joins {
			if j.After == i {
				name := fmt.Sprintf("hc%d", ji)
				switch j.Proto {
				case "rtmp":
					a := actors.NewRtmpClient(k, name, actors.RolePlay, "live", "hp")
					a.Connect(PortRtmp, 20+ji)
				case "rtsp", "rtspudp":
					a := actors.NewRtspClient(k, name, "play", fmt.Sprintf("rtsp://127.0.0.1:%d/live/hp", PortRtsp), j.Proto == "rtsp")
					a.ClientPort = 22000 + 10*ji
					a.Connect(PortRtsp, 20+ji)
					rtspJoiners = append(rtspJoiners, a)
				case "flv", "wsflv":
					a := actors.NewHttpClient(k, name, j.Proto, "/live/hp.flv")
					a.Connect(PortHttp, 20+ji)
				default:
					a := actors.NewHttpClient(k, name, j.Proto, "/live/hp.ts")
					a.Connect(PortHttp, 20+ji)
				}
			}
		}
		cpu0 := cpuSeconds()
		size := 0
		if i < len(pl.Items) {
			it := pl.Items[i]
			pay := genPayload(it)
			size = len(pay)
			hp.Publish(rtmpc.Msg{Type: uint8(it.Type), Ts: it.Ts, Payload: pay})
		}
		if sent < len(by.Units) {
			by.Actor.Publish(by.Units[sent].Msg)
			sent++
		}
		k.Settle()
		// processing time is bounded by the size of what was sent: measured in CPU time of this process (machine load
		// does not count), with a bound far above what such a message normally costs (the harness itself hashes and re-segments every byte, so the
		// allowance grows with the size: 4 s + 1 s per 32 KiB)
		if d := cpuSeconds() - cpu0; i < len(pl.Items) && d > 4+float64(size)/(32<<10) {
			k.Violate("C05.slow-message", "item %d (%s, %d bytes) kept the server busy for %.1f s of CPU time", i, pl.Items[i].Gen, size, d)
		}
		if i%4 == 3 {
			k.Advance(250 * time.Millisecond)
		}
	}
	for sent < len(by.Units) {
		by.Actor.Publish(by.Units[sent].Msg)
		sent++
	}
	k.Settle()
	k.Advance(1200 * time.Millisecond)
	if hp.Closed {
		k.Probe("c05_publisher_closed_by_lal")
	}
	if pl.DropEquiv > 0 && !hp.Closed {
		for ji, a := range rtspJoiners {
			if !a.DescribeOK || !strings.Contains(a.SdpRecv, "H264") {
				k.Violate("C05.uninterpretable-not-dropped", "RTSP player %d of an ordinary H.264 stream whose only oddity is one AAC sequence header lal cannot interpret (%x) got no description of the video 1.2 s and 40 frames later (statuses %v, %s): the message was neither dropped nor forwarded opaquely, it stalls the stream's RTSP output", ji, genPayload(pl.Items[1]), a.Status, a.Failed)
			}
		}
		k.Probe("c05_drop_equivalence_runs")
	}
	if by.Actor.Closed || cons.Rtmp.Closed {
		k.Violate("C05.bystander-disconnected", "the well-behaved stream was disconnected while another publisher sent odd payloads")
	}
	rr := &RelayRun{W: w, Pubs: []*PubState{by}, Cons: []*ConsState{cons}}
	rr.Plan.Conf = pl.Conf
	JudgeConsumer(k, "C05", "bystander", cons, rr.Forwardable(0), pl.Conf)
	hp.Leave(false)
	k.Settle()
	k.Advance(1200 * time.Millisecond)
	probe := actors.NewRtmpClient(k, "probe", actors.RolePlay, "live", "by")
	probe.Connect(PortRtmp, 4)
	k.Settle()
	if !probe.Ready {
		k.Violate("C05.server-stuck", "a fresh RTMP connection is not served after the odd payloads (state %s)", probe)
	}
	k.Probe("nontrivial")
}

func init() {
	Register(&Check{
		ID:  "C05",
		Gen: func(r *sim.Rng, tier string) json.RawMessage { return mustJSON(genC05Plan(r, tier)) },
		Sched: func(plan json.RawMessage) sim.SchedParams {
			var pl PayloadPlan
			fromJSON(plan, &pl)
			return pl.Sched
		},
		Run: func(k *sim.Kernel, plan json.RawMessage) {
			var pl PayloadPlan
			fromJSON(plan, &pl)
			execHostilePayload(k, pl)
		},
		Shrink: func(plan json.RawMessage) []json.RawMessage {
			var pl PayloadPlan
			fromJSON(plan, &pl)
			var out []json.RawMessage
			for i := range pl.Items {
				q := pl
				q.Items = append(append([]WireItem{}, pl.Items[:i]...), pl.Items[i+1:]...)
				out = append(out, mustJSON(q))
			}
			for i := range pl.Joins {
				q := pl
				q.Joins = append(append([]PayloadJoin{}, pl.Joins[:i]...), pl.Joins[i+1:]...)
				out = append(out, mustJSON(q))
			}
			return out
		},
		Shape: func(plan json.RawMessage) string {
			var pl PayloadPlan
			fromJSON(plan, &pl)
			s := fmt.Sprintf("d%v/", pl.Conf.DummyAudio)
			for _, it := range pl.Items {
				s += fmt.Sprintf("%d%s%d.", it.Type, it.Gen[:1], it.Shape%16)
			}
			if len(s) > 100 {
				s = s[:100]
			}
			return s
		},
		Brief: func(plan json.RawMessage) interface{} {
			var pl PayloadPlan
			fromJSON(plan, &pl)
			return pl
		},
	})
}

package scen

import (
	"bytes"
	"simlal/sim/actors"
	"time"

	"encoding/json"
	"fmt"
	"os"
	"strings"

	"simlal/sim"
	"simlal/sim/httpc"
	"simlal/sim/media"
)

// HlsTracker records every version of every live playlist as it is renamed into place.
type HlsTracker struct {
	Versions map[string][]PlaylistVersion // stream dir -> versions
}

type PlaylistVersion struct {
	OpSeq   int
	Content []byte
}

func TrackHls(k *sim.Kernel) *HlsTracker {
	t := &HlsTracker{Versions: map[string][]PlaylistVersion{}}
	prev := k.FS.OnOp
	k.FS.OnOp = func(op *sim.FsOp) {
		if prev != nil {
			prev(op)
		}
		if op.Kind == "rename" && op.Err == "" && strings.HasSuffix(op.Path2, "/playlist.m3u8") {
			if b, ok := k.FS.FileLocked(op.Path2); ok {
				dir := strings.TrimSuffix(op.Path2, "playlist.m3u8")
				t.Versions[dir] = append(t.Versions[dir], PlaylistVersion{OpSeq: op.Seq, Content: append([]byte(nil), b...)})
			}
		}
	}
	return t
}

func genC16Plan(r *sim.Rng, tier string) RelayPlan {
	prof := RelayProfile{
		Protos:         []string{"rtmp", "flv", "ts", "wsflv", "rtsp"},
		MaxUnits:       60,
		MaxCons:        4,
		Republish:      0.7,
		HeaderChange:   0.05,
		TsWeird:        0.05,
		NalKinds:       0.1,
		BigUnits:       0.05,
		ZeroLen:        0.01,
		ShapeAudioOnly: 0.3,
		ShapeVideoOnly: 0.2,
		LeaveProb:      0.25,
		SettleProb:     [2]float64{0.3, 1.0},
	}
	if tier == "thorough" {
		prof.MaxUnits = 200
		prof.MaxCons = 8
		prof.Thorough = true
	}
	pl := GenRelayPlan(r, prof)
	if r.Bool(0.06) {
		// the RTSP variant of the idle-input clause
		q := RelayPlan{Sched: pl.Sched, Conf: LalConf{RtmpGop: 1, RtspEnable: true, ApiEnable: true, NoHook: true, HlsEnable: r.Bool(0.5), HlsFragMs: 1000, HlsFragNum: 3, HlsCleanup: r.Intn(3)}}
		q.RtspIdle = &RtspIdlePlan{Tcp: r.Bool(0.5), ActiveMs: []int{3000, 60000, 125000, 130000, 200000, 250000}[r.Intn(6)], WithAudio: r.Bool(0.5), Cons: r.Intn(3), Push: r.Bool(0.5), Leaves: r.Bool(0.4)}
		return q
	}
	pl.Conf.TsEnable = r.Bool(0.8)
	pl.Conf.RtspEnable = true
	pl.Conf.HlsEnable = r.Bool(0.7)
	pl.Conf.HlsFragMs = []int{200, 500, 1000, 3000}[r.Intn(4)]
	pl.Conf.HlsFragNum = 1 + r.Intn(6)
	pl.Conf.HlsDelThresh = r.Intn(6)
	pl.Conf.HlsCleanup = []int{0, 0, 1, 2}[r.Intn(4)]
	pl.Conf.RecordFlv = r.Bool(0.6)
	pl.Conf.RecordTs = r.Bool(0.6)
	for i := range pl.Pubs {
		if pl.Pubs[i].AudioCodec != 0 && r.Bool(0.8) {
			pl.Pubs[i].AudioCodec = media.SoundAAC
		}
	}
	// relay push to a slow target: the connect is still in progress while publishers leave and the name is published again
	if r.Bool(0.2) {
		pl.Conf.PushAddrs = []string{"10.8.8.1:1935"}
		pl.PushHoldMs = []int{0, 300, 1500, 4000}[r.Intn(4)]
	}
	// a relay pull that never becomes the input (its origin refuses the connection; no retries): afterwards the stream
	// is as removable as any other
	if r.Bool(0.25) {
		at := r.Intn(len(pl.Ops) + 1)
		ins := []RelayOp{{Kind: "pull_refused", Pub: r.Intn(2)}, {Kind: "settle"}}
		pl.Ops = append(pl.Ops[:at:at], append(ins, pl.Ops[at:]...)...)
	}
	// a fresh consumer right after an input has ended (and before the next one of that name starts)
	if r.Bool(0.4) {
		for i := 0; i < len(pl.Ops); i++ {
			if pl.Ops[i].Kind == "stop_pub" && r.Bool(0.5) {
				ci := len(pl.Cons)
				pl.Cons = append(pl.Cons, ConsPlan{Stream: pl.Pubs[pl.Ops[i].Pub].Stream, Proto: []string{"rtmp", "flv", "wsflv"}[r.Intn(3)]})
				ins := []RelayOp{{Kind: "settle"}, {Kind: "join", Cons: ci}, {Kind: "settle"}}
				pl.Ops = append(pl.Ops[:i+1:i+1], append(ins, pl.Ops[i+1:]...)...)
				i += len(ins)
			}
		}
	}
	// vary how inputs end: replace some stop_pub ops by kick / idle timeout
	for i := range pl.Ops {
		if pl.Ops[i].Kind != "stop_pub" {
			continue
		}
		switch r.Intn(8) {
		case 0, 1:
			pl.Ops[i].Kind = "kick_pub"
		case 2:
			if !r.Bool(0.5) {
				break
			}
			// idle: silent publisher, 2 sweep intervals later it must be gone
			pl.Ops[i].Kind = "idle_pub"
			rest := append([]RelayOp{{Kind: "advance", Ms: 245000}}, pl.Ops[i+1:]...)
			pl.Ops = append(pl.Ops[:i+1:i+1], rest...)
			if r.Bool(0.5) {
				// the publisher is still sending when the first liveness sweep looks at it and falls silent later
				for j := i - 1; j >= 0; j-- {
					if pl.Ops[j].Kind == "send" && pl.Ops[j].Pub == pl.Ops[i].Pub {
						adv := RelayOp{Kind: "advance", Ms: 121000 + r.Intn(75000)}
						pl.Ops = append(pl.Ops[:j:j], append([]RelayOp{adv}, pl.Ops[j:]...)...)
						break
					}
				}
				return finishC16(r, pl)
			}
		}
	}
	return finishC16(r, pl)
}

// runC16RtspIdle: "an input that stops sending is disconnected by the idle check" for the input kind that has no
// socket read timeout of its own (RTSP publishers; RTMP publishers are also cut by their 120 s read timeout).
func runC16RtspIdle(k *sim.Kernel, pl RelayPlan) {
	ip := pl.RtspIdle
	var pushes []*actors.RtmpServerStub
	if ip.Push {
		pl.Conf.PushAddrs = []string{"10.8.8.1:1935"}
		k.RegisterStub("10.8.8.1:1935", func(c *sim.Conn) (sim.ConnHandler, time.Duration) {
			st := actors.NewRtmpServerStub(k, fmt.Sprintf("pushtarget%d", len(pushes)), c)
			pushes = append(pushes, st)
			return st, 0
		})
	}
	w := StartWorld(k, pl.Conf)
	cp := C07Plan{Video: "avc", AacSrIdx: 4, SdpParams: true, MaxPayload: 1200, Transport: "udp"}
	if ip.WithAudio {
		cp.Audio = "aac"
	}
	n := ip.ActiveMs/1000 + 2
	for i := 0; i < n; i++ {
		cp.Frames = append(cp.Frames, C07Frame{Track: 0, Ts: uint64(i) * 90000, Nals: []C07Nal{{T: 5, N: 200}}})
		if ip.WithAudio {
			cp.Frames = append(cp.Frames, C07Frame{Track: 1, Ts: uint64(i) * 44100, N: 100})
		}
	}
	src := buildC07(&cp)
	pub := actors.NewRtspClient(k, "pub", "pub", fmt.Sprintf("rtsp://127.0.0.1:%d/live/idle", PortRtsp), ip.Tcp)
	pub.Sdp = src.sdp()
	pub.ClientPort = 20000
	pub.Tracks = actors.ParseSdpTracks(pub.Sdp)
	pub.Connect(PortRtsp, 1)
	k.Settle()
	if !pub.Ready {
		k.Abort("rtsp publish not accepted")
	}
	var subs []*actors.RtmpClient
	for i := 0; i < ip.Cons; i++ {
		c := actors.NewRtmpClient(k, fmt.Sprintf("cons%d", i), actors.RolePlay, "live", "idle")
		c.Connect(PortRtmp, 10+i)
		subs = append(subs, c)
	}
	k.Settle()
	sent := [2]int{}
	for fi, f := range cp.Frames {
		for range src.fpk[fi] {
			pub.SendRtp(src.trackIndex(f.Track), src.pkts[f.Track][src.order[f.Track][sent[f.Track]]])
			sent[f.Track]++
		}
		k.Settle()
		if f.Track == 0 {
			k.Advance(time.Second)
		}
	}
	if pub.Closed {
		k.Violate("C16.active-input-disconnected", "the RTSP publisher was disconnected while it was still sending (after %d ms)", k.NowMs())
	}
	silentAt := k.NowMs()
	if ip.Leaves {
		pub.Leave(false)
		k.Settle()
		k.Advance(2 * time.Second)
	} else {
		// two liveness sweeps (120 s apart) after the last packet at the latest
		k.Advance(250 * time.Second)
	}
	k.Settle()
	if !pub.Closed && !ip.Leaves {
		k.Violate("C16.idle-not-disconnected", "the RTSP publisher (%s) sent for %d ms, fell silent at %d ms and is still connected %d ms later", map[bool]string{true: "interleaved TCP", false: "UDP"}[ip.Tcp], ip.ActiveMs, silentAt, k.NowMs()-silentAt)
	}
	if ip.Push {
		started := 0
		for _, st := range pushes {
			if st.Started {
				started++
				if !st.Closed {
					k.Violate("C16.push-not-closed", "the RTSP publisher is gone (%s) but the relay-push session to %s is still open", map[bool]string{true: "it left", false: "disconnected by the idle check"}[ip.Leaves], "10.8.8.1:1935")
				}
			}
		}
		if started == 0 {
			k.Violate("C16.push-missing", "an RTSP publisher was accepted and sent for %d ms but no relay-push session reached the configured target", ip.ActiveMs)
		}
		k.Probe("c16_rtsp_push_end_checked")
	}
	for _, c := range subs {
		c.Leave(false)
	}
	k.Settle()
	k.Advance(3 * time.Second)
	res := w.Api("api-stat-idle", "/api/stat/group?stream_name=idle", nil)
	if res.Done && res.ErrorCode() == 0 {
		k.Violate("C16.group-not-removed", "the group of the timed-out stream still exists after every session has gone: %s", res.Body)
	}
	if n := len(k.UDPBoundPorts()); n != 0 {
		k.Violate("C16.fd-leak", "%d UDP sockets of the timed-out RTSP publisher are still bound: %v", n, k.UDPBoundPorts())
	}
	k.Probe("nontrivial")
	k.Probe("c16_rtsp_idle_checked")
}

func finishC16(r *sim.Rng, pl RelayPlan) RelayPlan {
	pl.Epilogue = true
	pl.Dispose = r.Bool(0.12)
	return pl
}

// openSandboxFds lists this process's open descriptors that point into the run's recording sandbox.
func openSandboxFds(prefix string) []string {
	var out []string
	ents, err := os.ReadDir("/proc/self/fd")
	if err != nil {
		return nil
	}
	for _, e := range ents {
		if l, err := os.Readlink("/proc/self/fd/" + e.Name()); err == nil && strings.HasPrefix(l, prefix) {
			out = append(out, l)
		}
	}
	return out
}

func CheckC16(k *sim.Kernel, rr *RelayRun, hls *HlsTracker) {
	if !rr.EpilogueDone {
		return
	}
	// accepted incarnations, per stream, in order
	accepted := map[int][]*PubState{}
	nAccepted := 0
	for _, p := range rr.Pubs {
		if p.Actor != nil && p.Actor.Ready && rr.sessionIdOf(p.Actor.Conn.RemoteAddr().String()) != "" {
			accepted[p.Plan.Stream] = append(accepted[p.Plan.Stream], p)
			nAccepted++
		}
	}
	// 0. every relay-push connection is closed once the publishers are gone (whether it ever got to publish or not)
	if !rr.Plan.Dispose {
		for pi, c := range rr.PushCons {
			if c.Push != nil && !c.Push.Closed {
				k.Violate("C16.push-not-closed", "every publisher has left and the clean-up time has passed, but relay-push connection #%d to %s (publishing started: %v) is still open", pi, c.Push.Conn.RemoteAddr(), c.Push.Started)
			}
			k.Probe("c16_push_closed_checked")
		}
	}
	// 1. the stream hook is told to stop exactly once per input
	hooks := rr.W.Hook.Snapshot()
	if len(hooks) != nAccepted {
		k.Violate("C16.hook", "%d publishers were accepted but the stream hook was started %d times", nAccepted, len(hooks))
	}
	for _, h := range hooks {
		if h.Stops != 1 {
			k.Violate("C16.hook-stop", "stream hook of %s (%s) was told to stop %d times (steps %v)", h.Stream, h.UniqueKey, h.Stops, h.StopSteps)
		}
	}
	if nAccepted > 0 {
		k.Probe("nontrivial")
	}
	// 2. recordings are closed
	if fds := openSandboxFds(k.SandboxDir()); len(fds) > 0 {
		k.Violate("C16.record-open", "recording files still open after every input ended: %v", fds)
	}
	if n := k.FS.OpenHandles(); n != 0 {
		k.Violate("C16.hls-open", "%d HLS files are still open after every input ended", n)
	}
	// 3. recordings parse completely and hold the whole incarnation (incl. flushed audio)
	for s, incs := range accepted {
		if rr.Plan.Conf.RecordTs {
			files := recordFiles(k, "/simrec/ts/", s)
			for fi, fname := range files {
				overwritten := false
				for _, g := range files[fi+1:] {
					if g == fname {
						overwritten = true
					}
				}
				if overwritten || fi >= len(incs) {
					continue
				}
				p := incs[fi]
				data, err := k.SandboxFile(fname)
				if err != nil {
					k.Violate("C16.record-ts", "recording %s cannot be read: %v", fname, err)
				}
				if len(data) == 0 {
					continue
				}
				tc := ParseTs(data)
				if len(tc.Problems) > 0 {
					k.Violate("C16.record-ts", "recording %s: %s", fname, tc.Problems[0])
				}
				clean := allProcessed(p) && !p.Kicked && !p.Idled && !rr.Plan.Dispose
				prob, _, _ := CompareTsToPublished(tc, p.Units, p.Plan.VideoCodec == media.CodecHEVC, p.Plan.AacSr, clean)
				if strings.HasPrefix(prob, "BELOW-FIRST") {
					prob = ""
				}
				if prob != "" {
					if strings.Contains(prob, "TS ends after audio unit") {
						k.Violate("C16.audio-not-flushed", "recording %s: %s", fname, prob)
					}
					k.Violate("C16.record-ts-content", "recording %s: %s", fname, prob)
				}
				k.Probe("c16_ts_record_checked")
			}
		}
		if rr.Plan.Conf.RecordFlv {
			for _, fname := range recordFiles(k, "/simrec/flv/", s) {
				data, err := k.SandboxFile(fname)
				if err != nil {
					continue
				}
				var fp httpc.FlvParser
				fp.Feed(data)
				if fp.Err != nil || fp.Buffered() != 0 {
					k.Violate("C16.record-flv", "recording %s does not parse to its end (err=%v, %d trailing bytes)", fname, fp.Err, fp.Buffered())
				}
			}
		}
	}
	// 4. HLS: the last version of the live playlist written for an incarnation is final
	if rr.Plan.Conf.HlsEnable {
		for dir, vers := range hls.Versions {
			last := vers[len(vers)-1]
			m, err := ParseM3u8(last.Content)
			if err != nil {
				k.Violate("C16.hls-playlist", "%splaylist.m3u8: %v", dir, err)
			}
			if !m.EndList {
				k.Violate("C16.hls-not-finalised", "%splaylist.m3u8 has no EXT-X-ENDLIST although every input has ended", dir)
			}
			k.Probe("c16_hls_final_checked")
		}
		// every segment file that was created is listed by some version of the live playlist (it was closed and listed)
		created := map[string]bool{}
		for _, op := range k.FS.OpsSnapshot() {
			if op.Kind == "create" && strings.HasSuffix(op.Path, ".ts") && op.Err == "" {
				created[op.Path] = true
			}
		}
		for dir, vers := range hls.Versions {
			listed := map[string]bool{}
			for _, v := range vers {
				if m, err := ParseM3u8(v.Content); err == nil {
					for _, sg := range m.Segments {
						listed[dir+sg.URI] = true
					}
				}
			}
			for f := range created {
				if strings.HasPrefix(f, dir) && !listed[f] {
					k.Violate("C16.hls-segment-unlisted", "segment %s was created but never listed in the live playlist", f)
				}
			}
		}
	}
	// 5. a later publisher starts clean
	for ci, c := range rr.Cons {
		if !c.Joined {
			continue
		}
		joinSent := c.JoinSentStep()
		if joinSent < 0 {
			continue
		}
		// incarnations that had ended (and whose teardown had completed) before the consumer even asked
		dead := map[int]bool{}
		for _, p := range accepted[c.Plan.Stream] {
			if p.Actor.ClosedStep >= 0 && p.Actor.ClosedStep < joinSent && p.Actor.Conn.Idle2() && p.Actor.Conn.LastUnlockStep() < joinSent {
				dead[p.Plan.Inc] = true
			}
		}
		for j, it := range consItems(c) {
			inc, _, _, ok := media.ParseID(it.Payload)
			if ok && dead[inc] {
				k.Violate("C16.stale-data", "cons%d(%s) joined after publisher incarnation %d had left, yet item #%d %s comes from it", ci, c.Plan.Proto, inc, j, describe(&it))
			}
		}
		if c.Http != nil && (c.Plan.Proto == "ts" || c.Plan.Proto == "wsts") && len(c.Http.TsBytes) >= 188 && len(dead) > 0 {
			// the same for HTTP-TS players: every frame in the TS stream carries its origin in its bytes
			tc := ParseTs(c.Http.TsBytes)
			for j, v := range tc.Video {
				for _, n := range v.Nals {
					if inc, _, _, ok := media.ParseID(n); ok && dead[inc] {
						k.Violate("C16.stale-data", "cons%d(%s) joined after publisher incarnation %d had left, yet video frame #%d of its TS stream comes from it", ci, c.Plan.Proto, inc, j)
					}
				}
			}
			for j, a := range tc.Audio {
				if inc, _, _, ok := media.ParseID(a.Data); ok && dead[inc] {
					k.Violate("C16.stale-data", "cons%d(%s) joined after publisher incarnation %d had left, yet audio frame #%d of its TS stream comes from it", ci, c.Plan.Proto, inc, j)
				}
			}
			k.Probe("c16_ts_stale_checked")
		}
	}
	// 5a. ... nor its codec information: a consumer that joins between a video incarnation and an audio-only one must not
	// be left waiting for a key frame that will never come
	for ci, c := range rr.Cons {
		if !c.Joined || c.Left || c.Kicked || c.Stalled || (c.Rtmp == nil && (c.Http == nil || (c.Plan.Proto != "flv" && c.Plan.Proto != "wsflv"))) {
			continue
		}
		if c.ClosedByLal() {
			// a player that is fed nothing for two liveness sweeps (the gap between the incarnations can be minutes) is
			// swept: it is gone by the time the audio-only publisher arrives, which is not what this rule is about
			continue
		}
		joinSent, joinDone := c.JoinSentStep(), c.JoinDoneStep()
		if joinSent < 0 || joinDone < 0 {
			continue
		}
		incs := accepted[c.Plan.Stream]
		for bi, b := range incs {
			if bi == 0 || b.Plan.VideoCodec != 0 || len(b.Actor.Sent) == 0 {
				continue
			}
			a := incs[bi-1]
			// a had video and was gone before the consumer asked; b's first message was processed after the join was done
			if a.Plan.VideoCodec == 0 || !(a.Actor.ClosedStep >= 0 && a.Actor.ClosedStep < joinSent && a.Actor.Conn.LastUnlockStep() < joinSent) {
				continue
			}
			if s0 := b.Actor.Sent[0]; s0.ProcessedStep < 0 || s0.ProcessedStep <= joinDone {
				continue
			}
			processed, got := 0, 0
			items := consItems(c)
			for ui := range b.Units {
				if b.Units[ui].Kind != media.KAudio || len(b.Units[ui].Msg.Payload) == 0 || ui >= len(b.Actor.Sent) || b.Actor.Sent[ui].ProcessedStep < 0 {
					continue
				}
				processed++
				for j := range items {
					if items[j].Type == b.Units[ui].Msg.Type && bytes.Equal(items[j].Payload, b.Units[ui].Msg.Payload) {
						got++
						break
					}
				}
			}
			if processed >= 3 && got == 0 {
				k.Violate("C16.stale-codec-info", "cons%d(%s) joined after the video publisher (incarnation %d) had left and before the audio-only publisher (incarnation %d) started, and received none of its %d audio frames: it is still waiting for a video key frame of a stream that has no video", ci, c.Plan.Proto, a.Plan.Inc, b.Plan.Inc, processed)
			}
			if processed >= 3 {
				k.Probe("c16_gap_joiner_judged")
			}
		}
	}
	// 5b. the same for what an RTSP player is told in its DESCRIBE answer: the SDP must not be the predecessor's
	checkStaleSdp(k, rr, accepted, "C16.stale-sdp")
	// 6. everything is gone at the end
	if rr.Plan.Dispose {
		return
	}
	if rr.FinalGroups.Done {
		if data, _ := rr.FinalGroups.JSON["data"].(map[string]interface{}); data != nil {
			if groups, _ := data["groups"].([]interface{}); len(groups) > 0 {
				b, _ := json.Marshal(groups)
				if len(b) > 300 {
					b = b[:300]
				}
				k.Violate("C16.group-not-removed", "every session left more than 3 ticks ago but stat/all_group still lists %d group(s): %s", len(groups), b)
			}
		}
	} else {
		k.Violate("C16.api", "stat/all_group did not answer")
	}
	for i, p := range rr.Pubs {
		if p.Actor != nil && p.Actor.Conn != nil && !p.Actor.Conn.ClosedByLal() {
			k.Violate("C16.conn-leak", "pub%d: lal never closed its end of the connection although the peer left", i)
		}
	}
	for i, c := range rr.Cons {
		var conn *sim.Conn
		if c.Rtmp != nil {
			conn = c.Rtmp.Conn
		} else if c.Http != nil {
			conn = c.Http.Conn
		}
		if conn != nil && !conn.ClosedByLal() {
			k.Violate("C16.conn-leak", "cons%d(%s): lal never closed its end of the connection although the peer left", i, c.Plan.Proto)
		}
	}
	if rr.GoroutineDiff != "" {
		k.Violate("C16.goroutine-leak", "goroutines: %d before the scenario, %d after every session was gone; extra by creation site: %s", rr.GoroutinesBase, rr.GoroutinesEnd, rr.GoroutineDiff)
	}
	// 7. idle inputs are disconnected
	for i, p := range rr.Pubs {
		if p.Idled {
			if !p.IdleClosed {
				k.Violate("C16.idle-not-disconnected", "pub%d stopped sending at %d ms but was never disconnected", i, p.IdleAtMs)
			}
			k.Probe("c16_idle_checked")
		}
	}
}

func init() {
	Register(&Check{
		ID:    "C16",
		Gen:   func(r *sim.Rng, tier string) json.RawMessage { return mustJSON(genC16Plan(r, tier)) },
		Sched: relaySched,
		Run: func(k *sim.Kernel, plan json.RawMessage) {
			var pl RelayPlan
			fromJSON(plan, &pl)
			if pl.RtspIdle != nil {
				runC16RtspIdle(k, pl)
				return
			}
			hls := TrackHls(k)
			rr := ExecRelay(k, pl)
			CheckC16(k, rr, hls)
		},
		Shrink: relayShrink,
		Shape:  relayShape,
		Brief:  relayBrief,
	})
}

var _ = fmt.Sprintf

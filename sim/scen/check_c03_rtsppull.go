package scen

import (
	"encoding/base64"
	"encoding/hex"
	"encoding/json"
	"fmt"
	"strings"
	"time"

	"bytes"

	"simlal/sim"
	"simlal/sim/actors"
	"simlal/sim/media"
)

// C03, "relay pull overtaken by a publisher" over RTSP: a relay pull from an RTSP origin is in flight (the origin has
// not answered DESCRIBE yet) when an RTMP publisher becomes the stream's input. When the origin's answer arrives the
// pull is refused; nothing of the refused input - its stream description included - may reach the stream's outputs.
//
// The scenario is a relay-family run (publishers, consumers of RTMP / FLV / RTSP) with two more operations:
//   rtsp_pull_start    start_relay_pull with an rtsp:// URL of an origin stub that holds its DESCRIBE answers
//   rtsp_pull_release  the stub answers every DESCRIBE it holds with the description of a foreign (HEVC) stream

const rtspOriginAddr = "10.9.9.8:554"

// heldRtspOrigin answers OPTIONS at once, holds DESCRIBE until released, and answers everything else with a plain 200.
type heldRtspOrigin struct {
	conn   *sim.Conn
	buf    []byte
	held   []string // CSeq of DESCRIBE requests not answered yet
	closed bool
}

func (s *heldRtspOrigin) OnData(c *sim.Conn, b []byte) {
	s.buf = append(s.buf, b...)
	for {
		i := strings.Index(string(s.buf), "\r\n\r\n")
		if i < 0 {
			return
		}
		head := string(s.buf[:i])
		s.buf = s.buf[i+4:]
		cseq, transport := "0", ""
		for _, l := range strings.Split(head, "\r\n") {
			ll := strings.ToLower(l)
			if strings.HasPrefix(ll, "cseq:") {
				cseq = strings.TrimSpace(l[5:])
			}
			if strings.HasPrefix(ll, "transport:") {
				transport = strings.TrimSpace(l[10:])
			}
		}
		switch {
		case strings.HasPrefix(head, "OPTIONS"):
			c.Send([]byte("RTSP/1.0 200 OK\r\nCSeq: " + cseq + "\r\nPublic: DESCRIBE, SETUP, TEARDOWN, PLAY, OPTIONS\r\n\r\n"))
		case strings.HasPrefix(head, "DESCRIBE"):
			s.held = append(s.held, cseq)
		case strings.HasPrefix(head, "SETUP"):
			c.Send([]byte("RTSP/1.0 200 OK\r\nCSeq: " + cseq + "\r\nSession: 4711\r\nTransport: " + transport + "\r\n\r\n"))
		default:
			c.Send([]byte("RTSP/1.0 200 OK\r\nCSeq: " + cseq + "\r\nSession: 4711\r\n\r\n"))
		}
	}
}
func (s *heldRtspOrigin) OnClose(c *sim.Conn) { s.closed = true }

func foreignSdp() (string, [][]byte) {
	vps, sps, pps := media.HevcParamSets(7, 13)
	b := base64.StdEncoding.EncodeToString
	sdp := "v=0\r\no=- 0 0 IN IP4 10.9.9.8\r\ns=foreign\r\nc=IN IP4 0.0.0.0\r\nt=0 0\r\na=control:*\r\n" +
		"m=video 0 RTP/AVP 98\r\na=rtpmap:98 H265/90000\r\n" +
		"a=fmtp:98 sprop-vps=" + b(vps) + "; sprop-sps=" + b(sps) + "; sprop-pps=" + b(pps) + "\r\na=control:streamid=0\r\n"
	return sdp, [][]byte{vps, sps, pps}
}

func (s *heldRtspOrigin) release() int {
	n := 0
	sdp, _ := foreignSdp()
	for _, cseq := range s.held {
		if s.closed {
			break
		}
		s.conn.Send([]byte(fmt.Sprintf("RTSP/1.0 200 OK\r\nCSeq: %s\r\nContent-Base: rtsp://%s/live/foreign/\r\nContent-Type: application/sdp\r\nContent-Length: %d\r\n\r\n%s", cseq, rtspOriginAddr, len(sdp), sdp)))
		n++
	}
	s.held = nil
	return n
}

// execRtspPull performs the two extra operations of this scenario (called from RelayRun.exec).
func (rr *RelayRun) execRtspPull(k *sim.Kernel, op RelayOp) {
	switch op.Kind {
	case "rtsp_pull_start":
		name := StreamName(op.Pub)
		body, _ := json.Marshal(map[string]interface{}{"url": "rtsp://" + rtspOriginAddr + "/live/" + name, "stream_name": name,
			"pull_timeout_ms": 10000, "pull_retry_num": []int{0, -1, 2}[op.N%3], "auto_stop_pull_after_no_out_ms": -1, "rtsp_mode": 0})
		rr.rtspPullApis = append(rr.rtspPullApis, rr.W.ApiStart(fmt.Sprintf("api-rtsppull-%d", len(rr.rtspPullApis)), "/api/ctrl/start_relay_pull", body))
	case "rtsp_pull_release":
		for _, o := range rr.rtspOrigins {
			if n := o.release(); n > 0 {
				k.Fault("origin_answers_describe_late")
			}
		}
	case "rtsp_origin_close":
		for _, o := range rr.rtspOrigins {
			if !o.closed {
				o.conn.CloseByPeer()
				k.Fault("origin_closes")
			}
		}
	}
}

func genC03RtspPull(r *sim.Rng, tier string) RelayPlan {
	prof := RelayProfile{Protos: []string{"rtmp", "flv", "rtsp", "rtsp"}, MaxUnits: 40, MaxCons: 4, Republish: 0.4, HeaderChange: 0.1,
		ShapeAudioOnly: 0.1, ShapeVideoOnly: 0.3, LeaveProb: 0.15, SettleProb: [2]float64{0.3, 1.0}, Thorough: tier == "thorough"}
	pl := GenRelayPlan(r, prof)
	pl.Conf.RtspEnable = true
	// the pull starts at a seeded point before some publisher of stream 0 stops; the origin answers at a seeded point
	// while a publisher of stream 0 is live (after its start has settled)
	type span struct{ a, b int }
	var live []span
	start := map[int]int{}
	for i, op := range pl.Ops {
		if op.Kind == "start_pub" && pl.Pubs[op.Pub].Stream == 0 {
			start[op.Pub] = i
		}
		if op.Kind == "stop_pub" && pl.Pubs[op.Pub].Stream == 0 {
			if a, ok := start[op.Pub]; ok && i-a >= 2 {
				live = append(live, span{a + 1, i})
			}
		}
	}
	if len(live) == 0 {
		return pl
	}
	sp := live[r.Intn(len(live))]
	rel := sp.a + 1 + r.Intn(sp.b-sp.a)
	st := r.Intn(rel)
	if r.Bool(0.3) {
		// the other order: the origin answers while the stream has no input yet, the pull attaches, and the publishers
		// that come afterwards are the ones to refuse
		first := len(pl.Ops)
		for _, x := range live {
			if x.a-1 < first {
				first = x.a - 1
			}
		}
		// ... and in half of these plans the origin goes away later (the pull was started without retries): the stream is
		// free again for the publishers that follow
		closeAt := -1
		n := r.Intn(3)
		if r.Bool(0.5) {
			closeAt = first + r.Intn(len(pl.Ops)-first)
			n = 0
		}
		var ops []RelayOp
		for i, op := range pl.Ops {
			if i == first {
				ops = append(ops, RelayOp{Kind: "rtsp_pull_start", Pub: 0, N: n}, RelayOp{Kind: "settle"}, RelayOp{Kind: "rtsp_pull_release"}, RelayOp{Kind: "settle"})
			}
			ops = append(ops, op)
			if i == closeAt {
				ops = append(ops, RelayOp{Kind: "rtsp_origin_close"}, RelayOp{Kind: "settle"})
			}
		}
		pl.Ops = ops
		return pl
	}
	var ops []RelayOp
	for i, op := range pl.Ops {
		if i == st {
			ops = append(ops, RelayOp{Kind: "rtsp_pull_start", Pub: 0, N: r.Intn(3)})
			if r.Bool(0.7) {
				ops = append(ops, RelayOp{Kind: "settle"})
			}
		}
		if i == sp.a && st < sp.a {
			ops = append(ops, RelayOp{Kind: "settle"}) // the publisher is the input before the origin answers
		}
		if i == rel {
			ops = append(ops, RelayOp{Kind: "rtsp_pull_release"})
			if r.Bool(0.5) {
				ops = append(ops, RelayOp{Kind: "settle"})
			}
		}
		ops = append(ops, op)
	}
	pl.Ops = ops
	return pl
}

// checkC03RtspPull judges a run of this scenario.
func checkC03RtspPull(k *sim.Kernel, rr *RelayRun) {
	for _, a := range rr.rtspPullApis {
		if a.C != nil {
			if r := a.Result(); !r.Done {
				k.Violate("C03.api-hangs", "start_relay_pull (rtsp) got no answer")
			}
			a.C.Leave(false)
		}
	}
	attached := false
	for _, e := range rr.W.Notify.Snapshot() {
		if e.Kind == "pull_start" {
			attached = true
		}
	}
	if attached {
		// the origin answered while the stream had no input: the pull is the accepted input (with no media) and the
		// publishers after it are the refused ones (the relay oracles below assume publishers are the inputs). A pull that
		// is still attached at the end of the run was the input all the time since its start notification.
		evs := rr.W.Notify.Snapshot()
		for i, e := range evs {
			if e.Kind != "pull_start" {
				continue
			}
			ended := false
			for _, f := range evs[i+1:] {
				ended = ended || (f.Kind == "pull_stop" && f.SessionId == e.SessionId)
			}
			if ended {
				continue
			}
			for _, f := range evs[i+1:] {
				if f.Kind == "pub_start" && f.Stream == e.Stream {
					k.Violate("C03.two-inputs", "publisher %s (%s) was accepted on stream %s while the relay pull %s (%s) was the stream's accepted input (attached before, still attached at the end of the run)", f.SessionId, f.Protocol, f.Stream, e.SessionId, e.Protocol)
				}
			}
			k.Probe("nontrivial")
		}
		// the stat API lists no pull session whose stop has been notified (the run has settled long ago)
		st := rr.W.Api("api-stat-rtsppull", "/api/stat/group?stream_name="+StreamName(0), nil)
		var g struct {
			Data struct {
				Pull struct {
					SessionId string `json:"session_id"`
				} `json:"pull"`
			} `json:"data"`
		}
		if st.Done && json.Unmarshal(st.Body, &g) == nil && g.Data.Pull.SessionId != "" {
			for _, e := range evs {
				if e.Kind == "pull_stop" && e.SessionId == g.Data.Pull.SessionId {
					k.Violate("C03.stat-detached-session", "the stat API lists relay pull session %s of stream %s although its stop was notified (the origin closed the connection)", e.SessionId, e.Stream)
				}
			}
		}
		k.Probe("c03_rtsppull_attached")
		return
	}
	released := k.Stats.Faults["origin_answers_describe_late"] > 0
	// (1) the accepted publisher's delivery is unaffected
	for ci, c := range rr.Cons {
		if !c.Joined {
			continue
		}
		switch c.Plan.Proto {
		case "rtmp", "flv", "wsflv":
			JudgeConsumer(k, "C03", fmt.Sprintf("cons%d(%s)", ci, c.Plan.Proto), c, rr.Forwardable(c.Plan.Stream), rr.Plan.Conf)
		}
	}
	// (2) no stream description served to a player describes anything but a publisher of its stream
	_, foreign := foreignSdp()
	for ci, c := range rr.Cons {
		if c.Rtsp == nil || c.Rtsp.SdpRecv == "" {
			continue
		}
		for _, t := range actors.ParseSdpTracks(c.Rtsp.SdpRecv) {
			var blob []byte
			kind := media.KVideoSeq
			switch t.Enc {
			case "H264":
				if parts := strings.Split(t.Fmtp["sprop-parameter-sets"], ","); len(parts) == 2 {
					blob, _ = base64.StdEncoding.DecodeString(parts[1])
				}
			case "H265":
				blob, _ = base64.StdEncoding.DecodeString(t.Fmtp["sprop-pps"])
			case "MPEG4-GENERIC":
				kind = media.KAudioSeq
				blob, _ = hex.DecodeString(t.Fmtp["config"])
			}
			if len(blob) == 0 {
				continue
			}
			own := false
			for _, p := range rr.Pubs {
				if p.Plan.Stream != c.Plan.Stream {
					continue
				}
				for i := range p.Units {
					if p.Units[i].Kind == kind && bytes.Contains(p.Units[i].Msg.Payload, blob) {
						own = true
					}
				}
			}
			isForeign := false
			for _, f := range foreign {
				isForeign = isForeign || bytes.Equal(f, blob)
			}
			if !own && isForeign {
				k.Violate("C03.refused-input-leaked", "cons%d(rtsp) was served the stream description of the refused relay pull (%s parameter set %x of the origin's stream) although an RTMP publisher was the stream's accepted input and the pull never attached", ci, t.Enc, blob)
			}
			k.Probe("c03_rtsppull_sdp_checked")
		}
	}
	if released {
		k.Probe("c03_rtsppull_refused_after_describe")
		k.Probe("nontrivial")
	}
	_ = time.Second
}

package scen

import (
	"simlal/sim"
	"simlal/sim/media"
	"strings"
)

// ---- plan ----------------------------------------------------------------------------------------------------------------

// UnitSpec is one unit a publisher will send (explicit in the plan so that minimisation can drop units).
type UnitSpec struct {
	Kind  media.Kind `json:"k"`
	Key   bool       `json:"key,omitempty"`
	Ts    uint32     `json:"ts"`
	Cts   int32      `json:"cts,omitempty"`
	Size  int        `json:"sz"`              // body size of the (first) NAL / audio frame; metadata padding
	Nals  int        `json:"nals,omitempty"`  // number of NAL units in a video frame (default 1)
	Gen   int        `json:"gen,omitempty"`   // header generation for seq headers
	Sdf   bool       `json:"sdf,omitempty"`   // metadata carries @setDataFrame
	Empty bool       `json:"empty,omitempty"` // zero-length message of this kind's type
	Csid  int        `json:"csid,omitempty"`
	// Extra: non-slice NAL units of a video frame, in order: 'a' access unit delimiter, 'p' in-band parameter sets
	// (those of the sequence header in force), 's' SEI in front of the slices; 'x' a trailing NAL (HEVC suffix SEI).
	Extra string `json:"extra,omitempty"`
	// Tiny: the message is only the first 1..5 bytes of a video message (inter frame, AVC end-of-sequence): shorter than
	// any NAL list, yet not empty
	Tiny int `json:"tiny,omitempty"`
}

type PubPlan struct {
	Stream     int        `json:"stream"`
	Inc        int        `json:"inc"`
	VideoCodec int        `json:"vcodec"`
	AudioCodec int        `json:"acodec"`
	AacSr      int        `json:"aac_sr"`
	ChunkSize  int        `json:"chunk_size"` // chunk size the publisher announces (0: default 128)
	Units      []UnitSpec `json:"units"`
	Query      string     `json:"query,omitempty"`
}

type ConsPlan struct {
	Stream int    `json:"stream"`
	Proto  string `json:"proto"` // rtmp | flv | wsflv | ts | wsts
	Query  string `json:"query,omitempty"`
	// Keepalive: an RTSP player sends OPTIONS now and then while it plays (answers land between interleaved frames)
	Keepalive bool `json:"keepalive,omitempty"`
}

type RelayOp struct {
	Kind  string `json:"op"` // start_pub | send | stop_pub | join | leave | settle | advance | kick_pub | kick_cons
	Pub   int    `json:"pub,omitempty"`
	Cons  int    `json:"cons,omitempty"`
	N     int    `json:"n,omitempty"`
	Ms    int    `json:"ms,omitempty"`
	Reset bool   `json:"reset,omitempty"`
}

type RelayPlan struct {
	Conf  LalConf         `json:"conf"`
	Sched sim.SchedParams `json:"sched"`
	Pubs  []PubPlan       `json:"pubs"`
	Cons  []ConsPlan      `json:"cons"`
	Ops   []RelayOp       `json:"ops"`
	// Epilogue: after the ops, end every publisher and consumer, let the server clean up and measure
	// what is left (C16).
	Epilogue bool `json:"epilogue,omitempty"`
	Dispose  bool `json:"dispose,omitempty"` // end with ILalServer.Dispose instead of letting sessions leave
	// PushHoldMs > 0: relay-push targets answer nothing for that long after accepting a connection (a slow target: the
	// connect stays in progress while publishers come and go)
	PushHoldMs int `json:"push_hold_ms,omitempty"`
	// RtspIdle: instead of the relay ops, run the "RTSP publisher falls silent" scenario (C16): an RTSP publisher over
	// TCP or UDP keeps sending across the first liveness sweep, then stops sending with its connection open.
	RtspIdle *RtspIdlePlan `json:"rtsp_idle,omitempty"`
	// PullIngest: instead of the relay ops, Pubs[0] is served by an origin that lal pulls from (C06).
	PullIngest *PullIngestPlan `json:"pull_ingest,omitempty"`
}

type RtspIdlePlan struct {
	Tcp       bool `json:"tcp"`
	ActiveMs  int  `json:"active_ms"` // how long it keeps sending (one frame per second of simulated time)
	WithAudio bool `json:"with_audio"`
	Cons      int  `json:"cons"`             // RTMP players attached meanwhile
	Push      bool `json:"push,omitempty"`   // a relay-push target is configured: its session must end with the publisher
	Leaves    bool `json:"leaves,omitempty"` // the publisher leaves on its own after the active period instead of falling silent
}

// ---- generation ----------------------------------------------------------------------------------------------------------

// RelayProfile steers the generator towards the dimensions a property cares about.
type RelayProfile struct {
	Protos         []string // consumer protocols to draw from
	MaxUnits       int
	MaxCons        int
	Republish      float64 // probability of a second incarnation on a stream
	HeaderChange   float64 // probability per GOP of a mid-stream sequence header change
	TsWeird        float64 // probability of odd timestamps (>= 0xFFFFFF, non-monotonic, wrap)
	TinyVideo      float64 // probability that a non-key video message is only 1..5 bytes long
	NalKinds       float64 // probability that a video frame also carries AUD / SEI / in-band parameter sets
	BigUnits       float64 // probability of a large unit
	ZeroLen        float64
	Outputs        string // "relay" (rtmp/flv only) | "all"
	Thorough       bool
	ShapeAudioOnly float64
	ShapeVideoOnly float64
	LeaveProb      float64
	SettleProb     [2]float64 // range of per-run settle probability
}

func boundarySize(r *sim.Rng, big float64) int {
	switch r.Intn(10) {
	case 0:
		return 1 + r.Intn(8)
	case 1, 2:
		// around the publisher/lal chunk sizes and their multiples (payload = 5+4+1+size for video)
		base := []int{128, 256, 4096, 8192, 12288}[r.Intn(5)]
		return maxInt(1, base-12+r.Intn(24))
	case 3:
		if r.Bool(big) {
			return 20000 + r.Intn(280000)
		}
		return 1000 + r.Intn(8000)
	case 4:
		// websocket length-form boundaries: flv tag = 11 + payload + 4
		base := []int{125, 126, 127, 65535, 65536}[r.Intn(5)]
		return maxInt(1, base-30+r.Intn(40))
	default:
		return 10 + r.Intn(1200)
	}
}

func maxInt(a, b int) int {
	if a > b {
		return a
	}
	return b
}

// genUnits produces the unit sequence of one incarnation.
func genUnits(r *sim.Rng, p *PubPlan, prof RelayProfile, n int) {
	hasV := p.VideoCodec != 0
	hasA := p.AudioCodec != 0
	var ts uint32
	switch {
	case r.Bool(prof.TsWeird):
		ts = []uint32{0xFFFFFF - 200, 0xFFFFFF - 3, 0xFFFFFE, 0xFFFFFFFF - 2000, 0x7FFFFFFF - 100, 0x1000000 - 41}[r.Intn(6)]
	case r.Bool(0.5):
		ts = 0
	default:
		ts = uint32(r.Intn(100000))
	}
	gen := 0
	add := func(u UnitSpec) { p.Units = append(p.Units, u) }
	if r.Bool(0.8) {
		add(UnitSpec{Kind: media.KMeta, Ts: 0, Size: r.Intn(300), Sdf: r.Bool(0.6)})
	}
	if hasV {
		add(UnitSpec{Kind: media.KVideoSeq, Ts: 0, Gen: gen})
	}
	if hasA && p.AudioCodec == media.SoundAAC {
		add(UnitSpec{Kind: media.KAudioSeq, Ts: 0})
	}
	gopLen := 1 + r.Intn(12)
	inGop := 0
	firstKeyDelay := 0
	if hasV && r.Bool(0.15) {
		firstKeyDelay = 1 + r.Intn(4) // stream that starts with non-key frames
	}
	for len(p.Units) < n {
		// timestamps
		step := uint32(20 + r.Intn(30))
		if r.Bool(prof.TsWeird * 0.3) {
			// non-monotonic or jump
			switch r.Intn(4) {
			case 3:
				// hours of stream time later (what a long-running stream reaches): crosses 2^30 ticks of 90 kHz
				ts += uint32(11800000 + r.Intn(300000))
			case 0:
				if ts > 500 {
					ts -= uint32(r.Intn(400))
				}
			case 1:
				ts += uint32(1000 + r.Intn(100000))
			case 2:
				ts += 0 // equal timestamps
				step = 0
			}
		}
		ts += step
		if hasV && (!hasA || r.Bool(0.5)) {
			key := inGop == 0 && firstKeyDelay == 0
			if firstKeyDelay > 0 {
				firstKeyDelay--
				key = false
			}
			if key && gen >= 0 && r.Bool(prof.HeaderChange) && len(p.Units) > 4 {
				gen++
				add(UnitSpec{Kind: media.KVideoSeq, Ts: ts, Gen: gen})
			}
			u := UnitSpec{Kind: media.KVideo, Key: key, Ts: ts, Size: boundarySize(r, prof.BigUnits), Nals: 1}
			if r.Bool(0.2) {
				u.Nals = 2 + r.Intn(3)
			}
			if r.Bool(0.2) {
				u.Cts = int32(r.Intn(200))
			}
			if prof.TinyVideo > 0 && !key && r.Bool(prof.TinyVideo) {
				u.Tiny, u.Nals, u.Cts = 1+r.Intn(5), 0, 0
			}
			if prof.NalKinds > 0 && u.Tiny == 0 && r.Bool(prof.NalKinds) {
				u.Extra = []string{"a", "s", "as", "p", "aps", "ps", "x", "sx", "apsx"}[r.Intn(9)]
				if !key {
					u.Extra = strings.ReplaceAll(u.Extra, "p", "")
				}
			}
			add(u)
			inGop++
			if inGop >= gopLen {
				inGop = 0
				if r.Bool(0.3) {
					gopLen = 1 + r.Intn(12)
				}
			}
		} else if hasA {
			add(UnitSpec{Kind: media.KAudio, Ts: ts, Size: minIntS(boundarySize(r, 0), 6000)})
		}
		if r.Bool(prof.ZeroLen) {
			k := media.KAudio
			if hasV && r.Bool(0.5) {
				k = media.KVideo
			}
			add(UnitSpec{Kind: k, Ts: ts, Empty: true})
		}
		if r.Bool(0.02) {
			add(UnitSpec{Kind: media.KMeta, Ts: ts, Size: r.Intn(100), Sdf: r.Bool(0.5)})
		}
	}
}

func minIntS(a, b int) int {
	if a < b {
		return a
	}
	return b
}

// GenSched draws scheduling parameters.
func GenSched(r *sim.Rng, thorough bool) sim.SchedParams {
	p := sim.SchedParams{}
	switch r.Intn(4) {
	case 0: // strict run-to-completion, canonical order
	case 1:
		p.Chaos = 0.05 + 0.3*r.Float()
	case 2:
		p.Preempt = 1 + r.Intn(4)
	case 3:
		p.Chaos = 0.1 * r.Float()
		p.Preempt = r.Intn(4)
	}
	p.SegMode = []int{0, 0, 1, 1, 1, 2}[r.Intn(6)]
	if p.SegMode == 2 && !thorough && r.Bool(0.7) {
		p.SegMode = 1
	}
	p.PermuteMap = r.Bool(0.6)
	if r.Bool(0.35) {
		p.YieldUnlock = []float64{0.05, 0.15, 0.4}[r.Intn(3)]
	}
	if r.Bool(0.3) {
		p.YieldWrite = []float64{0.05, 0.2, 0.5}[r.Intn(3)]
	}
	p.MaxSteps = 60000
	p.MaxSimSec = 3600
	return p
}

// GenRelayConf draws the lal configuration for the relay family.
func GenRelayConf(r *sim.Rng, prof RelayProfile) LalConf {
	c := LalConf{ApiEnable: true, FlvEnable: true}
	pickGop := func() (int, int) {
		g := []int{0, 0, 1, 1, 2, 3}[r.Intn(6)]
		cap := []int{0, 0, 0, 1, 2, 3, 5, 50}[r.Intn(8)]
		return g, cap
	}
	c.RtmpGop, c.RtmpGopCap = pickGop()
	c.FlvGop, c.FlvGopCap = pickGop()
	c.TsGop, c.TsGopCap = pickGop()
	c.MergeWrite = []int{0, 0, 0, 1, 100, 1000, 5000, 20000, 200000}[r.Intn(9)]
	return c
}

// GenRelayPlan generates a relay-family plan: 1..2 streams, publishers (possibly re-published),
// consumers of the profile's protocols joining and leaving at seeded instants.
func GenRelayPlan(r *sim.Rng, prof RelayProfile) RelayPlan {
	var pl RelayPlan
	pl.Conf = GenRelayConf(r.Fork("conf"), prof)
	pl.Sched = GenSched(r.Fork("sched"), prof.Thorough)
	nStreams := 1
	if r.Bool(0.25) {
		nStreams = 2
	}
	ur := r.Fork("units")
	type tok struct {
		op    RelayOp
		actor int // ordering key: tokens of one actor keep their order
	}
	var lanes [][]RelayOp
	total := prof.MaxUnits
	for s := 0; s < nStreams; s++ {
		nInc := 1
		if r.Bool(prof.Republish) {
			nInc = 2 + r.Intn(2)
		}
		var lane []RelayOp
		for i := 0; i < nInc; i++ {
			p := PubPlan{Stream: s, Inc: len(pl.Pubs)}
			shape := r.Float()
			switch {
			case shape < prof.ShapeAudioOnly:
				p.AudioCodec = media.SoundAAC
			case shape < prof.ShapeAudioOnly+prof.ShapeVideoOnly:
				p.VideoCodec = media.CodecAVC
			default:
				p.VideoCodec = media.CodecAVC
				p.AudioCodec = media.SoundAAC
			}
			if p.AudioCodec != 0 && r.Bool(0.15) {
				p.AudioCodec = []int{media.SoundG711A, media.SoundG711U, media.SoundOpus}[r.Intn(3)]
			}
			p.AacSr = []int{4, 4, 3, 11, 0, 8}[r.Intn(6)]
			p.ChunkSize = []int{0, 0, 4096, 1, 97, 60000, 128}[r.Intn(7)]
			n := 8 + ur.Intn(maxInt(1, total/(nStreams*nInc)))
			genUnits(ur, &p, prof, n)
			pi := len(pl.Pubs)
			pl.Pubs = append(pl.Pubs, p)
			lane = append(lane, RelayOp{Kind: "start_pub", Pub: pi})
			left := len(p.Units)
			for left > 0 {
				k := 1 + r.Intn(6)
				if k > left {
					k = left
				}
				lane = append(lane, RelayOp{Kind: "send", Pub: pi, N: k})
				left -= k
			}
			lane = append(lane, RelayOp{Kind: "stop_pub", Pub: pi, Reset: r.Bool(0.3)})
			// a later incarnation only starts after the previous one is fully gone
			lane = append(lane, RelayOp{Kind: "settle"})
			if r.Bool(0.5) {
				lane = append(lane, RelayOp{Kind: "advance", Ms: 100 + r.Intn(3000)})
			}
		}
		lanes = append(lanes, lane)
	}
	nCons := 1 + r.Intn(prof.MaxCons)
	for c := 0; c < nCons; c++ {
		cp := ConsPlan{Stream: r.Intn(nStreams), Proto: prof.Protos[r.Intn(len(prof.Protos))]}
		if cp.Proto == "rtsp" {
			cp.Keepalive = r.Bool(0.4)
		}
		pl.Cons = append(pl.Cons, cp)
		lane := []RelayOp{{Kind: "join", Cons: c}}
		if r.Bool(prof.LeaveProb) {
			lane = append(lane, RelayOp{Kind: "leave", Cons: c, Reset: r.Bool(0.3)})
		}
		lanes = append(lanes, lane)
	}
	// random merge of the lanes; consumer lanes are spread over the publisher lanes' length
	settleP := prof.SettleProb[0] + (prof.SettleProb[1]-prof.SettleProb[0])*r.Float()
	pos := make([]int, len(lanes))
	remaining := 0
	for _, l := range lanes {
		remaining += len(l)
	}
	pubLen := 0
	for s := 0; s < nStreams; s++ {
		pubLen += len(lanes[s])
	}
	for remaining > 0 {
		// weight lanes by remaining length; consumer lanes get a weight that spreads them out
		var cand []int
		var w []int
		for i, l := range lanes {
			if pos[i] < len(l) {
				cand = append(cand, i)
				if i < nStreams {
					w = append(w, (len(l)-pos[i])*4)
				} else {
					w = append(w, 1+pubLen/(8*(1+len(lanes)-nStreams)))
				}
			}
		}
		tot := 0
		for _, x := range w {
			tot += x
		}
		x := r.Intn(tot)
		ci := 0
		for i := range w {
			if x < w[i] {
				ci = i
				break
			}
			x -= w[i]
		}
		li := cand[ci]
		op := lanes[li][pos[li]]
		pos[li]++
		remaining--
		pl.Ops = append(pl.Ops, op)
		if op.Kind != "settle" && op.Kind != "advance" && r.Bool(settleP) {
			pl.Ops = append(pl.Ops, RelayOp{Kind: "settle"})
		}
		if r.Bool(0.03) {
			pl.Ops = append(pl.Ops, RelayOp{Kind: "advance", Ms: 10 + r.Intn(2500)})
		}
	}
	return pl
}

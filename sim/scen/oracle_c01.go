package scen

import (
	"bytes"
	"fmt"
	"sort"
	"strings"

	"simlal/sim"
	"simlal/sim/actors"
	"simlal/sim/media"
	"simlal/sim/rtmpc"
)

// RItem is one media/metadata item a consumer received, protocol-neutral.
type RItem struct {
	Type    uint8
	Ts      uint32
	Payload []byte
	Step    int
	Ms      int64
}

// FUnit is one forwardable published unit of a stream (zero-length messages excluded), with the
// bookkeeping of when lal got it.
type FUnit struct {
	Pub  int
	U    *media.Unit
	Sent *actors.SentUnit // nil if never handed to the connection
	Want []byte           // payload a player must see (metadata without @setDataFrame)
	// Opt: lal got the bytes but the connection ended before the harness could confirm the unit was
	// processed (in flight at a reset / close): a consumer may or may not have received it.
	Opt bool
	// HasVideo: the incarnation this unit belongs to publishes video.
	HasVideo bool
}

var sdfPrefix = append([]byte{2, 0, 13}, []byte("@setDataFrame")...)

func stripSdf(p []byte) []byte {
	if bytes.HasPrefix(p, sdfPrefix) {
		return p[len(sdfPrefix):]
	}
	return p
}

// Forwardable lists, in publish order over the stream's incarnations, every unit that was handed to
// lal and has a non-empty payload.
func (rr *RelayRun) Forwardable(stream int) []FUnit {
	var out []FUnit
	for pi, p := range rr.Pubs {
		if p.Plan.Stream != stream || p.Actor == nil {
			continue
		}
		for i := range p.Units {
			if i >= len(p.Actor.Sent) {
				break
			}
			u := &p.Units[i]
			if len(u.Msg.Payload) == 0 {
				continue
			}
			want := u.Msg.Payload
			if u.Kind == media.KMeta {
				want = stripSdf(want)
			}
			sent := p.Actor.Sent[i]
			if sent.DeliveredStep < 0 {
				continue // never reached lal
			}
			out = append(out, FUnit{Pub: pi, U: u, Sent: sent, Want: want, Opt: sent.ProcessedStep < 0, HasVideo: p.Plan.VideoCodec != 0})
		}
	}
	return out
}

func consItems(c *ConsState) []RItem {
	var out []RItem
	if c.Push != nil {
		for _, m := range c.Push.Recv {
			pl := m.Payload
			if m.Type == rtmpc.TypeDataAmf0 {
				pl = stripSdf(pl) // that the prefix is present is checked by the caller
			}
			out = append(out, RItem{Type: m.Type, Ts: m.Ts, Payload: pl, Step: m.Step, Ms: m.Ms})
		}
	}
	if c.Rtmp != nil {
		for _, m := range c.Rtmp.Recv {
			out = append(out, RItem{Type: m.Type, Ts: m.Ts, Payload: m.Payload, Step: m.Step, Ms: m.Ms})
		}
	}
	if c.Http != nil {
		for _, t := range c.Http.Tags {
			out = append(out, RItem{Type: t.Type, Ts: t.Ts, Payload: t.Data, Step: t.Step, Ms: t.Ms})
		}
	}
	return out
}

func (f *FUnit) equals(it *RItem) bool {
	return f.U.Msg.Type == it.Type && f.U.Msg.Ts == it.Ts && bytes.Equal(f.Want, it.Payload)
}

func isFrame(k media.Kind) bool { return k == media.KVideo || k == media.KAudio }

func describe(it *RItem) string {
	inc, tr, idx, ok := media.ParseID(it.Payload)
	id := "no-id"
	if ok {
		id = fmt.Sprintf("inc=%d track=%d idx=%d", inc, tr, idx)
	}
	return fmt.Sprintf("{type=%d ts=%d len=%d %s}", it.Type, it.Ts, len(it.Payload), id)
}

// Alignment is the decomposition of what a consumer received into prologue and live run.
type Alignment struct {
	R        []RItem
	F        []FUnit
	LiveFrom int // index in R where the live run starts
	S, E     int // live run covers F[S:E]
	HasLive  bool
}

// Align decomposes R into Prologue ++ Live where Live is the longest suffix of R that equals a
// contiguous slice of F (ties: the later slice). It reports a problem if an item equals no published unit.
func Align(R []RItem, F []FUnit) (al Alignment, problem string) {
	al.R, al.F = R, F
	al.LiveFrom = len(R)
	if len(R) == 0 {
		return
	}
	last := &R[len(R)-1]
	bestLen := 0
	for e := len(F); e >= 1; e-- {
		if !F[e-1].equals(last) {
			continue
		}
		j, p := len(R)-1, e-1
		for j >= 0 && p >= 0 {
			if F[p].equals(&R[j]) {
				j--
				p--
			} else if F[p].Opt {
				p--
			} else {
				break
			}
		}
		n := len(R) - 1 - j
		if n > bestLen {
			bestLen = n
			al.LiveFrom = j + 1
			al.S = p + 1
			al.E = e
			al.HasLive = true
		}
	}
	if !al.HasLive {
		return al, fmt.Sprintf("received item #%d %s equals no published unit (type, timestamp and payload compared)", len(R)-1, describe(last))
	}
	return
}

// CheckC01 evaluates the relay-integrity property for every consumer of the run.
func CheckC01(k *sim.Kernel, rr *RelayRun) {
	for ci, c := range rr.Cons {
		if !c.Joined {
			continue
		}
		switch c.Plan.Proto {
		case "rtmp", "flv", "wsflv":
		default:
			continue
		}
		name := fmt.Sprintf("cons%d(%s)", ci, c.Plan.Proto)
		JudgeConsumer(k, "C01", name, c, rr.Forwardable(c.Plan.Stream), rr.Plan.Conf)
	}
	// relay-push targets: what lal publishes to a target is the publisher's stream, metadata with @setDataFrame ensured
	// attach instants of the push sessions: the n-th session whose publish was accepted by its target is attached by
	// the first AddRtmpPushSession after that answer that is not taken yet
	{
		grants := k.GrantSteps("AddRtmpPushSession")
		used := make([]bool, len(grants))
		order := append([]*ConsState(nil), rr.PushCons...)
		sort.SliceStable(order, func(i, j int) bool { return order[i].Push.StartedStep < order[j].Push.StartedStep })
		for _, c := range order {
			if !c.Push.Started {
				continue
			}
			for gi, g := range grants {
				if !used[gi] && g > c.Push.StartedStep {
					used[gi], c.PushAttachStep = true, g
					break
				}
			}
		}
	}
	for pi, c := range rr.PushCons {
		st := c.Push
		name := fmt.Sprintf("push%d(%s)", pi, st.Stream)
		if st.ParseErr != nil {
			k.Violate("C01.framing", "%s: the chunk stream lal pushes does not parse: %v", name, st.ParseErr)
		}
		stream := -1
		for i := 0; i < 8; i++ {
			if st.Stream == StreamName(i) || strings.HasPrefix(st.Stream, StreamName(i)+"?") {
				stream = i
			}
		}
		if stream < 0 || !st.Started {
			continue
		}
		for j, m := range st.Recv {
			if m.Type == rtmpc.TypeDataAmf0 && !bytes.HasPrefix(m.Payload, sdfPrefix) {
				k.Violate("C01.push-metadata", "%s: metadata message #%d pushed to the target does not start with @setDataFrame: %x...", name, j, head(m.Payload, 24))
			}
		}
		c.Plan.Stream = stream
		// a push session serves one incarnation of the stream (usually the publisher that was the input when it was
		// started; a session that attached only after that publisher had left serves the next one): take the
		// incarnation of the first item it received
		F := rr.Forwardable(stream)
		inc := -1
		R := consItems(c)
	findInc:
		for j := range R {
			if _, _, _, ok := media.ParseID(R[j].Payload); !ok {
				continue // sequence headers look the same in every incarnation
			}
			for p := range F {
				if F[p].equals(&R[j]) {
					inc = F[p].Pub
					break findInc
				}
			}
			k.Violate("C01.content", "%s: received item #%d %s equals no published unit", name, j, describe(&R[j]))
		}
		if inc < 0 {
			continue // nothing attributable received (headers only): nothing to judge
		}
		var Fi []FUnit
		for _, f := range F {
			if f.Pub == inc {
				Fi = append(Fi, f)
			}
		}
		JudgeConsumer(k, "C01", name, c, Fi, rr.Plan.Conf)
		if len(st.Recv) > 0 {
			k.Probe("c01_push_targets_judged")
		}
	}
}

// JudgeConsumer applies the relay-integrity oracle to one RTMP / FLV consumer against the forwardable
// units F of its stream (rule ids are prefixed with prop).
func JudgeConsumer(k *sim.Kernel, prop string, name string, c *ConsState, F []FUnit, conf LalConf) {
	{
		if c.Rtmp != nil && c.Rtmp.ParseErr != nil {
			k.Violate(prop+".framing", "%s: RTMP chunk stream from lal does not parse: %v", name, c.Rtmp.ParseErr)
		}
		if c.Http != nil {
			if c.Http.Flv.Err != nil {
				k.Violate(prop+".framing", "%s: FLV stream from lal does not parse: %v", name, c.Http.Flv.Err)
			}
			if c.Http.Ws.Err != nil {
				k.Violate(prop+".framing", "%s: WebSocket stream from lal does not parse: %v", name, c.Http.Ws.Err)
			}
		}
		R := consItems(c)
		for j := range R {
			if len(R[j].Payload) == 0 {
				k.Violate(prop+".zero-length", "%s: received a zero-length message #%d type=%d", name, j, R[j].Type)
			}
		}
		al, problem := Align(R, F)
		if k.Tracing() {
			k.Note("== %s joinDone=%d left=%v closed=%v liveFrom=%d S=%d E=%d hasLive=%v", name, c.JoinDoneStep(), c.Left, c.ClosedByLal(), al.LiveFrom, al.S, al.E, al.HasLive)
			for p := range F {
				k.Note("  F[%d] pub=%d %s key=%v ts=%d len=%d delivered=%d processed=%d", p, F[p].Pub, F[p].U.Kind, F[p].U.Key, F[p].U.Ts, len(F[p].Want), F[p].Sent.DeliveredStep, F[p].Sent.ProcessedStep)
			}
			for j := range R {
				k.Note("  R[%d] %s step=%d", j, describe(&R[j]), R[j].Step)
			}
		}
		if problem != "" {
			k.Violate(prop+".content", "%s: %s", name, problem)
		}
		joinDone := c.JoinDoneStep()
		gop := conf.RtmpGop
		if c.Plan.Proto != "rtmp" && c.Plan.Proto != "push" {
			gop = conf.FlvGop
		}
		// prologue: headers and metadata; frames only from the GOP cache, i.e. handed to lal before the join completed
		for j := 0; j < al.LiveFrom; j++ {
			it := &R[j]
			var match *FUnit
			for p := range F {
				if F[p].equals(it) {
					if match == nil || (F[p].Sent.DeliveredStep >= 0 && F[p].Sent.DeliveredStep <= joinDone) {
						match = &F[p]
					}
				}
			}
			if match == nil {
				k.Violate(prop+".content", "%s: prologue item #%d %s equals no published unit", name, j, describe(it))
			}
			if isFrame(match.U.Kind) {
				if gop == 0 {
					k.Violate(prop+".skip", "%s: frame %s is followed by a gap in the published order (GOP cache is off, so it cannot be replay)", name, describe(it))
				}
				if joinDone >= 0 && match.Sent.DeliveredStep > joinDone {
					k.Violate(prop+".skip", "%s: frame %s reached lal after the consumer had joined, yet later published frames are missing after it", name, describe(it))
				}
			}
		}
		left := c.Left || c.Kicked
		if c.ClosedByLal() && !left {
			k.Violate(prop+".disconnect", "%s: lal closed a healthy consumer that had not left", name)
		}
		if left {
			return
		}
		// coverage: from the first unit that must be delivered to the end (minus merge-write slack)
		end := len(F)
		for end > 0 && F[end-1].Opt {
			end--
		}
		firstAfter := -1 // first unit that certainly reached lal after the consumer had joined
		if joinDone >= 0 {
			for p := 0; p < end; p++ {
				if !F[p].Opt && F[p].Sent.DeliveredStep > joinDone {
					firstAfter = p
					break
				}
			}
		}
		mustFrom := -1
		if firstAfter >= 0 {
			replayed := false // the consumer was given cached frames, so its key-frame gate was open from the start
			for j := range R {
				for p := 0; p < firstAfter; p++ {
					if isFrame(F[p].U.Kind) && F[p].equals(&R[j]) {
						replayed = true
					}
				}
			}
			switch {
			case replayed, !F[firstAfter].HasVideo:
				mustFrom = firstAfter
			default:
				for p := firstAfter; p < end; p++ {
					if F[p].Opt {
						continue
					}
					if (F[p].U.Kind == media.KVideo && F[p].U.Key) || !F[p].HasVideo {
						mustFrom = p
						break
					}
				}
			}
			if mustFrom < 0 && al.HasLive && al.E > firstAfter {
				// it did start receiving units published after the join: from then on nothing may be missing
				for p := maxInt(al.S, firstAfter); p < al.E; p++ {
					if isFrame(F[p].U.Kind) {
						mustFrom = p
						break
					}
				}
			}
		}
		tailAllow := 0
		if c.Plan.Proto == "rtmp" || c.Plan.Proto == "push" {
			tailAllow = conf.MergeWrite
		}
		if mustFrom >= 0 && mustFrom < end {
			missingFrom := mustFrom
			if al.HasLive && al.E > mustFrom {
				if al.S > mustFrom {
					k.Violate(prop+".skip", "%s: first delivered live unit is #%d of the stream but unit #%d (%s, ts=%d) was published after the consumer had joined and was due",
						name, al.S, mustFrom, F[mustFrom].U.Kind, F[mustFrom].U.Ts)
				}
				missingFrom = al.E
			}
			missing := 0
			for p := missingFrom; p < end; p++ {
				if !F[p].Opt {
					missing += len(F[p].Want)
				}
			}
			if missing > 0 && (tailAllow == 0 || missing >= tailAllow) {
				k.Violate(prop+".tail", "%s: units #%d..#%d (%d payload bytes) were published and processed but never delivered (merge_write_size=%d)",
					name, missingFrom, end-1, missing, tailAllow)
			}
			if missing > 0 {
				k.Probe("c01_merge_tail_pending")
			}
		}
		if al.HasLive && liveHasFrame(&al) {
			k.Probe("nontrivial")
		}
		if al.HasLive {
			k.Probe("c01_live_runs")
			if al.LiveFrom > 0 {
				k.Probe("c01_with_prologue")
			}
		}
	}
}

var _ = rtmpc.TypeAudio

// liveHasFrame reports whether the live run contains an audio or video frame (so the consumer's
// key-frame gate is known to be open).
func liveHasFrame(al *Alignment) bool {
	for p := al.S; p < al.E; p++ {
		if isFrame(al.F[p].U.Kind) {
			return true
		}
	}
	return false
}

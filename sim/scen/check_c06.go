package scen

import (
	"encoding/json"
	"fmt"
	"strings"

	"simlal/sim"
	"simlal/sim/media"
)

func relayProfileC06(tier string) RelayProfile {
	p := RelayProfile{
		Protos:         []string{"ts", "ts", "wsts", "flv", "rtsp", "rtspudp"},
		MaxUnits:       90,
		MaxCons:        4,
		Republish:      0,
		HeaderChange:   0.1,
		TsWeird:        0.15,
		NalKinds:       0.3,
		BigUnits:       0.25,
		ZeroLen:        0.0,
		ShapeAudioOnly: 0.1,
		ShapeVideoOnly: 0.15,
		LeaveProb:      0.2,
		SettleProb:     [2]float64{0.3, 1.0},
	}
	if tier == "thorough" {
		p.MaxUnits = 300
		p.MaxCons = 6
		p.Thorough = true
	}
	return p
}

// hlsSegments returns, for the HLS output of a stream, the playlist (record playlist when cleanup is not
// immediate, else live) and the concatenated segment bytes in playlist order.
func hlsContent(k *sim.Kernel, stream string, useRecord bool) (pl *M3u8, data []byte, problem string) {
	dir := "/simhls/" + stream + "/"
	name := "playlist.m3u8"
	if useRecord {
		name = "record.m3u8"
	}
	b, ok := k.FS.File(dir + name)
	if !ok {
		return nil, nil, ""
	}
	m, err := ParseM3u8(b)
	if err != nil {
		return nil, nil, fmt.Sprintf("%s does not parse: %v", name, err)
	}
	for _, s := range m.Segments {
		if strings.Contains(s.URI, "/") {
			return m, nil, fmt.Sprintf("%s lists %q (not a plain file name)", name, s.URI)
		}
		seg, ok := k.FS.File(dir + s.URI)
		if !ok {
			return m, nil, fmt.Sprintf("%s lists %s which does not exist", name, s.URI)
		}
		data = append(data, seg...)
	}
	return m, data, ""
}

// CheckC06 compares what TS / HLS consumers can demultiplex with the published frames.
func CheckC06(k *sim.Kernel, rr *RelayRun) {
	for ci, c := range rr.Cons {
		if c.Http == nil || !c.Joined || (c.Plan.Proto != "ts" && c.Plan.Proto != "wsts") {
			continue
		}
		name := fmt.Sprintf("cons%d(%s)", ci, c.Plan.Proto)
		var pub *PubState
		for _, p := range rr.Pubs {
			if p.Plan.Stream == c.Plan.Stream && p.Actor != nil {
				pub = p
			}
		}
		if pub == nil || len(c.Http.TsBytes) == 0 {
			continue
		}
		tc := ParseTs(c.Http.TsBytes)
		closedEarly := c.Left || c.Kicked
		if len(tc.Problems) > 0 && !(closedEarly && strings.Contains(tc.Problems[0], "trailing bytes")) {
			k.Violate("C06.ts-structure", "%s: %s", name, tc.Problems[0])
		}
		if tc.D.DataBeforePsi >= 0 {
			k.Violate("C06.ts-structure", "%s: elementary stream packet %d precedes PAT/PMT", name, tc.D.DataBeforePsi)
		}
		complete := !closedEarly && pub.Stopped && allProcessed(pub) && !pub.Actor.Closed
		prob, nv, na := CompareTsToPublished(tc, pub.Units, pub.Plan.VideoCodec == media.CodecHEVC, pub.Plan.AacSr, complete)
		if strings.HasPrefix(prob, "BELOW-FIRST") {
			k.Violate("C06.ts-timestamp-below-first", "%s: %s", name, prob)
		}
		if prob != "" {
			k.Violate("C06.ts-content", "%s: %s", name, prob)
		}
		if len(tc.D.Notes) > 0 {
			k.Probe("c06_af_stuffing_not_ff")
		}
		if len(tc.D.CCErrors) > 0 {
			k.Probe("c06_cc_jump")
		}
		checkPmtCodecs(k, name, tc, pub)
		if nv+na > 0 {
			k.Probe("nontrivial")
			k.Probe("c06_ts_consumers")
		}
	}
	checkC06Rtsp(k, rr)
	if !rr.Plan.Conf.HlsEnable {
		return
	}
	for pi, pub := range rr.Pubs {
		if pub.Actor == nil || !pub.Stopped {
			continue
		}
		stream := StreamName(pub.Plan.Stream)
		useRecord := rr.Plan.Conf.HlsCleanup != 2
		m, data, problem := hlsContent(k, stream, useRecord)
		if problem != "" {
			k.Violate("C06.hls-structure", "pub%d: %s", pi, problem)
		}
		if m == nil || len(data) == 0 {
			continue
		}
		tc := ParseTs(data)
		if len(tc.Problems) > 0 {
			k.Violate("C06.hls-structure", "pub%d: concatenated HLS segments: %s", pi, tc.Problems[0])
		}
		// with the record playlist the segments hold everything since the first segment opened
		complete := useRecord && allProcessed(pub) && !pub.Actor.Closed
		prob, nv, na := CompareTsToPublished(tc, pub.Units, pub.Plan.VideoCodec == media.CodecHEVC, pub.Plan.AacSr, complete)
		if strings.HasPrefix(prob, "BELOW-FIRST") {
			k.Violate("C06.ts-timestamp-below-first", "pub%d: HLS segments: %s", pi, prob)
		}
		if prob != "" {
			k.Violate("C06.hls-content", "pub%d: HLS segments: %s", pi, prob)
		}
		if nv+na > 0 {
			k.Probe("nontrivial")
			k.Probe("c06_hls_streams")
		}
	}
}

// checkC06Rtsp: the RTSP / RTP leg. An independent depacketiser recovers NAL units and audio frames from what each
// RTSP player received (interleaved TCP or UDP).
func checkC06Rtsp(k *sim.Kernel, rr *RelayRun) {
	for ci, c := range rr.Cons {
		if c.Rtsp == nil || !c.Joined {
			continue
		}
		name := fmt.Sprintf("cons%d(%s)", ci, c.Plan.Proto)
		var pub *PubState
		npub := 0
		for _, p := range rr.Pubs {
			if p.Plan.Stream == c.Plan.Stream && p.Actor != nil {
				pub = p
				npub++
			}
		}
		if pub == nil || npub != 1 {
			continue // re-published streams: which incarnation an RTSP player describes is judged by C16
		}
		a := c.Rtsp
		// the property speaks about streams with their sequence headers; a stream that never sent one for a track
		// it carries cannot be described in an SDP
		var haveVS, haveAS, haveV, haveA bool
		for i := range pub.Units {
			switch pub.Units[i].Kind {
			case media.KVideoSeq:
				haveVS = true
			case media.KAudioSeq:
				haveAS = true
			case media.KVideo:
				haveV = true
			case media.KAudio:
				haveA = true
			}
		}
		if (haveV && !haveVS) || (haveA && !haveAS && pub.Plan.AudioCodec == media.SoundAAC) {
			continue
		}
		if a.Failed != "" && a.DescribeOK {
			k.Violate("C06.rtsp-session", "%s: the RTSP exchange failed after a successful DESCRIBE: %s (statuses %v)", name, a.Failed, a.Status)
		}
		if len(a.Rtp) == 0 {
			continue
		}
		rc := ParseRtspSession(a)
		if len(rc.Problems) > 0 {
			k.Violate("C06.rtp-structure", "%s: %s", name, rc.Problems[0])
		}
		hevc := pub.Plan.VideoCodec == media.CodecHEVC
		// parameter sets of every generation this incarnation published
		var sets [][3][]byte
		for i := range pub.Units {
			u := &pub.Units[i]
			if u.Kind != media.KVideoSeq || len(u.Msg.Payload) < 6 {
				continue
			}
			var v, sp, pp []byte
			var ok bool
			if hevc {
				v, sp, pp, ok = parseHvcC(u.Msg.Payload[5:])
			} else {
				sp, pp, ok = parseAvcC(u.Msg.Payload[5:])
			}
			if ok {
				sets = append(sets, [3][]byte{v, sp, pp})
			}
		}
		var sdpSet [3][]byte
		if t := rc.VTrack; t != nil && len(sets) > 0 {
			matched := false
			for _, st := range sets {
				probe := &RtspContent{VTrack: t}
				_ = probe
				b64 := func(b []byte) string { return base64Std(b) }
				if !hevc && t.Fmtp["sprop-parameter-sets"] == b64(st[1])+","+b64(st[2]) {
					matched, sdpSet = true, st
				}
				if hevc && t.Fmtp["sprop-vps"] == b64(st[0]) && t.Fmtp["sprop-sps"] == b64(st[1]) && t.Fmtp["sprop-pps"] == b64(st[2]) {
					matched, sdpSet = true, st
				}
			}
			if !matched {
				k.Violate("C06.sdp", "%s: the video parameter sets in the SDP (%v) are none of the %d sets the publisher sent", name, t.Fmtp, len(sets))
			}
			want := "H264"
			if hevc {
				want = "H265"
			}
			if t.Enc != want {
				k.Violate("C06.sdp", "%s: SDP declares %s for a %s stream", name, t.Enc, want)
			}
		}
		if t := rc.ATrack; t != nil && pub.Plan.AudioCodec == media.SoundAAC {
			checkSdpAgainstPublished(k, name, &RtspContent{ATrack: t}, hevc, pub.Plan.AacSr, nil, nil, nil, true)
		}
		closedEarly := c.Left || c.Kicked || a.Closed
		complete := !closedEarly && pub.Stopped && allProcessed(pub) && !pub.Actor.Closed && a.Ready
		prob, nv, na := CompareRtspToPublished(rc, pub.Units, hevc, pub.Plan.AacSr, complete, sdpSet[1], sdpSet[2], sdpSet[0])
		if prob != "" {
			k.Violate("C06.rtsp-content", "%s: %s", name, prob)
		}
		if nv+na > 0 {
			k.Probe("nontrivial")
			k.Probe("c06_rtsp_consumers")
			if c.Plan.Proto == "rtspudp" {
				k.Probe("c06_rtsp_udp_consumers")
			}
		}
	}
}

func allProcessed(p *PubState) bool {
	if p.Actor == nil || len(p.Actor.Sent) != len(p.Units) {
		return false
	}
	for _, s := range p.Actor.Sent {
		if s.ProcessedStep < 0 {
			return false
		}
	}
	return true
}

func checkPmtCodecs(k *sim.Kernel, name string, tc *TsContent, pub *PubState) {
	if tc.D.Prog == nil {
		return
	}
	wantV := map[int]int{media.CodecAVC: 0x1b, media.CodecHEVC: 0x24}[pub.Plan.VideoCodec]
	if len(tc.Video) > 0 && tc.VType != wantV {
		k.Violate("C06.pmt", "%s: PMT declares video stream_type 0x%02x for a codec-id %d stream", name, tc.VType, pub.Plan.VideoCodec)
	}
	if len(tc.Audio) > 0 && pub.Plan.AudioCodec == media.SoundAAC && tc.AType != 0x0f {
		k.Violate("C06.pmt", "%s: PMT declares audio stream_type 0x%02x for an AAC stream", name, tc.AType)
	}
	if len(tc.Audio) > 0 && pub.Plan.AudioCodec == media.SoundOpus && tc.AType != 0x06 {
		k.Violate("C06.pmt", "%s: PMT declares audio stream_type 0x%02x for an Opus stream (private stream 0x06 + registration expected)", name, tc.AType)
	}
	if tc.OpusNoControlHeader {
		k.Violate("C06.ts-opus-no-control-header", "%s: the Opus access units in TS do not begin with the opus_control_header (0x7fe.. prefix + au_size) a transport-stream demuxer needs to delimit them; the PES payload is the bare Opus packet", name)
	}
}

func genC06Plan(r *sim.Rng, tier string) RelayPlan {
	pl := GenRelayPlan(r, relayProfileC06(tier))
	pl.Conf.TsEnable = true
	pl.Conf.RtspEnable = true
	pl.Conf.RtspWaitKey = r.Bool(0.5)
	pl.Conf.TsGopCap = 0 // a GOP cut at the cap makes the replay non-contiguous (judged by C02, not here)
	pl.Conf.HlsEnable = r.Bool(0.7)
	pl.Conf.HlsFragMs = []int{200, 500, 1000, 3000}[r.Intn(4)]
	pl.Conf.HlsFragNum = 1 + r.Intn(6)
	pl.Conf.HlsDelThresh = r.Intn(6)
	pl.Conf.HlsCleanup = []int{0, 0, 1, 2}[r.Intn(4)]
	for i := range pl.Pubs {
		p := &pl.Pubs[i]
		if p.AudioCodec != 0 {
			p.AudioCodec = media.SoundAAC
			switch r.Intn(10) {
			case 0, 1:
				p.AudioCodec = media.SoundOpus // TS (private stream + registration descriptor) and RTSP
			case 2:
				p.AudioCodec = []int{media.SoundG711A, media.SoundG711U}[r.Intn(2)] // RTSP only
			}
			if p.AudioCodec != media.SoundAAC {
				// no AudioSpecificConfig message in a stream that is not AAC
				kept := p.Units[:0:0]
				for _, u := range p.Units {
					if u.Kind != media.KAudioSeq {
						kept = append(kept, u)
					}
				}
				p.Units = kept
			}
		}
		if p.VideoCodec != 0 && r.Bool(0.3) {
			p.VideoCodec = media.CodecHEVC
		}
	}
	if len(pl.Pubs) > 0 && r.Bool(0.12) {
		pl.PullIngest = genPullIngest(r, len(pl.Pubs[0].Units))
		pl.Pubs = pl.Pubs[:1]
		pl.Cons, pl.Ops = nil, nil
	}
	return pl
}

func init() {
	Register(&Check{
		ID:    "C06",
		Gen:   func(r *sim.Rng, tier string) json.RawMessage { return mustJSON(genC06Plan(r, tier)) },
		Sched: relaySched,
		Run: func(k *sim.Kernel, plan json.RawMessage) {
			var pl RelayPlan
			fromJSON(plan, &pl)
			if pl.PullIngest != nil {
				runC06Pull(k, pl)
				return
			}
			rr := ExecRelay(k, pl)
			CheckC06(k, rr)
		},
		Shrink: relayShrink,
		Shape:  relayShape,
		Brief:  relayBrief,
	})
}

package scen

import (
	"encoding/json"
	"fmt"
	"strings"

	"simlal/sim"
	"simlal/sim/media"
)

func relayProfileC06(tier string) RelayProfile {
	p := RelayProfile{
		Protos:         []string{"ts", "ts", "wsts", "flv"},
		MaxUnits:       90,
		MaxCons:        4,
		Republish:      0,
		HeaderChange:   0.1,
		TsWeird:        0.15,
		BigUnits:       0.25,
		ZeroLen:        0.0,
		ShapeAudioOnly: 0.1,
		ShapeVideoOnly: 0.15,
		LeaveProb:      0.2,
		SettleProb:     [2]float64{0.3, 1.0},
	}
	if tier == "thorough" {
		p.MaxUnits = 300
		p.MaxCons = 6
		p.Thorough = true
	}
	return p
}

// hlsSegments returns, for the HLS output of a stream, the playlist (record playlist when cleanup is not
// immediate, else live) and the concatenated segment bytes in playlist order.
func hlsContent(k *sim.Kernel, stream string, useRecord bool) (pl *M3u8, data []byte, problem string) {
	dir := "/simhls/" + stream + "/"
	name := "playlist.m3u8"
	if useRecord {
		name = "record.m3u8"
	}
	b, ok := k.FS.File(dir + name)
	if !ok {
		return nil, nil, ""
	}
	m, err := ParseM3u8(b)
	if err != nil {
		return nil, nil, fmt.Sprintf("%s does not parse: %v", name, err)
	}
	for _, s := range m.Segments {
		if strings.Contains(s.URI, "/") {
			return m, nil, fmt.Sprintf("%s lists %q (not a plain file name)", name, s.URI)
		}
		seg, ok := k.FS.File(dir + s.URI)
		if !ok {
			return m, nil, fmt.Sprintf("%s lists %s which does not exist", name, s.URI)
		}
		data = append(data, seg...)
	}
	return m, data, ""
}

// CheckC06 compares what TS / HLS consumers can demultiplex with the published frames.
func CheckC06(k *sim.Kernel, rr *RelayRun) {
	for ci, c := range rr.Cons {
		if c.Http == nil || !c.Joined || (c.Plan.Proto != "ts" && c.Plan.Proto != "wsts") {
			continue
		}
		name := fmt.Sprintf("cons%d(%s)", ci, c.Plan.Proto)
		var pub *PubState
		for _, p := range rr.Pubs {
			if p.Plan.Stream == c.Plan.Stream && p.Actor != nil {
				pub = p
			}
		}
		if pub == nil || len(c.Http.TsBytes) == 0 {
			continue
		}
		tc := ParseTs(c.Http.TsBytes)
		closedEarly := c.Left || c.Kicked
		if len(tc.Problems) > 0 && !(closedEarly && strings.Contains(tc.Problems[0], "trailing bytes")) {
			k.Violate("C06.ts-structure", "%s: %s", name, tc.Problems[0])
		}
		if tc.D.DataBeforePsi >= 0 {
			k.Violate("C06.ts-structure", "%s: elementary stream packet %d precedes PAT/PMT", name, tc.D.DataBeforePsi)
		}
		complete := !closedEarly && pub.Stopped && allProcessed(pub) && !pub.Actor.Closed
		prob, nv, na := CompareTsToPublished(tc, pub.Units, pub.Plan.VideoCodec == media.CodecHEVC, pub.Plan.AacSr, complete)
		if strings.HasPrefix(prob, "BELOW-FIRST") {
			k.Violate("C06.ts-timestamp-below-first", "%s: %s", name, prob)
		}
		if prob != "" {
			k.Violate("C06.ts-content", "%s: %s", name, prob)
		}
		if len(tc.D.Notes) > 0 {
			k.Probe("c06_af_stuffing_not_ff")
		}
		if len(tc.D.CCErrors) > 0 {
			k.Probe("c06_cc_jump")
		}
		checkPmtCodecs(k, name, tc, pub)
		if nv+na > 0 {
			k.Probe("nontrivial")
			k.Probe("c06_ts_consumers")
		}
	}
	if !rr.Plan.Conf.HlsEnable {
		return
	}
	for pi, pub := range rr.Pubs {
		if pub.Actor == nil || !pub.Stopped {
			continue
		}
		stream := StreamName(pub.Plan.Stream)
		useRecord := rr.Plan.Conf.HlsCleanup != 2
		m, data, problem := hlsContent(k, stream, useRecord)
		if problem != "" {
			k.Violate("C06.hls-structure", "pub%d: %s", pi, problem)
		}
		if m == nil || len(data) == 0 {
			continue
		}
		tc := ParseTs(data)
		if len(tc.Problems) > 0 {
			k.Violate("C06.hls-structure", "pub%d: concatenated HLS segments: %s", pi, tc.Problems[0])
		}
		// with the record playlist the segments hold everything since the first segment opened
		complete := useRecord && allProcessed(pub) && !pub.Actor.Closed
		prob, nv, na := CompareTsToPublished(tc, pub.Units, pub.Plan.VideoCodec == media.CodecHEVC, pub.Plan.AacSr, complete)
		if strings.HasPrefix(prob, "BELOW-FIRST") {
			k.Violate("C06.ts-timestamp-below-first", "pub%d: HLS segments: %s", pi, prob)
		}
		if prob != "" {
			k.Violate("C06.hls-content", "pub%d: HLS segments: %s", pi, prob)
		}
		if nv+na > 0 {
			k.Probe("nontrivial")
			k.Probe("c06_hls_streams")
		}
	}
}

func allProcessed(p *PubState) bool {
	if p.Actor == nil || len(p.Actor.Sent) != len(p.Units) {
		return false
	}
	for _, s := range p.Actor.Sent {
		if s.ProcessedStep < 0 {
			return false
		}
	}
	return true
}

func checkPmtCodecs(k *sim.Kernel, name string, tc *TsContent, pub *PubState) {
	if tc.D.Prog == nil {
		return
	}
	wantV := map[int]int{media.CodecAVC: 0x1b, media.CodecHEVC: 0x24}[pub.Plan.VideoCodec]
	if len(tc.Video) > 0 && tc.VType != wantV {
		k.Violate("C06.pmt", "%s: PMT declares video stream_type 0x%02x for a codec-id %d stream", name, tc.VType, pub.Plan.VideoCodec)
	}
	if len(tc.Audio) > 0 && pub.Plan.AudioCodec == media.SoundAAC && tc.AType != 0x0f {
		k.Violate("C06.pmt", "%s: PMT declares audio stream_type 0x%02x for an AAC stream", name, tc.AType)
	}
}

func genC06Plan(r *sim.Rng, tier string) RelayPlan {
	pl := GenRelayPlan(r, relayProfileC06(tier))
	pl.Conf.TsEnable = true
	pl.Conf.TsGopCap = 0 // a GOP cut at the cap makes the replay non-contiguous (judged by C02, not here)
	pl.Conf.HlsEnable = r.Bool(0.7)
	pl.Conf.HlsFragMs = []int{200, 500, 1000, 3000}[r.Intn(4)]
	pl.Conf.HlsFragNum = 1 + r.Intn(6)
	pl.Conf.HlsDelThresh = r.Intn(6)
	pl.Conf.HlsCleanup = []int{0, 0, 1, 2}[r.Intn(4)]
	for i := range pl.Pubs {
		p := &pl.Pubs[i]
		if p.AudioCodec != 0 {
			p.AudioCodec = media.SoundAAC
		}
		if p.VideoCodec != 0 && r.Bool(0.3) {
			p.VideoCodec = media.CodecHEVC
		}
	}
	return pl
}

func init() {
	Register(&Check{
		ID:    "C06",
		Gen:   func(r *sim.Rng, tier string) json.RawMessage { return mustJSON(genC06Plan(r, tier)) },
		Sched: relaySched,
		Run: func(k *sim.Kernel, plan json.RawMessage) {
			var pl RelayPlan
			fromJSON(plan, &pl)
			rr := ExecRelay(k, pl)
			CheckC06(k, rr)
		},
		Shrink: relayShrink,
		Shape:  relayShape,
		Brief:  relayBrief,
	})
}

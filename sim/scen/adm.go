package scen

import (
	"encoding/json"
	"fmt"
	"time"

	"simlal/sim"
	"simlal/sim/actors"
	"simlal/sim/media"
	"simlal/sim/rtmpc"

	"github.com/q191201771/lal/pkg/base"
	"github.com/q191201771/lal/pkg/logic"
)

// ---- admission family: inputs of every kind racing for stream names ---------------------------------------------------------

type AdmActor struct {
	Kind   string `json:"kind"` // rtmp_pub | custom_pub | rtmp_sub | flv_sub
	Stream int    `json:"stream"`
	Units  int    `json:"units,omitempty"` // publishers: number of media units it owns
	Video  bool   `json:"video,omitempty"`
}

// OriginBehaviour describes how the stub origin treats the n-th relay-pull connection.
type OriginBehaviour struct {
	Mode  string `json:"mode"` // accept | refuse | mute | die_hs | die_connect | refuse_play
	Units int    `json:"units,omitempty"`
	Hold  bool   `json:"hold,omitempty"` // delay the play response until a later "release_origin" op (races with publishers)
}

type AdmOp struct {
	Kind       string `json:"op"` // start | send | stop | kick | start_pull | stop_pull | release_origin | origin_send | origin_close | settle | advance | stat
	Actor      int    `json:"a,omitempty"`
	Stream     int    `json:"s,omitempty"`
	N          int    `json:"n,omitempty"`
	Ms         int    `json:"ms,omitempty"`
	Reset      bool   `json:"reset,omitempty"`
	Retry      int    `json:"retry,omitempty"`
	AutoStopMs int    `json:"autostop,omitempty"`
}

type AdmPlan struct {
	Conf    LalConf           `json:"conf"`
	Sched   sim.SchedParams   `json:"sched"`
	Streams int               `json:"streams"`
	Actors  []AdmActor        `json:"actors"`
	Origin  []OriginBehaviour `json:"origin"` // per connection attempt, in order (last one repeats)
	Ops     []AdmOp           `json:"ops"`
	// Relay: instead of the admission history above, run the "RTSP relay pull overtaken by a publisher" scenario
	// (check_c03_rtsppull.go)
	Relay *RelayPlan `json:"relay,omitempty"`
}

// InputAttempt is one attempt to become a stream's input, with the event-sequence stamps porcupine needs.
type InputAttempt struct {
	ID        int
	Kind      string // rtmp_pub | custom_pub | pull
	Stream    int
	Inc       int
	CallStep  int
	RetStep   int
	Accepted  bool
	Known     bool // outcome observed
	RelCall   int  // release invoked (-1: never)
	RelRet    int
	SessionId string
	Remote    string
}

type admActorState struct {
	Plan       AdmActor
	Pub        *actors.RtmpClient
	Rtsp       *actors.RtspClient // rtsp_pub: signalling only (video-only SDP without parameter sets, no RTP)
	Sub        *ConsState
	Custom     logic.ICustomizePubSessionContext
	CustomErr  error
	CustomTask *sim.Task
	Units      []media.Unit
	Queued     int
	Started    bool
	Stopped    bool
	Kicked     bool
	Attempt    *InputAttempt
	StartStep  int
	StopStep   int
}

type originConn struct {
	Stub     *actors.RtmpServerStub
	Beh      OriginBehaviour
	Units    []media.Unit
	Queued   int
	Attempt  *InputAttempt
	Released bool
	Stream   int
}

type AdmRun struct {
	W         *World
	Plan      AdmPlan
	Actors    []*admActorState
	Origins   []*originConn
	Attempts  []*InputAttempt
	PullApi   []PullApiRecord
	Stats     []StatRecord
	nextInc   int
	refuseAll bool
}

type PullApiRecord struct {
	Kind     string
	Stream   int
	Result   ApiResult
	Step     int
	SentStep int
	AtMs     int64
	Note     string
}

type StatRecord struct {
	Step     int
	SentStep int // the step at which the request was handed to the network
	Result   ApiResult
}

const originHostPort = "10.9.9.9:1935"

func admUnits(inc int, n int, video bool) []media.Unit {
	p := PubPlan{Inc: inc, AudioCodec: media.SoundAAC, AacSr: 4}
	if video {
		p.VideoCodec = media.CodecAVC
	}
	p.Units = append(p.Units, UnitSpec{Kind: media.KMeta, Size: 20, Sdf: true})
	if video {
		p.Units = append(p.Units, UnitSpec{Kind: media.KVideoSeq})
	}
	p.Units = append(p.Units, UnitSpec{Kind: media.KAudioSeq})
	ts := uint32(1000 * inc)
	for i := 0; i < n; i++ {
		ts += 33
		if video && i%3 == 0 {
			p.Units = append(p.Units, UnitSpec{Kind: media.KVideo, Key: i%6 == 0, Ts: ts, Size: 60 + i, Nals: 1})
		} else {
			p.Units = append(p.Units, UnitSpec{Kind: media.KAudio, Ts: ts, Size: 40 + i})
		}
	}
	return BuildUnits(p)
}

func (ar *AdmRun) newAttempt(kind string, stream, inc int, k *sim.Kernel) *InputAttempt {
	a := &InputAttempt{ID: len(ar.Attempts), Kind: kind, Stream: stream, Inc: inc, CallStep: k.Step(), RetStep: -1, RelCall: -1, RelRet: -1}
	ar.Attempts = append(ar.Attempts, a)
	return a
}

// ExecAdm runs an admission plan.
func ExecAdm(k *sim.Kernel, pl AdmPlan) *AdmRun {
	ar := &AdmRun{Plan: pl}
	// the origin stub: every dial creates a new connection whose behaviour comes from the plan
	k.RegisterStub(originHostPort, func(c *sim.Conn) (sim.ConnHandler, time.Duration) {
		i := len(ar.Origins)
		if ar.refuseAll {
			ar.Origins = append(ar.Origins, &originConn{Beh: OriginBehaviour{Mode: "refuse"}, Stream: -1})
			return nil, 0
		}
		beh := OriginBehaviour{Mode: "accept", Units: 6}
		if len(pl.Origin) > 0 {
			if i < len(pl.Origin) {
				beh = pl.Origin[i]
			} else {
				beh = pl.Origin[len(pl.Origin)-1]
			}
		}
		if beh.Mode == "refuse" {
			ar.Origins = append(ar.Origins, &originConn{Beh: beh, Stream: -1})
			k.Fault("origin_refuse")
			return nil, 0
		}
		st := actors.NewRtmpServerStub(k, fmt.Sprintf("origin%d", i), c)
		oc := &originConn{Stub: st, Beh: beh, Stream: -1}
		switch beh.Mode {
		case "mute":
			st.Mute = true
			k.Fault("origin_mute")
		case "die_hs":
			st.DieAfterHandshake = true
			k.Fault("origin_die_handshake")
		case "die_connect":
			st.DieAfterConnect = true
			k.Fault("origin_die_connect")
		case "refuse_play":
			st.RefusePlay = true
			k.Fault("origin_refuse_play")
		}
		if beh.Hold {
			c.Hold(true) // everything the origin answers is delayed until released
			k.Fault("origin_delayed")
		}
		ar.nextInc++
		inc := 100 + ar.nextInc
		oc.Units = admUnits(inc, beh.Units, true)
		oc.Attempt = ar.newAttempt("pull", -1, inc, k)
		ar.Origins = append(ar.Origins, oc)
		return st, 0
	})
	ar.W = StartWorld(k, pl.Conf)
	for i, ap := range pl.Actors {
		st := &admActorState{Plan: ap, StartStep: -1, StopStep: -1}
		if ap.Kind == "rtmp_pub" || ap.Kind == "custom_pub" {
			st.Units = admUnits(i+1, ap.Units, ap.Video)
		}
		ar.Actors = append(ar.Actors, st)
	}
	ar.W.Observe(func() { ar.observe(k) })
	for _, op := range pl.Ops {
		ar.exec(k, op)
	}
	k.Settle()
	k.Advance(1200 * time.Millisecond)
	ar.teardown(k)
	return ar
}

func (ar *AdmRun) observe(k *sim.Kernel) {
	step := k.Step()
	for _, a := range ar.Actors {
		if a.Pub != nil {
			a.Pub.Observe()
			if at := a.Attempt; at != nil && !at.Known {
				if a.Pub.Closed && a.Pub.LeftStep < 0 && !a.Kicked {
					at.Known, at.Accepted, at.RetStep = true, false, step
				} else if a.Pub.JoinDoneStep >= 0 && !a.Pub.Closed {
					at.Known, at.Accepted, at.RetStep = true, true, step
				}
			}
			if at := a.Attempt; at != nil && at.RelCall >= 0 && at.RelRet < 0 && a.Pub.Closed && a.Pub.Conn.Idle2() {
				at.RelRet = step
			}
		}
		if a.Rtsp != nil {
			if at := a.Attempt; at != nil && !at.Known {
				// lal admits an RTSP publisher when it answers ANNOUNCE
				if a.Rtsp.AnnounceOK {
					at.Known, at.Accepted, at.RetStep = true, true, step
				} else if a.Rtsp.Closed && !a.Stopped && !a.Kicked {
					at.Known, at.Accepted, at.RetStep = true, false, step
				}
			}
			if at := a.Attempt; at != nil && at.RelCall >= 0 && at.RelRet < 0 && a.Rtsp.Closed && a.Rtsp.Conn.Idle2() {
				at.RelRet = step
			}
		}
		if a.Sub != nil {
			if a.Sub.Rtmp != nil {
				a.Sub.Rtmp.Observe()
			}
			if a.Sub.Http != nil {
				a.Sub.Http.Observe()
			}
		}
	}
	for _, o := range ar.Origins {
		if o.Stub != nil {
			o.Stub.Observe()
			if o.Stream < 0 && o.Stub.Stream != "" {
				fmt.Sscanf(o.Stub.Stream, "st%d", &o.Stream)
				o.Attempt.Stream = o.Stream
			}
		}
	}
}

// resolvePulls matches the relay-pull connection attempts (in dial order; all on stream 0) with the
// pull notifications: every attempt reports exactly one stop; it was an accepted input iff a start
// with the same session id was reported.
func (ar *AdmRun) resolvePulls() (problem string) {
	evs := ar.W.Notify.Snapshot()
	var stops []NotifyEvent
	starts := map[string]NotifyEvent{}
	for _, e := range evs {
		switch e.Kind {
		case "pull_stop":
			stops = append(stops, e)
		case "pull_start":
			if _, dup := starts[e.SessionId]; dup {
				return fmt.Sprintf("relay pull session %s reported start twice", e.SessionId)
			}
			starts[e.SessionId] = e
		}
	}
	seen := map[string]bool{}
	for _, st := range stops {
		if seen[st.SessionId] {
			return fmt.Sprintf("relay pull session %s reported stop twice", st.SessionId)
		}
		seen[st.SessionId] = true
	}
	for id := range starts {
		if !seen[id] {
			return fmt.Sprintf("relay pull session %s reported start but never stop", id)
		}
	}
	if len(stops) != len(ar.Origins) {
		return fmt.Sprintf("%d relay pull connection attempts were made but %d pull stops were reported", len(ar.Origins), len(stops))
	}
	for i, o := range ar.Origins {
		if o.Attempt == nil {
			o.Attempt = &InputAttempt{ID: -1, Kind: "pull", Stream: 0, CallStep: stops[i].Step, RelCall: -1, RelRet: -1}
		}
		at := o.Attempt
		at.Stream = 0
		at.SessionId = stops[i].SessionId
		at.Known = true
		if st, ok := starts[at.SessionId]; ok {
			if st.Step > stops[i].Step {
				return fmt.Sprintf("relay pull session %s reported stop before start", at.SessionId)
			}
			at.Accepted = true
			at.RetStep = st.Step
			if at.RelCall < 0 || at.RelCall > stops[i].Step {
				at.RelCall = stops[i].Step
			}
			at.RelRet = stops[i].Step
		} else {
			at.Accepted = false
			at.RetStep = stops[i].Step
		}
	}
	return ""
}

func (ar *AdmRun) exec(k *sim.Kernel, op AdmOp) {
	switch op.Kind {
	case "settle":
		k.Settle()
	case "advance":
		k.Advance(time.Duration(op.Ms) * time.Millisecond)
	case "start":
		if op.Actor >= len(ar.Actors) {
			return
		}
		a := ar.Actors[op.Actor]
		if a.Started {
			return
		}
		a.Started = true
		a.StartStep = k.Step()
		name := StreamName(a.Plan.Stream)
		switch a.Plan.Kind {
		case "rtmp_pub":
			a.Pub = actors.NewRtmpClient(k, fmt.Sprintf("pub%d", op.Actor), actors.RolePublish, "live", name)
			a.Pub.Connect(PortRtmp, 10+op.Actor)
			a.Attempt = ar.newAttempt("rtmp_pub", a.Plan.Stream, op.Actor+1, k)
			a.Attempt.Remote = a.Pub.Conn.RemoteAddr().String()
		case "rtsp_pub":
			a.Rtsp = actors.NewRtspClient(k, fmt.Sprintf("pub%d", op.Actor), "pub", fmt.Sprintf("rtsp://127.0.0.1:%d/live/%s", PortRtsp, name), true)
			a.Rtsp.Sdp = "v=0\r\no=- 0 0 IN IP4 127.0.0.1\r\ns=No Name\r\nc=IN IP4 127.0.0.1\r\nt=0 0\r\nm=video 0 RTP/AVP 96\r\na=rtpmap:96 H264/90000\r\na=fmtp:96 packetization-mode=1\r\na=control:streamid=0\r\n"
			a.Rtsp.Tracks = actors.ParseSdpTracks(a.Rtsp.Sdp)
			a.Rtsp.Connect(PortRtsp, 10+op.Actor)
			a.Attempt = ar.newAttempt("rtsp_pub", a.Plan.Stream, op.Actor+1, k)
			a.Attempt.Remote = a.Rtsp.Conn.RemoteAddr().String()
		case "custom_pub":
			at := ar.newAttempt("custom_pub", a.Plan.Stream, op.Actor+1, k)
			a.Attempt = at
			a.CustomTask = k.Go(fmt.Sprintf("custom%d", op.Actor), func() {
				a.Custom, a.CustomErr = ar.W.Srv.AddCustomizePubSession(name)
			})
			k.Settle()
			if !a.CustomTask.Done() {
				k.Violate("C03.api-hangs", "AddCustomizePubSession did not return: %v", k.BlockedLockWaiters())
			}
			at.Known, at.Accepted, at.RetStep = true, a.CustomErr == nil && a.Custom != nil, k.Step()
		case "rtmp_sub":
			c := &ConsState{Plan: ConsPlan{Stream: a.Plan.Stream, Proto: "rtmp"}, Joined: true}
			c.Rtmp = actors.NewRtmpClient(k, fmt.Sprintf("sub%d", op.Actor), actors.RolePlay, "live", name)
			c.Rtmp.Connect(PortRtmp, 50+op.Actor)
			a.Sub = c
		case "flv_sub":
			c := &ConsState{Plan: ConsPlan{Stream: a.Plan.Stream, Proto: "flv"}, Joined: true}
			c.Http = actors.NewHttpClient(k, fmt.Sprintf("sub%d", op.Actor), "flv", "/live/"+name+".flv")
			c.Http.Connect(PortHttp, 50+op.Actor)
			a.Sub = c
		}
	case "send":
		if op.Actor >= len(ar.Actors) {
			return
		}
		a := ar.Actors[op.Actor]
		if !a.Started || a.Stopped {
			return
		}
		switch a.Plan.Kind {
		case "rtmp_pub":
			for i := 0; i < op.N && a.Queued < len(a.Units); i++ {
				a.Pub.Publish(a.Units[a.Queued].Msg)
				a.Queued++
			}
		case "custom_pub":
			if a.Custom == nil {
				return
			}
			from, to := a.Queued, a.Queued+op.N
			if to > len(a.Units) {
				to = len(a.Units)
			}
			a.Queued = to
			units := a.Units[from:to]
			t := k.Go(fmt.Sprintf("customfeed%d", op.Actor), func() {
				for _, u := range units {
					m := base.RtmpMsg{Payload: u.Msg.Payload}
					m.Header.MsgTypeId = u.Msg.Type
					m.Header.TimestampAbs = u.Msg.Ts
					m.Header.MsgLen = uint32(len(u.Msg.Payload))
					m.Header.MsgStreamId = 1
					_ = a.Custom.FeedRtmpMsg(m)
				}
			})
			k.Settle()
			if !t.Done() {
				k.Violate("C03.api-hangs", "FeedRtmpMsg did not return: %v", k.BlockedLockWaiters())
			}
		}
	case "stop":
		if op.Actor >= len(ar.Actors) {
			return
		}
		a := ar.Actors[op.Actor]
		if !a.Started || a.Stopped {
			return
		}
		a.Stopped = true
		a.StopStep = k.Step()
		if a.Attempt != nil && a.Attempt.RelCall < 0 {
			a.Attempt.RelCall = k.Step()
		}
		switch {
		case a.Pub != nil:
			a.Pub.Leave(op.Reset)
		case a.Rtsp != nil:
			a.Rtsp.Leave(op.Reset)
		case a.Plan.Kind == "custom_pub":
			if a.Custom != nil {
				c := a.Custom
				t := k.Go(fmt.Sprintf("customdel%d", op.Actor), func() { ar.W.Srv.DelCustomizePubSession(c) })
				k.Settle()
				if !t.Done() {
					k.Violate("C03.api-hangs", "DelCustomizePubSession did not return: %v", k.BlockedLockWaiters())
				}
			}
			a.Attempt.RelRet = k.Step()
		case a.Sub != nil:
			a.Sub.Left = true
			if a.Sub.Rtmp != nil {
				a.Sub.Rtmp.Leave(op.Reset)
			}
			if a.Sub.Http != nil {
				a.Sub.Http.Leave(op.Reset)
			}
		}
	case "kick":
		if op.Actor >= len(ar.Actors) {
			return
		}
		a := ar.Actors[op.Actor]
		var conn *sim.Conn
		switch {
		case a.Pub != nil:
			conn = a.Pub.Conn
		case a.Rtsp != nil:
			conn = a.Rtsp.Conn
		case a.Sub != nil && a.Sub.Rtmp != nil:
			conn = a.Sub.Rtmp.Conn
		case a.Sub != nil && a.Sub.Http != nil:
			conn = a.Sub.Http.Conn
		}
		if conn == nil {
			return
		}
		k.Settle()
		id := ""
		for _, e := range ar.W.Notify.Snapshot() {
			if (e.Kind == "pub_start" || e.Kind == "sub_start") && e.Remote == conn.RemoteAddr().String() {
				id = e.SessionId
			}
		}
		if id == "" {
			return
		}
		if a.Attempt != nil && a.Attempt.RelCall < 0 {
			a.Attempt.RelCall = k.Step()
		}
		body, _ := json.Marshal(map[string]string{"stream_name": StreamName(a.Plan.Stream), "session_id": id})
		res := ar.W.Api(fmt.Sprintf("api-kick-%d", k.Step()), "/api/ctrl/kick_session", body)
		ar.PullApi = append(ar.PullApi, PullApiRecord{Kind: "kick", Stream: a.Plan.Stream, Result: res, Step: k.Step(), AtMs: k.NowMs()})
		a.Kicked = true
		a.Stopped = true
		if a.Sub != nil {
			a.Sub.Kicked = true
		}
	case "start_pull":
		body, _ := json.Marshal(map[string]interface{}{
			"url": fmt.Sprintf("rtmp://%s/live/%s", originHostPort, StreamName(op.Stream)), "stream_name": StreamName(op.Stream),
			"pull_timeout_ms": 5000, "pull_retry_num": op.Retry, "auto_stop_pull_after_no_out_ms": op.AutoStopMs,
		})
		sent := k.Step()
		call := ar.W.ApiStart(fmt.Sprintf("api-pull-%d", k.Step()), "/api/ctrl/start_relay_pull", body)
		k.Settle()
		ar.PullApi = append(ar.PullApi, PullApiRecord{Kind: "start_pull", Stream: op.Stream, Result: call.Result(), Step: k.Step(), SentStep: sent, AtMs: k.NowMs()})
		if call.C != nil {
			call.C.Leave(false)
		}
	case "start_rtp_pub":
		// start_rtp_pub for a stream whose accepted input is live (as far as the harness can tell after settling): the
		// call must report failure; when no input is known to be accepted the call is skipped (a GB28181 session that is
		// accepted ends by timeout without any notification, which the admission history could not place)
		k.Settle()
		held := false
		for _, a := range ar.Actors {
			if a.Plan.Stream == op.Stream && a.Started && !a.Stopped && a.Attempt != nil && a.Attempt.Known && a.Attempt.Accepted && a.Attempt.RelCall < 0 {
				closed := (a.Pub != nil && a.Pub.Closed) || (a.Rtsp != nil && a.Rtsp.Closed)
				held = held || !closed
			}
		}
		if !held {
			return
		}
		body, _ := json.Marshal(map[string]interface{}{"stream_name": StreamName(op.Stream), "port": 0, "timeout_ms": 1000})
		sent := k.Step()
		call := ar.W.ApiStart(fmt.Sprintf("api-rtppub-%d", k.Step()), "/api/ctrl/start_rtp_pub", body)
		k.Settle()
		ar.PullApi = append(ar.PullApi, PullApiRecord{Kind: "start_rtp_pub", Stream: op.Stream, Result: call.Result(), Step: k.Step(), SentStep: sent, AtMs: k.NowMs()})
		if call.C != nil {
			call.C.Leave(false)
		}
		k.Probe("c03_start_rtp_pub_with_input")
	case "reannounce":
		// an RTSP publisher announces again on its established connection: whatever lal makes of it (it may end the
		// session), the stream must not be left with an input nobody can remove
		if op.Actor >= len(ar.Actors) {
			return
		}
		a := ar.Actors[op.Actor]
		if a.Rtsp == nil || !a.Started || a.Stopped || !a.Rtsp.Ready || a.Rtsp.Closed {
			return
		}
		if a.Attempt != nil && a.Attempt.RelCall < 0 {
			a.Attempt.RelCall = k.Step()
		}
		a.Rtsp.Reannounce()
		k.Settle()
		if !a.Rtsp.Closed {
			a.Rtsp.Leave(false)
		}
		a.Stopped = true
		a.StopStep = k.Step()
		k.Probe("c03_rtsp_reannounce")
	case "kick_stale":
		// ids of sessions that have certainly ended (their stop was notified), else ids that never existed
		k.Settle()
		var ended []string
		live := map[string]bool{}
		for _, e := range ar.W.Notify.Snapshot() {
			switch e.Kind {
			case "pub_start", "sub_start", "pull_start":
				live[e.SessionId] = true
			case "pub_stop", "sub_stop", "pull_stop":
				if live[e.SessionId] {
					delete(live, e.SessionId)
					ended = append(ended, e.SessionId)
				}
			}
		}
		id := []string{"RTMPPULL", "RTSPPULL", "RTMPPUBSUB", "RTSPPUB", "PSPUB", "FLVSUB", "TSSUB", "RTSPSUB", "CUSTOMIZEPUB", "XYZ"}[op.N%10] + fmt.Sprintf("%d", 90000+op.N)
		if len(ended) > 0 && op.N%3 != 0 {
			id = ended[op.N%len(ended)]
		}
		body, _ := json.Marshal(map[string]string{"stream_name": StreamName(op.Stream), "session_id": id})
		res := ar.W.Api(fmt.Sprintf("api-kickstale-%d", k.Step()), "/api/ctrl/kick_session", body)
		ar.PullApi = append(ar.PullApi, PullApiRecord{Kind: "kick_stale", Stream: op.Stream, Result: res, Step: k.Step(), AtMs: k.NowMs(), Note: id})
	case "stop_pull":
		res := ar.W.Api(fmt.Sprintf("api-stoppull-%d", k.Step()), "/api/ctrl/stop_relay_pull?stream_name="+StreamName(op.Stream), nil)
		ar.PullApi = append(ar.PullApi, PullApiRecord{Kind: "stop_pull", Stream: op.Stream, Result: res, Step: k.Step(), AtMs: k.NowMs()})
	case "release_origin":
		for _, o := range ar.Origins {
			if o.Stub != nil && o.Beh.Hold && !o.Released {
				o.Released = true
				o.Stub.Conn.Hold(false)
			}
		}
	case "origin_send":
		for _, o := range ar.Origins {
			if o.Stub != nil && o.Beh.Mode == "accept" && !o.Stub.Closed {
				for i := 0; i < op.N && o.Queued < len(o.Units); i++ {
					o.Stub.Serve(o.Units[o.Queued].Msg)
					o.Queued++
				}
			}
		}
	case "origin_close":
		for _, o := range ar.Origins {
			if o.Stub != nil && !o.Stub.Closed && o.Stub.Conn != nil {
				if o.Attempt.RelCall < 0 {
					o.Attempt.RelCall = k.Step()
				}
				if op.Reset {
					o.Stub.Conn.ResetByPeer()
				} else {
					o.Stub.Conn.CloseByPeer()
				}
			}
		}
	case "stat":
		sent := k.Step()
		res := ar.W.Api(fmt.Sprintf("api-stat-%d", k.Step()), "/api/stat/all_group", nil)
		ar.Stats = append(ar.Stats, StatRecord{Step: k.Step(), SentStep: sent, Result: res})
	}
}

// teardown ends everything so that every accepted session gets its stop notification.
func (ar *AdmRun) teardown(k *sim.Kernel) {
	ar.refuseAll = true // retries of a never-ending static pull now fail fast
	for s := 0; s < ar.Plan.Streams; s++ {
		ar.exec(k, AdmOp{Kind: "stop_pull", Stream: s})
	}
	ar.exec(k, AdmOp{Kind: "release_origin"})
	for i, a := range ar.Actors {
		if a.Started && !a.Stopped {
			ar.exec(k, AdmOp{Kind: "stop", Actor: i})
		}
	}
	k.Settle()
	ar.exec(k, AdmOp{Kind: "origin_close"})
	k.Settle()
	k.Advance(12 * time.Second) // pull timeouts of muted origins expire
	k.Settle()
}

var _ = rtmpc.TypeAudio

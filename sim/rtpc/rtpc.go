// Package rtpc is the harness's independent RTP implementation: header, H.264 (RFC 6184), H.265
// (RFC 7798), AAC-hbr (RFC 3640) and raw (G.711 / Opus) packetisers and depacketisers, and RTCP SR.
// It imports nothing from lal.
package rtpc

import (
	"encoding/binary"
	"fmt"
)

type Packet struct {
	Marker  bool
	PT      uint8
	Seq     uint16
	Ts      uint32
	Ssrc    uint32
	Payload []byte
}

func (p *Packet) Marshal() []byte {
	b := make([]byte, 12+len(p.Payload))
	b[0] = 0x80
	b[1] = p.PT & 0x7f
	if p.Marker {
		b[1] |= 0x80
	}
	binary.BigEndian.PutUint16(b[2:], p.Seq)
	binary.BigEndian.PutUint32(b[4:], p.Ts)
	binary.BigEndian.PutUint32(b[8:], p.Ssrc)
	copy(b[12:], p.Payload)
	return b
}

// Parse parses an RTP packet per RFC 3550 (CSRC list, extension and padding honoured).
func Parse(b []byte) (Packet, error) {
	var p Packet
	if len(b) < 12 {
		return p, fmt.Errorf("rtp: %d bytes", len(b))
	}
	if b[0]>>6 != 2 {
		return p, fmt.Errorf("rtp: version %d", b[0]>>6)
	}
	cc := int(b[0] & 0xf)
	off := 12 + 4*cc
	if len(b) < off {
		return p, fmt.Errorf("rtp: csrc list truncated")
	}
	if b[0]&0x10 != 0 {
		if len(b) < off+4 {
			return p, fmt.Errorf("rtp: extension truncated")
		}
		off += 4 + 4*int(binary.BigEndian.Uint16(b[off+2:]))
		if len(b) < off {
			return p, fmt.Errorf("rtp: extension truncated")
		}
	}
	end := len(b)
	if b[0]&0x20 != 0 {
		pad := int(b[len(b)-1])
		if pad == 0 || pad > end-off {
			return p, fmt.Errorf("rtp: padding %d", pad)
		}
		end -= pad
	}
	p.Marker = b[1]&0x80 != 0
	p.PT = b[1] & 0x7f
	p.Seq = binary.BigEndian.Uint16(b[2:])
	p.Ts = binary.BigEndian.Uint32(b[4:])
	p.Ssrc = binary.BigEndian.Uint32(b[8:])
	p.Payload = b[off:end]
	return p, nil
}

// ---- packetisers -----------------------------------------------------------------------------------------------------------

type Codec int

const (
	H264 Codec = iota
	H265
	AAC
	Raw
)

// Packer turns units into RTP packets with a chosen payload limit.
type Packer struct {
	Codec     Codec
	PT        uint8
	Ssrc      uint32
	Seq       uint16
	Max       int  // payload limit
	UseStap   bool // aggregate consecutive small NAL units of one access unit (STAP-A / AP)
	FragAudio bool // AAC: fragment access units larger than Max (RFC 3640 3.2.3.1)
}

// PackVideoAU packetises one access unit (list of NAL units) with RTP timestamp ts; the marker is set on the last packet.
func (p *Packer) PackVideoAU(nals [][]byte, ts uint32) []Packet {
	var out []Packet
	emit := func(payload []byte) {
		out = append(out, Packet{PT: p.PT, Seq: p.Seq, Ts: ts, Ssrc: p.Ssrc, Payload: payload})
		p.Seq++
	}
	hdr := 1
	if p.Codec == H265 {
		hdr = 2
	}
	i := 0
	for i < len(nals) {
		n := nals[i]
		// aggregation of two or more small NAL units
		if p.UseStap && i+1 < len(nals) && len(n) >= hdr && len(nals[i+1]) >= hdr && hdr+2+len(n)+2+len(nals[i+1]) <= p.Max {
			var agg []byte
			if p.Codec == H264 {
				agg = []byte{24 | n[0]&0x60}
			} else {
				agg = []byte{48 << 1, 1}
			}
			for i < len(nals) && len(agg)+2+len(nals[i]) <= p.Max {
				agg = append(agg, byte(len(nals[i])>>8), byte(len(nals[i])))
				agg = append(agg, nals[i]...)
				i++
			}
			emit(agg)
			continue
		}
		i++
		if len(n) <= p.Max {
			emit(append([]byte(nil), n...))
			continue
		}
		// fragmentation
		body := n[hdr:]
		first := true
		for len(body) > 0 {
			c := p.Max - hdr - 1
			if c > len(body) {
				c = len(body)
			}
			var pl []byte
			se := byte(0)
			if first {
				se |= 0x80
			}
			if c == len(body) {
				se |= 0x40
			}
			if p.Codec == H264 {
				pl = []byte{28 | n[0]&0xe0, se | n[0]&0x1f}
			} else {
				pl = []byte{49<<1 | n[0]&0x81, n[1], se | (n[0]>>1)&0x3f}
			}
			pl = append(pl, body[:c]...)
			emit(pl)
			body = body[c:]
			first = false
		}
	}
	if len(out) > 0 {
		out[len(out)-1].Marker = true
	}
	return out
}

// PackAacAggregate puts several complete AAC access units into one packet (RFC 3640 3.2.1: AU-headers-length, one
// 16-bit AU header each, then the access units back to back); the RTP timestamp is that of the first one.
func (p *Packer) PackAacAggregate(frames [][]byte, ts uint32) Packet {
	n := len(frames)
	pl := []byte{byte(16 * n >> 8), byte(16 * n)}
	for _, f := range frames {
		pl = append(pl, byte(len(f)>>5), byte(len(f)&0x1f)<<3)
	}
	for _, f := range frames {
		pl = append(pl, f...)
	}
	pk := Packet{PT: p.PT, Seq: p.Seq, Ts: ts, Ssrc: p.Ssrc, Payload: pl, Marker: true}
	p.Seq++
	return pk
}

// PackAudio packetises one audio frame (AAC: one AU per packet, RFC 3640 AAC-hbr; raw otherwise).
func (p *Packer) PackAudio(frame []byte, ts uint32) []Packet {
	var pl []byte
	if p.Codec == AAC && p.FragAudio && p.Max > 4 && len(frame) > p.Max-4 {
		// RFC 3640 3.2.3.1: every fragment carries the AU header with the size of the whole access unit,
		// the same timestamp, and the marker only on the last one
		var out []Packet
		rest := frame
		for len(rest) > 0 {
			n := p.Max - 4
			if n > len(rest) {
				n = len(rest)
			}
			b := []byte{0, 16, byte(len(frame) >> 5), byte(len(frame)&0x1f) << 3}
			b = append(b, rest[:n]...)
			rest = rest[n:]
			out = append(out, Packet{PT: p.PT, Seq: p.Seq, Ts: ts, Ssrc: p.Ssrc, Payload: b, Marker: len(rest) == 0})
			p.Seq++
		}
		return out
	}
	if p.Codec == AAC {
		pl = []byte{0, 16, byte(len(frame) >> 5), byte(len(frame)&0x1f) << 3}
		pl = append(pl, frame...)
	} else {
		pl = append([]byte(nil), frame...)
	}
	pk := Packet{PT: p.PT, Seq: p.Seq, Ts: ts, Ssrc: p.Ssrc, Payload: pl, Marker: true}
	p.Seq++
	return []Packet{pk}
}

// ---- depacketisers ---------------------------------------------------------------------------------------------------------

// Unit is one depacketised NAL unit or audio frame with the RTP timestamp of its packet(s).
type Unit struct {
	Data   []byte
	Ts     uint32
	Marker bool // the last packet of the unit carried the marker
	Seq    uint16
}

// Depacketiser consumes packets in sequence order (the caller reorders) and returns complete units.
type Depacketiser struct {
	Codec Codec
	fu    []byte
	fuOn  bool
	Err   error
}

func (d *Depacketiser) Feed(p Packet) []Unit {
	var out []Unit
	b := p.Payload
	switch d.Codec {
	case H264:
		if len(b) < 1 {
			d.Err = fmt.Errorf("h264: empty payload")
			return nil
		}
		t := b[0] & 0x1f
		switch {
		case t >= 1 && t <= 23:
			out = append(out, Unit{Data: append([]byte(nil), b...), Ts: p.Ts, Marker: p.Marker, Seq: p.Seq})
		case t == 24:
			b = b[1:]
			for len(b) >= 2 {
				n := int(binary.BigEndian.Uint16(b))
				if 2+n > len(b) {
					d.Err = fmt.Errorf("h264: STAP-A unit overruns the packet")
					return out
				}
				out = append(out, Unit{Data: append([]byte(nil), b[2:2+n]...), Ts: p.Ts, Seq: p.Seq})
				b = b[2+n:]
			}
			if len(out) > 0 {
				out[len(out)-1].Marker = p.Marker
			}
		case t == 28:
			if len(b) < 2 {
				d.Err = fmt.Errorf("h264: short FU-A")
				return nil
			}
			if b[1]&0x80 != 0 {
				d.fu = []byte{b[0]&0xe0 | b[1]&0x1f}
				d.fuOn = true
			}
			if !d.fuOn {
				d.Err = fmt.Errorf("h264: FU-A fragment without start")
				return nil
			}
			d.fu = append(d.fu, b[2:]...)
			if b[1]&0x40 != 0 {
				out = append(out, Unit{Data: d.fu, Ts: p.Ts, Marker: p.Marker, Seq: p.Seq})
				d.fu, d.fuOn = nil, false
			}
		default:
			d.Err = fmt.Errorf("h264: packet type %d", t)
		}
	case H265:
		if len(b) < 2 {
			d.Err = fmt.Errorf("h265: short payload")
			return nil
		}
		t := (b[0] >> 1) & 0x3f
		switch {
		case t == 48:
			b = b[2:]
			for len(b) >= 2 {
				n := int(binary.BigEndian.Uint16(b))
				if 2+n > len(b) {
					d.Err = fmt.Errorf("h265: AP unit overruns the packet")
					return out
				}
				out = append(out, Unit{Data: append([]byte(nil), b[2:2+n]...), Ts: p.Ts, Seq: p.Seq})
				b = b[2+n:]
			}
			if len(out) > 0 {
				out[len(out)-1].Marker = p.Marker
			}
		case t == 49:
			if len(b) < 3 {
				d.Err = fmt.Errorf("h265: short FU")
				return nil
			}
			if b[2]&0x80 != 0 {
				d.fu = []byte{b[0]&0x81 | (b[2]&0x3f)<<1, b[1]}
				d.fuOn = true
			}
			if !d.fuOn {
				d.Err = fmt.Errorf("h265: FU fragment without start")
				return nil
			}
			d.fu = append(d.fu, b[3:]...)
			if b[2]&0x40 != 0 {
				out = append(out, Unit{Data: d.fu, Ts: p.Ts, Marker: p.Marker, Seq: p.Seq})
				d.fu, d.fuOn = nil, false
			}
		case t < 48:
			out = append(out, Unit{Data: append([]byte(nil), b...), Ts: p.Ts, Marker: p.Marker, Seq: p.Seq})
		default:
			d.Err = fmt.Errorf("h265: packet type %d", t)
		}
	case AAC:
		if len(b) < 2 {
			d.Err = fmt.Errorf("aac: short payload")
			return nil
		}
		hl := (int(binary.BigEndian.Uint16(b)) + 7) / 8
		if 2+hl > len(b) || hl%2 != 0 {
			d.Err = fmt.Errorf("aac: AU-headers-length %d", hl)
			return nil
		}
		hs := b[2 : 2+hl]
		data := b[2+hl:]
		for i := 0; i+2 <= len(hs); i += 2 {
			sz := int(binary.BigEndian.Uint16(hs[i:]) >> 3)
			if sz > len(data) {
				// fragment of a larger AU: collect
				d.fu = append(d.fu, data...)
				if p.Marker {
					out = append(out, Unit{Data: d.fu, Ts: p.Ts, Marker: true, Seq: p.Seq})
					d.fu = nil
				}
				return out
			}
			if len(d.fu) > 0 {
				d.fu = append(d.fu, data[:sz]...)
				out = append(out, Unit{Data: d.fu, Ts: p.Ts, Marker: p.Marker, Seq: p.Seq})
				d.fu = nil
			} else {
				out = append(out, Unit{Data: append([]byte(nil), data[:sz]...), Ts: p.Ts, Marker: p.Marker, Seq: p.Seq})
			}
			data = data[sz:]
		}
	default:
		out = append(out, Unit{Data: append([]byte(nil), b...), Ts: p.Ts, Marker: p.Marker, Seq: p.Seq})
	}
	return out
}

// ---- RTCP sender report ----------------------------------------------------------------------------------------------------

func SenderReport(ssrc uint32, ntpSec, ntpFrac, rtpTs, pkts, octets uint32) []byte {
	b := make([]byte, 28)
	b[0] = 0x80
	b[1] = 200
	binary.BigEndian.PutUint16(b[2:], 6)
	binary.BigEndian.PutUint32(b[4:], ssrc)
	binary.BigEndian.PutUint32(b[8:], ntpSec)
	binary.BigEndian.PutUint32(b[12:], ntpFrac)
	binary.BigEndian.PutUint32(b[16:], rtpTs)
	binary.BigEndian.PutUint32(b[20:], pkts)
	binary.BigEndian.PutUint32(b[24:], octets)
	return b
}

package sim

// UDP simulation (filled in with the RTSP/GB28181 stage).

type UDPSock struct{}

type udpAction struct{}

func (k *Kernel) udpActions() []action  { return nil }
func (k *Kernel) applyUDP(a *udpAction) {}
func (k *Kernel) collectUDP()           {}

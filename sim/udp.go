package sim

// Simulated UDP. lal's only UDP path is naza's nazanet.UdpConnection; the build overlay substitutes a copy of
// that package whose sockets are ZzUDPBackend values created here (see /verif/modoverlay). Datagrams sent by
// actors queue at the destination socket and are handed to lal's reader one at a time by a driver action, so
// the relative order of deliveries on different sockets is a seeded scheduling decision; loss, duplication and
// reordering are applied by the sending actor from the plan (so that they are part of the replay file and are
// minimised with it). Every datagram lal writes parks like a TCP write and is then routed to the actor that
// owns the destination address.

import (
	"fmt"
	"hash/fnv"
	"net"
	"sort"
	"sync"
	"sync/atomic"
	"time"

	"github.com/q191201771/naza/pkg/nazanet"
)

type Datagram struct {
	B    []byte
	From net.UDPAddr
	To   net.UDPAddr
}

type UDPSock struct {
	k    *Kernel
	port int
	name string

	mu       sync.Mutex
	cond     *sync.Cond
	inbox    []Datagram // sent by actors, not yet delivered
	ready    []Datagram // delivered, not yet read by lal
	out      []Datagram // written by lal, not yet collected
	closed   bool
	reading  bool
	deadline time.Time
	dlTimer  *time.Timer
	dead     bool

	TotalIn, TotalRead, TotalOut int
}

type udpAction struct {
	sock *UDPSock
}

// UDPHandler receives datagrams lal sends to an address an actor owns.
type UDPHandler func(d Datagram)

type udpState struct {
	socks    map[int]*UDPSock
	order    []*UDPSock
	linger   []*UDPSock            // closed sockets whose last writes are not collected yet
	handlers map[string]UDPHandler // "host:port" -> actor
	Dropped  int                   // datagrams to unbound ports / unowned addresses
}

func (k *Kernel) udp() *udpState {
	if k.udpSt == nil {
		k.udpSt = &udpState{socks: map[int]*UDPSock{}, handlers: map[string]UDPHandler{}}
	}
	return k.udpSt
}

func (k *Kernel) installUDP() {
	nazanet.ZzListenUDP = func(addr *net.UDPAddr) (nazanet.ZzUDPBackend, error) {
		return k.listenUDP(addr)
	}
}

func (k *Kernel) listenUDP(addr *net.UDPAddr) (*UDPSock, error) {
	k.mu.Lock()
	defer k.mu.Unlock()
	u := k.udp()
	port := addr.Port
	if port == 0 {
		port = 40000
		for u.socks[port] != nil {
			port++
		}
	}
	if s := u.socks[port]; s != nil {
		return nil, &net.OpError{Op: "listen", Net: "udp", Err: fmt.Errorf("bind: address already in use")}
	}
	if k.udpBusyPorts[port] {
		return nil, &net.OpError{Op: "listen", Net: "udp", Err: fmt.Errorf("bind: address already in use")}
	}
	s := &UDPSock{k: k, port: port, name: fmt.Sprintf("udp:%d", port)}
	s.cond = sync.NewCond(&s.mu)
	u.socks[port] = s
	u.order = append(u.order, s)
	return s, nil
}

// UDPOccupy makes a port unavailable to lal (as if another process had bound it).
func (k *Kernel) UDPOccupy(port int) {
	k.mu.Lock()
	if k.udpBusyPorts == nil {
		k.udpBusyPorts = map[int]bool{}
	}
	k.udpBusyPorts[port] = true
	k.mu.Unlock()
}

// UDPBound reports whether lal has a socket bound on port.
func (k *Kernel) UDPBound(port int) bool {
	k.mu.Lock()
	defer k.mu.Unlock()
	return k.udp().socks[port] != nil
}

// UDPBoundPorts lists lal's bound UDP ports in ascending order.
func (k *Kernel) UDPBoundPorts() []int {
	k.mu.Lock()
	defer k.mu.Unlock()
	var ps []int
	for p := range k.udp().socks {
		ps = append(ps, p)
	}
	sort.Ints(ps)
	return ps
}

// UDPSend queues a datagram from an actor's address to lal's port. It reports false when nothing is bound there.
func (k *Kernel) UDPSend(from net.UDPAddr, port int, b []byte) bool {
	k.mu.Lock()
	s := k.udp().socks[port]
	if s == nil {
		k.udp().Dropped++
	}
	k.mu.Unlock()
	if s == nil {
		return false
	}
	s.mu.Lock()
	s.inbox = append(s.inbox, Datagram{B: append([]byte(nil), b...), From: from, To: net.UDPAddr{IP: net.IPv4(127, 0, 0, 1), Port: port}})
	s.TotalIn++
	s.mu.Unlock()
	return true
}

// UDPHandle registers the actor that owns host:port.
func (k *Kernel) UDPHandle(hostport string, h UDPHandler) {
	k.mu.Lock()
	k.udp().handlers[hostport] = h
	k.mu.Unlock()
}

// UDPPending reports how many datagrams sent to port have not been read by lal yet.
func (k *Kernel) UDPPending(port int) int {
	k.mu.Lock()
	s := k.udp().socks[port]
	k.mu.Unlock()
	if s == nil {
		return 0
	}
	s.mu.Lock()
	defer s.mu.Unlock()
	return len(s.inbox) + len(s.ready)
}

func (k *Kernel) udpActions() []action {
	// called with k.mu held
	if k.udpSt == nil {
		return nil
	}
	var acts []action
	socks := append([]*UDPSock(nil), k.udpSt.order...)
	sort.SliceStable(socks, func(i, j int) bool { return socks[i].port < socks[j].port })
	for _, s := range socks {
		if s.dead {
			continue
		}
		s.mu.Lock()
		if len(s.inbox) > 0 && !s.closed {
			acts = append(acts, action{kind: "udp", udp: &udpAction{sock: s}, key: "udp " + s.name})
		}
		s.mu.Unlock()
	}
	return acts
}

func (k *Kernel) applyUDP(a *udpAction) {
	s := a.sock
	s.mu.Lock()
	if len(s.inbox) > 0 {
		s.ready = append(s.ready, s.inbox[0])
		s.inbox = s.inbox[1:]
		s.cond.Broadcast()
	}
	s.mu.Unlock()
	k.Stats.Deliveries++
	k.lastGid = 0
}

func (k *Kernel) collectUDP() {
	if k.udpSt == nil {
		return
	}
	k.mu.Lock()
	socks := append([]*UDPSock(nil), k.udpSt.order...)
	socks = append(socks, k.udpSt.linger...)
	k.udpSt.linger = nil
	k.mu.Unlock()
	sort.SliceStable(socks, func(i, j int) bool { return socks[i].port < socks[j].port })
	for _, s := range socks {
		s.mu.Lock()
		out := s.out
		s.out = nil
		s.mu.Unlock()
		for _, d := range out {
			h := fnv.New64a()
			h.Write(d.B)
			k.mixDigest(&k.digest, fmt.Sprintf("uout %s>%s %d %x", s.name, d.To.String(), len(d.B), h.Sum64()))
			if k.TraceOn {
				k.trace = append(k.trace, fmt.Sprintf("  uout %s>%s %d %x", s.name, d.To.String(), len(d.B), h.Sum64()))
			}
			k.Stats.BytesOut += int64(len(d.B))
			k.mu.Lock()
			hd := k.udpSt.handlers[d.To.String()]
			if hd == nil {
				k.udpSt.Dropped++
			}
			k.mu.Unlock()
			if hd != nil {
				hd(d)
			}
		}
	}
}

func (k *Kernel) crashUDP() {
	// with k.mu held
	if k.udpSt == nil {
		return
	}
	for _, s := range k.udpSt.order {
		s.dead = true
	}
	k.udpSt.socks = map[int]*UDPSock{}
	k.udpSt.order = nil
}

// ---- nazanet.ZzUDPBackend ----------------------------------------------------------------------------------------------------

var errUDPClosed = &net.OpError{Op: "read", Net: "udp", Err: fmt.Errorf("use of closed network connection")}

func (s *UDPSock) ReadFromUDP(b []byte) (int, *net.UDPAddr, error) {
	s.k.nameGoroutine(s.name)
	s.mu.Lock()
	defer s.mu.Unlock()
	for {
		if s.closed {
			return 0, nil, errUDPClosed
		}
		if len(s.ready) > 0 {
			d := s.ready[0]
			s.ready = s.ready[1:]
			n := copy(b, d.B) // excess bytes of a datagram are discarded, as recvfrom does
			s.TotalRead++
			atomic.AddInt64(&s.k.Stats.BytesIn, int64(n))
			from := d.From
			return n, &from, nil
		}
		if !s.deadline.IsZero() && !time.Now().Before(s.deadline) {
			return 0, nil, &net.OpError{Op: "read", Net: "udp", Err: timeoutError{}}
		}
		s.cond.Wait()
	}
}

func (s *UDPSock) WriteToUDP(b []byte, addr *net.UDPAddr) (int, error) {
	s.mu.Lock()
	closed := s.closed
	s.mu.Unlock()
	if closed {
		return 0, &net.OpError{Op: "write", Net: "udp", Err: fmt.Errorf("use of closed network connection")}
	}
	if addr == nil {
		return 0, &net.OpError{Op: "write", Net: "udp", Err: fmt.Errorf("missing address")}
	}
	s.k.parkUDPWrite(s)
	s.mu.Lock()
	defer s.mu.Unlock()
	if s.closed {
		return 0, &net.OpError{Op: "write", Net: "udp", Err: fmt.Errorf("use of closed network connection")}
	}
	to := *addr
	if to.IP == nil || to.IP.IsUnspecified() {
		to.IP = net.IPv4(127, 0, 0, 1)
	}
	s.out = append(s.out, Datagram{B: append([]byte(nil), b...), From: net.UDPAddr{IP: net.IPv4(127, 0, 0, 1), Port: s.port}, To: to})
	s.TotalOut++
	return len(b), nil
}

func (s *UDPSock) Close() error {
	s.mu.Lock()
	if s.closed {
		s.mu.Unlock()
		return &net.OpError{Op: "close", Net: "udp", Err: fmt.Errorf("use of closed network connection")}
	}
	s.closed = true
	s.cond.Broadcast()
	s.mu.Unlock()
	k := s.k
	k.mu.Lock()
	if u := k.udpSt; u != nil && u.socks[s.port] == s {
		delete(u.socks, s.port)
		for i, x := range u.order {
			if x == s {
				u.order = append(u.order[:i:i], u.order[i+1:]...)
				u.linger = append(u.linger, s)
				break
			}
		}
	}
	k.mu.Unlock()
	return nil
}

func (s *UDPSock) LocalAddr() net.Addr {
	return &net.UDPAddr{IP: net.IPv4zero, Port: s.port}
}

func (s *UDPSock) SetReadDeadline(t time.Time) error {
	s.mu.Lock()
	defer s.mu.Unlock()
	if s.dlTimer != nil {
		s.dlTimer.Stop()
		s.dlTimer = nil
	}
	s.deadline = t
	if !t.IsZero() {
		d := time.Until(t)
		if d < 0 {
			d = 0
		}
		s.dlTimer = time.AfterFunc(d, func() {
			s.mu.Lock()
			s.cond.Broadcast()
			s.mu.Unlock()
		})
	}
	return nil
}

// Package sim is the deterministic simulation kernel for lal: a driver loop that runs inside a
// testing/synctest bubble, owns the fake clock, the simulated transport, every lal mutex
// (cooperative locks granted by the driver), map iteration order and randomness, and decides
// from one seeded PRNG which enabled action happens next.
package sim

import (
	"fmt"
	"hash/fnv"
	"math"
	"os"
	"runtime"
	"sort"
	"strconv"
	"strings"
	"sync"
	"sync/atomic"
	"testing/synctest"
	"time"

	"github.com/q191201771/lal/pkg/zzsim"
)

// ---------------------------------------------------------------------------------------------------------------------

// Rng is a small splitmix64/xorshift PRNG; every choice of a run derives from one seed.
type Rng struct{ s uint64 }

func NewRng(seed uint64) *Rng { return &Rng{s: seed*0x9E3779B97F4A7C15 + 0x1234567} }
func (r *Rng) U64() uint64 {
	r.s += 0x9E3779B97F4A7C15
	z := r.s
	z = (z ^ (z >> 30)) * 0xBF58476D1CE4E5B9
	z = (z ^ (z >> 27)) * 0x94D049BB133111EB
	return z ^ (z >> 31)
}
func (r *Rng) Intn(n int) int {
	if n <= 0 {
		return 0
	}
	return int(r.U64() % uint64(n))
}
func (r *Rng) Range(lo, hi int) int { // inclusive
	if hi <= lo {
		return lo
	}
	return lo + r.Intn(hi-lo+1)
}
func (r *Rng) Bool(p float64) bool { return r.Float() < p }
func (r *Rng) Float() float64      { return float64(r.U64()>>11) / float64(1<<53) }
func (r *Rng) Pick(n int) int      { return r.Intn(n) }
func (r *Rng) Fork(tag string) *Rng {
	h := fnv.New64a()
	h.Write([]byte(tag))
	return NewRng(r.s ^ h.Sum64())
}
func Mix(a, b uint64) uint64 {
	r := NewRng(a ^ (b * 0xD6E8FEB86659FD93))
	return r.U64()
}

// ---------------------------------------------------------------------------------------------------------------------

// Violation is a property violation found by an oracle.
type Violation struct {
	Rule   string `json:"rule"`
	Detail string `json:"detail"`
	Step   int    `json:"step"`
	SimMs  int64  `json:"sim_ms"`
}

type abortSignal struct{ reason string }

// SchedParams are the per-run scheduling knobs (all chosen from the seed by the plan generator).
type SchedParams struct {
	Chaos      float64 `json:"chaos"`                 // probability of choosing uniformly among enabled actions
	Preempt    int     `json:"preempt"`               // PCT-style budget of forced non-preferred choices at lock points
	SegMode    int     `json:"seg_mode"`              // 0 whole backlog, 1 random segments, 2 tiny segments (1..3 bytes)
	PermuteMap bool    `json:"permute_map"`           // permute map iteration orders
	DrainFirst bool    `json:"drain_first,omitempty"` // prefer pending socket writes over everything else (writer goroutines keep up with producers)
	MaxSteps   int     `json:"max_steps"`
	MaxSimSec  int     `json:"max_sim_sec"`
	// Free: parallel-burst mode (C20, race detector). Locks, socket writes, dials and accepts are NOT scheduling
	// points: lal's goroutines contend on the real mutexes on all cores, and the driver applies every enabled
	// delivery at once between two quiescent points. Which inputs form a burst stays seeded; the interleaving
	// inside a burst is left to the Go scheduler (this is the one place the simulator gives up schedule control).
	Free bool `json:"free,omitempty"`
	// AlignTick (parallel burst mode only): probability that a goroutine about to take its first woven lock first sleeps
	// until the next whole second of simulated time, i.e. wakes at the very instant lal's 1 s tickers fire. Under the
	// fake clock timer-driven goroutines otherwise only ever run while every other goroutine is blocked, and every
	// quiescent point orders what came before it with what comes after: without this, code that runs on a ticker is
	// never concurrent (for the race detector) with request handlers.
	AlignTick float64 `json:"align_tick,omitempty"`
	// YieldUnlock: probability that a mutex release is followed by a park point (0: never)
	YieldUnlock float64 `json:"yield_unlock,omitempty"`
	// YieldWrite: probability that handing a message to a connection's write queue is preceded by a park point
	YieldWrite float64 `json:"yield_write,omitempty"`
	// YieldNotify: probability that the in-process notify handler (the embedding application's code) is descheduled
	// before it handles an event (a slow handler: later events queue up behind it)
	YieldNotify float64 `json:"yield_notify,omitempty"`
}

type lockReq struct {
	m     interface{}
	gid   uint64
	gname string
	site  string
	ch    chan struct{}
	seq   int
}

// Stats counts what actually happened in a run (measured, for evidence).
type Stats struct {
	Yields       int            `json:"yields,omitempty"`
	Bursts       int            `json:"bursts,omitempty"`
	BurstMax     int            `json:"burst_max,omitempty"`
	Steps        int            `json:"steps"`
	Grants       int            `json:"grants"`
	Deliveries   int            `json:"deliveries"`
	Writes       int            `json:"writes"`
	BytesIn      int64          `json:"bytes_in"`
	BytesOut     int64          `json:"bytes_out"`
	Preemptions  int            `json:"preemptions"`
	ChaosPicks   int            `json:"chaos_picks"`
	MapPerms     int            `json:"map_perms"`
	ContendedMax int            `json:"contended_max"`
	SimMs        int64          `json:"sim_ms"`
	Faults       map[string]int `json:"faults"`
	Probes       map[string]int `json:"probes"`
}

// Kernel is one simulated world (one run).
type Kernel struct {
	Seed  uint64
	Rng   *Rng // scheduling decisions
	P     SchedParams
	Stats Stats

	mu           sync.Mutex // protects everything below; never held across a park
	conns        []*Conn
	listeners    map[string]*Listener
	stubs        map[string]StubFactory
	udpSt        *udpState
	lastUnlock   map[string]int
	watch        map[string][]int // lock-site substring -> steps at which such a lock was granted
	unlockSeq    uint64
	fsTrace      []string
	udpBusyPorts map[int]bool
	lockReqs     []*lockReq
	writeReqs    []*writeReq
	wake         chan struct{}
	seenMutex    map[interface{}]bool
	frozen       map[interface{}]bool // mutexes of a crashed server incarnation: never granted again
	frozenG      map[string]bool      // goroutines (by name) whose lock requests are not granted for the time being: a descheduled thread
	Epoch        int
	owners       map[interface{}]*lockReq
	gnames       map[uint64]string
	lockSeq      int
	mapCalls     map[string]int
	tasks        []*Task

	step        int
	stepA       atomic.Int64 // mirror of step for readers on other goroutines
	freeHeld    sync.Map     // parallel burst mode with AlignTick: goroutine id -> *int32, woven locks held or being taken
	freeSeq     atomic.Uint64
	alignTick   atomic.Uint64 // float64 bits of the AlignTick probability in force
	alignSleeps atomic.Int64
	startTime   time.Time
	lastGid     uint64
	digest      uint64
	schedHash   uint64
	trace       []string
	TraceOn     bool
	violation   *Violation
	invariants  []func()
	exited      bool
	exitCode    int
	preemptAt   map[int]bool
	lockPoints  int

	FS      *FS
	sandbox string

	// LockOrder accumulates held->requested edges between mutex sites (C20).
	LockOrder map[string]map[string]bool
	heldBy    map[uint64][]*lockReq
}

func goid() uint64 {
	var buf [64]byte
	n := runtime.Stack(buf[:], false)
	// "goroutine 123 ["
	s := string(buf[:n])
	s = strings.TrimPrefix(s, "goroutine ")
	i := strings.IndexByte(s, ' ')
	if i < 0 {
		return 0
	}
	id, _ := strconv.ParseUint(s[:i], 10, 64)
	return id
}

func newKernel(seed uint64, p SchedParams) *Kernel {
	if p.MaxSteps == 0 {
		p.MaxSteps = 20000
	}
	if p.MaxSimSec == 0 {
		p.MaxSimSec = 1800
	}
	k := &Kernel{
		Seed:      seed,
		Rng:       NewRng(Mix(seed, 0x5ced)),
		P:         p,
		listeners: map[string]*Listener{},
		stubs:     map[string]StubFactory{},
		owners:    map[interface{}]*lockReq{},
		seenMutex: map[interface{}]bool{},
		frozen:    map[interface{}]bool{},
		gnames:    map[uint64]string{},
		mapCalls:  map[string]int{},
		digest:    1469598103934665603,
		schedHash: 1469598103934665603,
		LockOrder: map[string]map[string]bool{},
		heldBy:    map[uint64][]*lockReq{},
		preemptAt: map[int]bool{},
	}
	k.Stats.Faults = map[string]int{}
	k.Stats.Probes = map[string]int{}
	// PCT-style: choose the lock points (by ordinal) at which a preemption is forced.
	pr := NewRng(Mix(seed, 0xbce))
	for i := 0; i < p.Preempt; i++ {
		k.preemptAt[pr.Intn(400)] = true
	}
	k.alignTick.Store(math.Float64bits(p.AlignTick))
	return k
}

func (k *Kernel) mixDigest(h *uint64, s string) {
	x := *h
	for i := 0; i < len(s); i++ {
		x ^= uint64(s[i])
		x *= 1099511628211
	}
	*h = x
}

// Mix folds component-level observations (inputs, schedules and outputs of checks that drive a lal component
// directly rather than through sockets) into the canonical digest.
func (k *Kernel) Mix(s string) { k.mixDigest(&k.digest, s); k.mixDigest(&k.schedHash, s) }

// IsAbort reports whether a recovered panic value is the kernel's own control-flow signal (violation / abort).
func IsAbort(r interface{}) bool { _, ok := r.(abortSignal); return ok }

// Digest returns the canonical digest of everything observable so far (actions + bytes).
func (k *Kernel) Digest() uint64    { return k.digest }
func (k *Kernel) SchedHash() uint64 { return k.schedHash }
func (k *Kernel) Step() int         { return k.step }

// StepAny is Step for goroutines other than the driver (callbacks from lal's own goroutines).
func (k *Kernel) StepAny() int { return int(k.stepA.Load()) }

func (k *Kernel) Trace() []string { return k.trace }

// NowMs is simulated milliseconds since the run started.
func (k *Kernel) NowMs() int64 { return time.Since(k.startTime).Milliseconds() }

func (k *Kernel) Probe(name string) { k.Stats.Probes[name]++ }
func (k *Kernel) Fault(name string) { k.Stats.Faults[name]++ }

// Violate records the first violation and stops the run.
func (k *Kernel) Violate(rule, format string, a ...interface{}) {
	if k.violation == nil {
		k.violation = &Violation{Rule: rule, Detail: fmt.Sprintf(format, a...), Step: k.step, SimMs: k.NowMs()}
	}
	panic(abortSignal{"violation"})
}

// Note adds a line to the trace (only when tracing).
func (k *Kernel) Note(format string, a ...interface{}) {
	if k.TraceOn {
		k.trace = append(k.trace, fmt.Sprintf(format, a...))
	}
}

// Tracing reports whether the trace is recorded.
func (k *Kernel) Tracing() bool { return k.TraceOn }

// traceFs records a file-system operation in the trace (lal goroutines call this; the trace mutex is k.mu).
func (k *Kernel) traceFs(s string) {
	k.mu.Lock()
	k.fsTrace = append(k.fsTrace, s)
	k.mu.Unlock()
}

// Abort stops the run without a verdict (budget exhausted, harness trouble).
func (k *Kernel) Abort(reason string) { panic(abortSignal{reason}) }

// AddInvariant registers a check evaluated at every quiescent point.
func (k *Kernel) AddInvariant(f func()) { k.invariants = append(k.invariants, f) }

// ---- goroutine naming ------------------------------------------------------------------------------------------------

func (k *Kernel) nameGoroutine(name string) {
	g := goid()
	k.mu.Lock()
	k.gnames[g] = name
	k.mu.Unlock()
}

// anonName names a goroutine that has not touched a simulated socket yet after its creation site and
// its creator ("created by F in goroutine N" from its own stack trace): deterministic as long as the
// creator has a deterministic name. Must be called on the goroutine itself, with k.mu held.
func (k *Kernel) anonName(g uint64) string {
	buf := make([]byte, 64<<10)
	n := runtime.Stack(buf, false)
	st := string(buf[:n])
	i := strings.LastIndex(st, "created by ")
	if i < 0 {
		return "g:root"
	}
	line := st[i+11:]
	if j := strings.IndexByte(line, '\n'); j >= 0 {
		line = line[:j]
	}
	fn, parent := line, ""
	if j := strings.Index(line, " in goroutine "); j >= 0 {
		fn = line[:j]
		pid, _ := strconv.ParseUint(strings.TrimSpace(line[j+14:]), 10, 64)
		if pn, ok := k.gnames[pid]; ok {
			parent = pn
		} else {
			parent = "?"
		}
	}
	if j := strings.LastIndex(fn, "/"); j >= 0 {
		fn = fn[j+1:]
	}
	return "g:" + parent + ">" + fn
}

// ---- cooperative mutexes ---------------------------------------------------------------------------------------------

// freeAlign implements SchedParams.AlignTick (see there). Only a goroutine that holds no woven lock sleeps: one that
// slept while holding a mutex would leave its waiters blocked on a real mutex, which is not a durable block, and the
// fake clock would never advance.
func (k *Kernel) freeAlign() {
	g := goid()
	v, _ := k.freeHeld.LoadOrStore(g, new(int32))
	cnt := v.(*int32)
	if atomic.LoadInt32(cnt) == 0 {
		p := math.Float64frombits(k.alignTick.Load())
		n := k.freeSeq.Add(1)
		if p > 0 && float64(Mix(k.Seed, 0xa11+n)%10000)/10000 < p {
			el := time.Since(k.startTime)
			time.Sleep((el/time.Second+1)*time.Second - el)
			k.alignSleeps.Add(1)
		}
	}
	atomic.AddInt32(cnt, 1)
}

// SetAlignTick changes the AlignTick probability during a run (0 switches it off, e.g. before calls whose completion
// is judged without letting time pass).
func (k *Kernel) SetAlignTick(p float64) { k.alignTick.Store(math.Float64bits(p)) }

// AlignSleeps is the number of times a goroutine was aligned with the tick (evidence).
func (k *Kernel) AlignSleeps() int { return int(k.alignSleeps.Load()) }

func (k *Kernel) lockHook(m interface{}, site string) {
	if k.P.Free {
		if k.P.AlignTick > 0 {
			k.freeAlign()
		}
		return
	}
	g := goid()
	req := &lockReq{m: m, gid: g, site: site, ch: make(chan struct{})}
	k.mu.Lock()
	name, ok := k.gnames[g]
	if !ok {
		name = k.anonName(g)
		k.gnames[g] = name
	}
	req.gname = name
	k.lockSeq++
	req.seq = k.lockSeq
	k.seenMutex[m] = true
	k.lockReqs = append(k.lockReqs, req)
	k.mu.Unlock()
	k.poke()
	<-req.ch
}

func (k *Kernel) unlockHook(m interface{}) {
	if k.P.Free {
		if k.P.AlignTick > 0 {
			if v, ok := k.freeHeld.Load(goid()); ok {
				atomic.AddInt32(v.(*int32), -1)
			}
		}
		return
	}
	k.mu.Lock()
	if r := k.owners[m]; r != nil {
		if k.lastUnlock == nil {
			k.lastUnlock = map[string]int{}
		}
		k.lastUnlock[r.gname] = k.step
		delete(k.owners, m)
		hs := k.heldBy[r.gid]
		for i := len(hs) - 1; i >= 0; i-- {
			if hs[i] == r {
				hs = append(hs[:i], hs[i+1:]...)
				break
			}
		}
		k.heldBy[r.gid] = hs
	}
	// Goroutines are only pre-empted at park points. A real scheduler can also switch right after a mutex is
	// released (the classic window of "published under the lock, finished outside it"); with YieldUnlock a seeded
	// subset of unlocks becomes a park point too.
	yield := false
	if k.P.YieldUnlock > 0 {
		k.unlockSeq++
		yield = float64(Mix(k.Seed, 0x751d+k.unlockSeq)%10000)/10000 < k.P.YieldUnlock
	}
	k.mu.Unlock()
	if yield {
		tok := new(int)
		k.lockHook(tok, "yield@unlock")
		k.mu.Lock()
		if r := k.owners[tok]; r != nil {
			delete(k.owners, tok)
			hs := k.heldBy[r.gid]
			for i := len(hs) - 1; i >= 0; i-- {
				if hs[i] == r {
					hs = append(hs[:i], hs[i+1:]...)
					break
				}
			}
			k.heldBy[r.gid] = hs
		}
		delete(k.seenMutex, tok)
		k.Stats.Yields++
		k.mu.Unlock()
	}
}

// YieldPoint is a seeded park point outside lock operations (used for "about to queue a write"): with probability p
// the calling goroutine parks until the driver grants it, so that other goroutines can run in between.
func (k *Kernel) YieldPoint(site string, p float64) {
	if k.P.Free || p <= 0 {
		return
	}
	k.mu.Lock()
	k.unlockSeq++
	yield := float64(Mix(k.Seed, 0x9e17+k.unlockSeq)%10000)/10000 < p
	k.mu.Unlock()
	if !yield {
		return
	}
	tok := new(int)
	k.lockHook(tok, site)
	k.mu.Lock()
	if r := k.owners[tok]; r != nil {
		delete(k.owners, tok)
		hs := k.heldBy[r.gid]
		for i := len(hs) - 1; i >= 0; i-- {
			if hs[i] == r {
				hs = append(hs[:i], hs[i+1:]...)
				break
			}
		}
		k.heldBy[r.gid] = hs
	}
	delete(k.seenMutex, tok)
	k.Stats.Yields++
	k.mu.Unlock()
}

func (k *Kernel) keysHook(site string, n int) []int {
	if !k.P.PermuteMap {
		return nil
	}
	k.mu.Lock()
	c := k.mapCalls[site]
	k.mapCalls[site] = c + 1
	k.Stats.MapPerms++
	k.mu.Unlock()
	r := NewRng(Mix(k.Seed, 0x3a9)).Fork(site + "#" + strconv.Itoa(c))
	p := make([]int, n)
	for i := range p {
		p[i] = i
	}
	for i := n - 1; i > 0; i-- {
		j := r.Intn(i + 1)
		p[i], p[j] = p[j], p[i]
	}
	return p
}

type writeReq struct {
	dead bool
	c    *Conn
	dial string   // non-empty: this is a pending outbound dial to that address, not a write
	u    *UDPSock // non-nil: a datagram write on that socket
	ch   chan struct{}
	gid  uint64
}

// parkDial parks the calling goroutine until the driver lets its outbound connection attempt happen
// (so that stub factories never run concurrently with each other or with the driver).
func (k *Kernel) parkDial(addr string) {
	if k.P.Free {
		return
	}
	r := &writeReq{dial: addr, ch: make(chan struct{}), gid: goid()}
	k.mu.Lock()
	k.writeReqs = append(k.writeReqs, r)
	k.mu.Unlock()
	k.poke()
	<-r.ch
}

// parkWrite parks the calling goroutine until the driver grants its write on c.
func (k *Kernel) parkWrite(c *Conn) {
	if k.P.Free {
		return
	}
	r := &writeReq{c: c, ch: make(chan struct{}), gid: goid()}
	k.mu.Lock()
	k.writeReqs = append(k.writeReqs, r)
	k.mu.Unlock()
	k.poke()
	<-r.ch
}

// parkUDPWrite parks the calling goroutine until the driver grants its datagram write on s.
func (k *Kernel) parkUDPWrite(s *UDPSock) {
	if k.P.Free {
		return
	}
	r := &writeReq{u: s, ch: make(chan struct{}), gid: goid()}
	k.mu.Lock()
	k.writeReqs = append(k.writeReqs, r)
	k.mu.Unlock()
	k.poke()
	<-r.ch
}

// goroutineBusy reports whether a goroutine with this name waits for or holds a cooperative mutex.
// WatchGrants records, from now on, the steps at which a lock whose acquisition site contains sub is granted
// (oracles use it to learn when lal entered a particular function); GrantSteps returns them.
func (k *Kernel) WatchGrants(sub string) {
	k.mu.Lock()
	if k.watch == nil {
		k.watch = map[string][]int{}
	}
	if _, ok := k.watch[sub]; !ok {
		k.watch[sub] = nil
	}
	k.mu.Unlock()
}

func (k *Kernel) GrantSteps(sub string) []int {
	k.mu.Lock()
	defer k.mu.Unlock()
	return append([]int(nil), k.watch[sub]...)
}

// LastUnlockStep is the step at which a goroutine of that name last released a woven mutex (-1: never).
func (k *Kernel) LastUnlockStep(name string) int {
	k.mu.Lock()
	defer k.mu.Unlock()
	if s, ok := k.lastUnlock[name]; ok {
		return s
	}
	return -1
}

func (k *Kernel) goroutineBusy(name string) bool {
	k.mu.Lock()
	defer k.mu.Unlock()
	for _, r := range k.lockReqs {
		if r.gname == name {
			return true
		}
	}
	for _, r := range k.owners {
		if r.gname == name {
			return true
		}
	}
	return false
}

// Crash models the death of the server process: everything the current incarnation could still do is
// frozen for good (its mutexes are never granted again, its sockets are dead, its listeners gone), only
// the simulated disk survives. A fresh server can then be started in the same bubble.
func (k *Kernel) Crash() {
	k.mu.Lock()
	for m := range k.seenMutex {
		k.frozen[m] = true
	}
	for _, w := range k.writeReqs {
		w.dead = true
	}
	for _, c := range k.conns {
		c.dead = true
	}
	k.crashUDP()
	ls := k.listeners
	k.listeners = map[string]*Listener{}
	k.stubs = map[string]StubFactory{}
	k.Epoch++
	k.mu.Unlock()
	for _, l := range ls {
		l.mu.Lock()
		l.closed = true
		l.waiting = nil
		l.cond.Broadcast()
		l.mu.Unlock()
	}
	k.Stats.Faults["server_crash"]++
}

// ---- tasks: harness-initiated calls into lal run on their own goroutine -------------------------------------------------

type Task struct {
	Name string
	done bool
	mu   sync.Mutex
}

func (t *Task) Done() bool {
	t.mu.Lock()
	defer t.mu.Unlock()
	return t.done
}

// Go runs fn on its own named goroutine inside the bubble (the driver must never call lal APIs that
// take cooperative locks itself).
func (k *Kernel) Go(name string, fn func()) *Task {
	t := &Task{Name: name}
	k.tasks = append(k.tasks, t)
	go func() {
		k.nameGoroutine("task:" + name)
		defer func() {
			t.mu.Lock()
			t.done = true
			t.mu.Unlock()
		}()
		fn()
	}()
	return t
}

// ---- the driver loop -------------------------------------------------------------------------------------------------

type action struct {
	kind string // grant | deliver | close | reset | window
	req  *lockReq
	wreq *writeReq
	lis  *Listener
	conn *Conn
	udp  *udpAction
	key  string // canonical sort key / description
}

func (k *Kernel) enabledActions() []action {
	k.mu.Lock()
	defer k.mu.Unlock()
	var acts []action
	// grants: for each free mutex with waiters
	// canonical order of waiters: goroutine name, lock site, then goroutine creation order (goroutine ids
	// grow in creation order, and since only one lal goroutine runs at a time creation order is
	// deterministic even though the absolute ids are not)
	sort.SliceStable(k.lockReqs, func(i, j int) bool {
		a, b := k.lockReqs[i], k.lockReqs[j]
		if a.gname != b.gname {
			return a.gname < b.gname
		}
		if a.site != b.site {
			return a.site < b.site
		}
		return a.gid < b.gid
	})
	contended := 0
	for i, r := range k.lockReqs {
		if k.frozen[r.m] || k.frozenG[r.gname] {
			continue
		}
		if i > 0 && k.lockReqs[i-1].gname == r.gname && k.lockReqs[i-1].site == r.site && !k.frozen[k.lockReqs[i-1].m] {
			k.Stats.Probes["waiters_ordered_by_creation"]++
		}
		if _, held := k.owners[r.m]; held {
			contended++
			continue
		}
		acts = append(acts, action{kind: "grant", req: r, key: "grant " + r.gname + " " + r.site})
	}
	if contended > k.Stats.ContendedMax {
		k.Stats.ContendedMax = contended
	}
	sort.SliceStable(k.writeReqs, func(i, j int) bool {
		a, b := k.writeReqs[i], k.writeReqs[j]
		if (a.dial != "") != (b.dial != "") {
			return a.dial != ""
		}
		if a.dial != "" {
			return a.dial < b.dial
		}
		if (a.u != nil) != (b.u != nil) {
			return a.u == nil
		}
		if a.u != nil {
			return a.u.port < b.u.port
		}
		return a.c.id < b.c.id
	})
	for i, w := range k.writeReqs {
		if w.dead || (w.c != nil && w.c.dead) || (w.u != nil && w.u.dead) {
			continue
		}
		if w.u != nil {
			if i > 0 && k.writeReqs[i-1].u == w.u {
				continue
			}
			acts = append(acts, action{kind: "write", wreq: w, key: "uwrite " + w.u.name})
			continue
		}
		if w.dial != "" {
			acts = append(acts, action{kind: "write", wreq: w, key: "dial " + w.dial})
			continue
		}
		if i > 0 && k.writeReqs[i-1].c == w.c && k.writeReqs[i-1].u == nil && k.writeReqs[i-1].dial == "" {
			continue // one pending write per connection is offered at a time (arrival order within a conn)
		}
		acts = append(acts, action{kind: "write", wreq: w, key: "write " + w.c.name})
	}
	var ports []string
	for p := range k.listeners {
		ports = append(ports, p)
	}
	sort.Strings(ports)
	for _, p := range ports {
		l := k.listeners[p]
		l.mu.Lock()
		if len(l.waiting) > 0 && !l.closed {
			acts = append(acts, action{kind: "accept", lis: l, key: "accept " + p})
		}
		l.mu.Unlock()
	}
	for _, c := range k.conns {
		if c.dead {
			continue
		}
		c.mu.Lock()
		if !c.closedLocal {
			if len(c.pending) > 0 && !c.holdInbound {
				acts = append(acts, action{kind: "deliver", conn: c, key: "deliver " + c.name})
			} else if c.pendingFin && !c.rdEOF && !c.holdInbound {
				acts = append(acts, action{kind: "close", conn: c, key: "close " + c.name})
			}
			if c.pendingRst && !c.rdReset {
				acts = append(acts, action{kind: "reset", conn: c, key: "reset " + c.name})
			}
		}
		c.mu.Unlock()
	}
	acts = append(acts, k.udpActions()...)
	return acts
}

// granting the same mutex to a waiter whose mutex is free but several waiters exist for it: only one
// of them can be granted per step; the others stay pending (enabledActions lists each, choose picks one).

func (k *Kernel) choose(acts []action) action {
	if len(acts) == 1 {
		return acts[0]
	}
	// preferred: continue the goroutine that ran last if it waits for a grant, else first grant, else first action
	pref := 0
	found := false
	if k.P.DrainFirst {
		for i, a := range acts {
			if a.kind == "write" && a.wreq.dial == "" {
				pref, found = i, true
				break
			}
		}
	}
	for i, a := range acts {
		if found {
			break
		}
		if a.kind == "grant" && strings.HasPrefix(a.req.site, "yield@") {
			continue // a goroutine that yields wants the others to go first
		}
		if (a.kind == "grant" && a.req.gid == k.lastGid) || (a.kind == "write" && a.wreq.gid == k.lastGid) {
			pref, found = i, true
			break
		}
	}
	if !found {
		for i, a := range acts {
			if (a.kind == "grant" && !strings.HasPrefix(a.req.site, "yield@")) || a.kind == "write" {
				pref, found = i, true
				break
			}
		}
	}
	if !found {
		for i, a := range acts {
			if a.kind == "grant" {
				pref, found = i, true
				break
			}
		}
	}
	hasGrant := found
	if hasGrant {
		k.lockPoints++
		if k.preemptAt[k.lockPoints] {
			// forced preemption: anything but the preferred action
			k.Stats.Preemptions++
			j := k.Rng.Intn(len(acts) - 1)
			if j >= pref {
				j++
			}
			return acts[j]
		}
	}
	if k.P.Chaos > 0 && k.Rng.Bool(k.P.Chaos) {
		k.Stats.ChaosPicks++
		return acts[k.Rng.Intn(len(acts))]
	}
	if !hasGrant {
		// among deliveries pick pseudo-randomly but only when chaos is on; else canonical first
		return acts[0]
	}
	return acts[pref]
}

func (k *Kernel) apply(a action) {
	k.mixDigest(&k.schedHash, a.key)
	k.mixDigest(&k.digest, a.key)
	if k.TraceOn {
		k.trace = append(k.trace, fmt.Sprintf("%d %s", k.step, a.key))
	}
	switch a.kind {
	case "grant":
		k.mu.Lock()
		r := a.req
		for sub := range k.watch {
			if strings.Contains(r.site, sub) {
				k.watch[sub] = append(k.watch[sub], k.step)
			}
		}
		for i, x := range k.lockReqs {
			if x == r {
				k.lockReqs = append(k.lockReqs[:i], k.lockReqs[i+1:]...)
				break
			}
		}
		k.owners[r.m] = r
		for _, h := range k.heldBy[r.gid] {
			e := k.LockOrder[lockClass(h.site)]
			if e == nil {
				e = map[string]bool{}
				k.LockOrder[lockClass(h.site)] = e
			}
			e[lockClass(r.site)] = true
		}
		k.heldBy[r.gid] = append(k.heldBy[r.gid], r)
		k.lastGid = r.gid
		k.mu.Unlock()
		k.Stats.Grants++
		close(r.ch)
	case "write":
		k.mu.Lock()
		for i, x := range k.writeReqs {
			if x == a.wreq {
				k.writeReqs = append(k.writeReqs[:i], k.writeReqs[i+1:]...)
				break
			}
		}
		k.lastGid = a.wreq.gid
		k.mu.Unlock()
		k.Stats.Writes++
		close(a.wreq.ch)
	case "accept":
		a.lis.letOneThrough()
		k.lastGid = 0
	case "deliver":
		n := a.conn.deliver(k)
		k.Stats.Deliveries++
		atomic.AddInt64(&k.Stats.BytesIn, int64(n))
		k.lastGid = 0
	case "close":
		a.conn.deliverFin()
	case "reset":
		a.conn.deliverRst()
	case "udp":
		k.applyUDP(a.udp)
	}
}

// lockClass maps a lock site "pkg.(*T).F@file:line" to its mutex class "pkg.T" (approximation used
// only for the lock-order graph).
func lockClass(site string) string {
	i := strings.Index(site, ")")
	if j := strings.Index(site, "(*"); j >= 0 && i > j {
		return site[:j] + site[j+2:i]
	}
	return site
}

// collect hands lal's new output to the actors, in canonical connection order.
func (k *Kernel) collect() {
	if k.TraceOn {
		k.mu.Lock()
		k.trace = append(k.trace, k.fsTrace...)
		k.fsTrace = nil
		k.mu.Unlock()
	}
	for i := 0; i < len(k.conns); i++ { // handlers may add conns
		c := k.conns[i]
		if c.dead {
			continue
		}
		c.mu.Lock()
		out := c.out
		c.out = nil
		closedNow := c.closedLocal && !c.closeSeen
		if closedNow {
			c.closeSeen = true
		}
		c.mu.Unlock()
		if len(out) > 0 {
			k.Stats.BytesOut += int64(len(out))
			h := fnv.New64a()
			h.Write(out)
			k.mixDigest(&k.digest, fmt.Sprintf("out %s %d %x", c.name, len(out), h.Sum64()))
			if k.TraceOn {
				k.trace = append(k.trace, fmt.Sprintf("  out %s %d %x", c.name, len(out), h.Sum64()))
				if os.Getenv("SIMLAL_DUMP") != "" {
					k.trace = append(k.trace, fmt.Sprintf("  dump %q", out))
				}
			}
			c.TotalOut += int64(len(out))
			if c.handler != nil {
				c.handler.OnData(c, out)
			}
		}
		if closedNow {
			k.mixDigest(&k.digest, "closed "+c.name)
			if c.handler != nil {
				c.handler.OnClose(c)
			}
		}
	}
	k.collectUDP()
	for _, inv := range k.invariants {
		inv()
	}
}

// StepOnce waits for quiescence, lets the actors observe, and performs one enabled action.
// It returns false when nothing (other than the passage of time) is enabled.
func (k *Kernel) StepOnce() bool {
	synctest.Wait()
	if k.exited {
		k.Violate("process-exit", "lal called os.Exit(%d)", k.exitCode)
	}
	k.collect()
	acts := k.enabledActions()
	if len(acts) == 0 {
		return false
	}
	k.step++
	k.stepA.Store(int64(k.step))
	k.Stats.Steps++
	if k.step%500 == 0 {
		// heartbeat for the orchestrator's stall watchdog: the run is slow, not stuck
		os.Stdout.WriteString("BEAT\n")
	}
	if k.step > k.P.MaxSteps {
		k.Abort("step budget exhausted")
	}
	if k.P.Free {
		// a burst: every enabled delivery / accept / close at once, in a seeded order
		for i := len(acts) - 1; i > 0; i-- {
			j := k.Rng.Intn(i + 1)
			acts[i], acts[j] = acts[j], acts[i]
		}
		for _, a := range acts {
			k.apply(a)
		}
		k.Stats.Bursts++
		if len(acts) > k.Stats.BurstMax {
			k.Stats.BurstMax = len(acts)
		}
		return true
	}
	a := k.choose(acts)
	k.apply(a)
	return true
}

// Settle runs until no action other than time passing is enabled.
func (k *Kernel) Settle() {
	for k.StepOnce() {
	}
}

// Advance lets d of simulated time pass. The driver sleeps on the fake clock and is woken at once
// (at the simulated instant) whenever a lal goroutine parks on a lock or a socket write, so timer-driven
// work inside lal happens at its own simulated time, not at the end of the driver's sleep.
func (k *Kernel) Advance(d time.Duration) {
	k.Settle()
	end := time.Now().Add(d)
	for {
		rem := time.Until(end)
		if rem <= 0 {
			break
		}
		if time.Since(k.startTime) > time.Duration(k.P.MaxSimSec)*time.Second {
			k.Abort("simulated-time budget exhausted")
		}
		t := time.NewTimer(rem)
		select {
		case <-t.C:
		case <-k.wake:
			t.Stop()
		}
		k.Settle()
	}
	k.Stats.SimMs = k.NowMs()
}

// Deschedule stops (on=true) or resumes granting lock requests of the task's goroutine: the thread is descheduled at its
// next lock acquisition, possibly while it holds other locks, and everything else - timers included - goes on
// (Advance works as usual meanwhile). It models a stalled thread deterministically.
func (k *Kernel) Deschedule(t *Task, on bool) {
	k.mu.Lock()
	if k.frozenG == nil {
		k.frozenG = map[string]bool{}
	}
	if on {
		k.frozenG["task:"+t.Name] = true
	} else {
		delete(k.frozenG, "task:"+t.Name)
	}
	k.mu.Unlock()
}

func (k *Kernel) poke() {
	select {
	case k.wake <- struct{}{}:
	default:
	}
}

// Blocked reports the lock requests that cannot be granted (for deadlock detection).
func (k *Kernel) BlockedLockWaiters() []string {
	k.mu.Lock()
	defer k.mu.Unlock()
	var out []string
	for _, r := range k.lockReqs {
		if o, held := k.owners[r.m]; held {
			out = append(out, fmt.Sprintf("%s at %s waits for mutex held by %s (taken at %s)", r.gname, r.site, o.gname, o.site))
		}
	}
	return out
}

// ---- running a world ---------------------------------------------------------------------------------------------------

// Result of one simulated run.
type Result struct {
	Seed      uint64     `json:"seed"`
	Violation *Violation `json:"violation,omitempty"`
	Aborted   string     `json:"aborted,omitempty"`
	Digest    string     `json:"digest"`
	SchedHash string     `json:"sched_hash"`
	Stats     Stats      `json:"stats"`
	Trace     []string   `json:"trace,omitempty"`
}

var runMu sync.Mutex

// RunBubble executes scenario inside a fresh synctest bubble with the kernel's seams installed.
// run is the function that enters the bubble (synctest.Test needs a *testing.T, so the caller supplies it).
func RunBubble(seed uint64, p SchedParams, enter func(func()), scenario func(k *Kernel)) (res Result) {
	return RunBubbleTrace(seed, p, false, enter, scenario)
}

func RunBubbleTrace(seed uint64, p SchedParams, trace bool, enter func(func()), scenario func(k *Kernel)) (res Result) {
	runMu.Lock()
	defer runMu.Unlock()
	k := newKernel(seed, p)
	k.TraceOn = trace
	res.Seed = seed
	finish := func() {
		res.Violation = k.violation
		res.Digest = fmt.Sprintf("%016x", k.digest)
		res.SchedHash = fmt.Sprintf("%016x", k.schedHash)
		k.Stats.SimMs = k.NowMs()
		res.Stats = k.Stats
		res.Trace = k.trace
	}
	func() {
		defer func() {
			// the bubble ends with blocked goroutines (lal keeps background loops): expected
			if r := recover(); r != nil {
				s := fmt.Sprint(r)
				if !strings.Contains(s, "blocked goroutines remain") && !strings.Contains(s, "deadlock") {
					panic(r)
				}
			}
		}()
		enter(func() {
			k.startTime = time.Now()
			k.wake = make(chan struct{}, 1)
			k.installSeams()
			defer k.removeSeams()
			defer k.cleanupSandbox()
			defer finish()
			defer func() {
				if r := recover(); r != nil {
					if a, ok := r.(abortSignal); ok {
						if a.reason != "violation" {
							res.Aborted = a.reason
						}
						return
					}
					panic(r)
				}
			}()
			scenario(k)
		})
	}()
	return res
}

func (k *Kernel) installSeams() {
	zzsim.SetRandSeed(int64(Mix(k.Seed, 0x7a11) | 1))
	zzsim.LockHook = k.lockHook
	zzsim.UnlockHook = k.unlockHook
	zzsim.KeysHook = k.keysHook
	zzsim.UnorderedKeysHook = func(site, typ string) {
		panic(fmt.Sprintf("simlal: map range over keys of type %s at %s has no canonical order", typ, site))
	}
	zzsim.NetListen = k.netListen
	zzsim.NetDial = k.netDial
	zzsim.NetDialTimeout = k.netDialTimeout
	zzsim.OsExit = func(code int) {
		k.exited = true
		k.exitCode = code
		select {} // park the caller forever; the driver reports at the next quiescent point
	}
	k.installFS()
	k.installUDP()
}

func (k *Kernel) removeSeams() {
	// Leave the hooks pointing at this (dead) kernel: goroutines of the finished bubble stay parked
	// and must never touch the real network. The next run overwrites them.
}

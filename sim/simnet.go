package sim

import (
	"errors"
	"fmt"
	"io"
	"net"
	"os"
	"sync"
	"syscall"
	"time"
)

// ---- addresses -------------------------------------------------------------------------------------------------------

type Addr struct {
	Net  string
	Host string
	Port int
}

func (a Addr) Network() string { return a.Net }
func (a Addr) String() string  { return fmt.Sprintf("%s:%d", a.Host, a.Port) }

// ---- TCP connection: lal-side endpoint of a connection whose peer is a passive actor ----------------------------------

// ConnHandler is the actor side of a simulated connection. It is only ever called by the driver
// goroutine at quiescent points and must not block.
type ConnHandler interface {
	OnData(c *Conn, b []byte) // bytes lal wrote since the last quiescent point
	OnClose(c *Conn)          // lal closed its end
}

type timeoutError struct{}

func (timeoutError) Error() string   { return "i/o timeout" }
func (timeoutError) Timeout() bool   { return true }
func (timeoutError) Temporary() bool { return true }

var errTimeout error = &net.OpError{Op: "read", Net: "tcp", Err: os.ErrDeadlineExceeded}

type Conn struct {
	k      *Kernel
	id     int
	name   string
	local  Addr
	remote Addr

	mu   sync.Mutex
	cond *sync.Cond

	// inbound: actor -> lal
	pending     []byte // queued by the actor, not yet delivered
	pendingFin  bool   // FIN after pending
	pendingRst  bool   // RST (deliverable at once, discards pending)
	holdInbound bool   // actor-imposed pause of delivery (fault: delay)
	readable    []byte
	rdEOF       bool
	rdReset     bool

	// outbound: lal -> actor
	out      []byte
	win      int  // remaining send window; <0 unlimited
	peerGone bool // actor vanished/closed: writes fail

	closedLocal  bool
	dead         bool // belongs to a crashed server incarnation
	closeSeen    bool
	readerWait   int
	writerWait   int
	blockedSince time.Time // when the Write call in progress first had to wait for window (zero: none waiting)
	rdDeadline   time.Time
	wrDeadline   time.Time
	rdTimer      *time.Timer
	wrTimer      *time.Timer

	handler ConnHandler

	// observable bookkeeping for oracles
	TotalIn       int64 // bytes delivered to lal
	TotalConsumed int64 // bytes lal's Read calls took
	TotalOut      int64 // bytes lal wrote (collected)
	TotalQueued   int64 // bytes the actor queued
	segRng        *Rng
	SegMode       int // -1: use kernel default
	lastDelivery  int // step of the last delivery
}

func (k *Kernel) newConn(name string, local, remote Addr, h ConnHandler) *Conn {
	c := &Conn{k: k, name: name, local: local, remote: remote, handler: h, win: -1, SegMode: -1}
	c.cond = sync.NewCond(&c.mu)
	k.mu.Lock()
	c.id = len(k.conns)
	k.conns = append(k.conns, c)
	k.mu.Unlock()
	c.segRng = NewRng(Mix(k.Seed, 0x5e6)).Fork(name)
	return c
}

func (c *Conn) Name() string             { return c.name }
func (c *Conn) SetHandler(h ConnHandler) { c.handler = h }

// ---- actor-side API (driver goroutine only) ----

// Send queues bytes for delivery to lal; the scheduler decides when and in which segments.
func (c *Conn) Send(b []byte) {
	c.mu.Lock()
	c.pending = append(c.pending, b...)
	c.TotalQueued += int64(len(b))
	c.mu.Unlock()
}

// PendingLen is the number of queued, undelivered bytes.
func (c *Conn) PendingLen() int {
	c.mu.Lock()
	defer c.mu.Unlock()
	return len(c.pending)
}

// CloseByPeer queues an orderly close (FIN) after the pending bytes; lal's writes fail afterwards.
func (c *Conn) CloseByPeer() {
	c.mu.Lock()
	c.pendingFin = true
	c.mu.Unlock()
}

// ResetByPeer queues a connection reset: pending bytes are discarded when it is delivered.
func (c *Conn) ResetByPeer() {
	c.mu.Lock()
	c.pendingRst = true
	c.mu.Unlock()
}

// Hold pauses / resumes delivery of queued inbound bytes (models a delayed peer).
func (c *Conn) Hold(on bool) {
	c.mu.Lock()
	c.holdInbound = on
	c.mu.Unlock()
}

// SetWindow sets how many more bytes lal may write before its Write blocks (<0: unlimited).
func (c *Conn) SetWindow(n int) {
	c.mu.Lock()
	c.win = n
	c.cond.Broadcast()
	c.mu.Unlock()
}

// PeerEnded reports whether the actor side ended the connection (FIN or RST queued or delivered).
func (c *Conn) PeerEnded() bool {
	c.mu.Lock()
	defer c.mu.Unlock()
	return c.pendingFin || c.pendingRst || c.rdEOF || c.rdReset
}

// Window returns the remaining send window (<0: unlimited).
func (c *Conn) Window() int {
	c.mu.Lock()
	defer c.mu.Unlock()
	return c.win
}

// AddWindow lets lal write n more bytes (a slowly reading peer).
func (c *Conn) AddWindow(n int) {
	c.mu.Lock()
	if c.win >= 0 {
		c.win += n
	}
	c.cond.Broadcast()
	c.mu.Unlock()
}

// ClosedByLal reports whether lal closed its end.
func (c *Conn) ClosedByLal() bool {
	c.mu.Lock()
	defer c.mu.Unlock()
	return c.closedLocal
}

// Idle reports that everything delivered so far was consumed and lal's reader is blocked waiting
// for more (so everything delivered so far has been fully processed by the reading goroutine).
func (c *Conn) Idle() bool {
	c.mu.Lock()
	idle := len(c.readable) == 0 && c.readerWait > 0 && !c.closedLocal
	c.mu.Unlock()
	if !idle {
		return false
	}
	return !c.k.goroutineBusy("conn:" + c.name)
}

// Idle2 reports that no lal goroutine named after this connection still waits for or holds a mutex
// (its teardown callbacks have completed).
func (c *Conn) Idle2() bool { return !c.k.goroutineBusy("conn:" + c.name) }

// LastUnlockStep: the step at which a lal goroutine named after this connection last released a mutex.
func (c *Conn) LastUnlockStep() int { return c.k.LastUnlockStep("conn:" + c.name) }

// WriterBlocked reports that a lal goroutine is blocked in Write on this connection.
func (c *Conn) WriterBlocked() bool {
	c.mu.Lock()
	defer c.mu.Unlock()
	return c.writerWait > 0
}

func (c *Conn) segMode() int {
	if c.SegMode >= 0 {
		return c.SegMode
	}
	return c.k.P.SegMode
}

func (c *Conn) deliver(k *Kernel) int {
	c.mu.Lock()
	defer c.mu.Unlock()
	n := len(c.pending)
	if n == 0 {
		return 0 // (burst mode: an earlier action of the same burst, e.g. a reset, already emptied it)
	}
	switch c.segMode() {
	case 1:
		// random segment, biased to small and to whole
		switch c.segRng.Intn(4) {
		case 0:
			n = 1 + c.segRng.Intn(minInt(n, 16))
		case 1:
			n = 1 + c.segRng.Intn(n)
		case 2:
			n = 1 + c.segRng.Intn(minInt(n, 1500))
		}
	case 2:
		// tiny segments for the first few KiB of a connection (handshake, commands, first media), then random
		if c.TotalIn < 6000 {
			n = 1 + c.segRng.Intn(minInt(n, 3))
		} else if c.segRng.Intn(3) != 0 {
			n = 1 + c.segRng.Intn(n)
		}
	}
	c.readable = append(c.readable, c.pending[:n]...)
	c.pending = c.pending[n:]
	if len(c.pending) == 0 {
		c.pending = nil
	}
	c.TotalIn += int64(n)
	c.lastDelivery = k.step
	c.cond.Broadcast()
	return n
}

func minInt(a, b int) int {
	if a < b {
		return a
	}
	return b
}

func (c *Conn) deliverFin() {
	c.mu.Lock()
	c.rdEOF = true
	c.peerGone = true
	c.cond.Broadcast()
	c.mu.Unlock()
}

func (c *Conn) deliverRst() {
	c.mu.Lock()
	c.pending = nil
	c.readable = nil
	c.rdReset = true
	c.peerGone = true
	c.cond.Broadcast()
	c.mu.Unlock()
}

// ---- net.Conn (lal side) ----

var errClosed = &net.OpError{Op: "read", Net: "tcp", Err: net.ErrClosed}

func (c *Conn) Read(b []byte) (int, error) {
	c.k.nameGoroutine("conn:" + c.name)
	c.mu.Lock()
	defer c.mu.Unlock()
	for {
		if c.closedLocal {
			return 0, errClosed
		}
		if len(c.readable) > 0 {
			n := copy(b, c.readable)
			c.TotalConsumed += int64(n)
			c.readable = c.readable[n:]
			if len(c.readable) == 0 {
				c.readable = nil
			}
			return n, nil
		}
		if c.rdReset {
			return 0, &net.OpError{Op: "read", Net: "tcp", Err: syscall.ECONNRESET}
		}
		if c.rdEOF {
			return 0, io.EOF
		}
		if !c.rdDeadline.IsZero() && !time.Now().Before(c.rdDeadline) {
			return 0, errTimeout
		}
		if len(b) == 0 {
			return 0, nil
		}
		c.readerWait++
		c.cond.Wait()
		c.readerWait--
	}
}

func (c *Conn) Write(b []byte) (int, error) {
	// Every write is a scheduling point: the writing goroutine parks until the driver lets this
	// write happen, so that writer goroutines never run concurrently with each other or with the
	// goroutine that fed them (keeps runs deterministic even if lal shares buffers between writers).
	c.k.parkWrite(c)
	c.mu.Lock()
	defer c.mu.Unlock()
	total := 0
	for {
		if c.closedLocal {
			return total, &net.OpError{Op: "write", Net: "tcp", Err: net.ErrClosed}
		}
		if c.peerGone {
			return total, &net.OpError{Op: "write", Net: "tcp", Err: syscall.EPIPE}
		}
		if !c.wrDeadline.IsZero() && !time.Now().Before(c.wrDeadline) {
			return total, &net.OpError{Op: "write", Net: "tcp", Err: os.ErrDeadlineExceeded}
		}
		if c.win < 0 {
			c.out = append(c.out, b...)
			return total + len(b), nil
		}
		if c.win > 0 {
			n := minInt(c.win, len(b))
			c.out = append(c.out, b[:n]...)
			c.win -= n
			b = b[n:]
			total += n
		}
		if len(b) == 0 {
			return total, nil
		}
		if c.blockedSince.IsZero() {
			c.blockedSince = time.Now()
			defer func() { c.blockedSince = time.Time{} }()
		}
		c.writerWait++
		c.cond.Wait()
		c.writerWait--
	}
}

// BlockedForMs tells for how long (simulated ms) the Write call in progress has been waiting for the peer to read
// (0: no write is waiting).
func (c *Conn) BlockedForMs() int64 {
	c.mu.Lock()
	defer c.mu.Unlock()
	if c.blockedSince.IsZero() {
		return 0
	}
	return time.Since(c.blockedSince).Milliseconds()
}

func (c *Conn) Close() error {
	c.mu.Lock()
	defer c.mu.Unlock()
	if c.closedLocal {
		return errClosed
	}
	c.closedLocal = true
	if c.rdTimer != nil {
		c.rdTimer.Stop()
	}
	if c.wrTimer != nil {
		c.wrTimer.Stop()
	}
	c.cond.Broadcast()
	return nil
}

func (c *Conn) LocalAddr() net.Addr  { return c.local }
func (c *Conn) RemoteAddr() net.Addr { return c.remote }

func (c *Conn) SetDeadline(t time.Time) error {
	_ = c.SetReadDeadline(t)
	return c.SetWriteDeadline(t)
}

func (c *Conn) wake() {
	c.mu.Lock()
	c.cond.Broadcast()
	c.mu.Unlock()
}

func (c *Conn) SetReadDeadline(t time.Time) error {
	c.mu.Lock()
	defer c.mu.Unlock()
	if c.closedLocal {
		return errClosed
	}
	c.rdDeadline = t
	if c.rdTimer != nil {
		c.rdTimer.Stop()
		c.rdTimer = nil
	}
	if !t.IsZero() {
		d := time.Until(t)
		if d < 0 {
			d = 0
		}
		c.rdTimer = time.AfterFunc(d, c.wake)
	}
	c.cond.Broadcast()
	return nil
}

func (c *Conn) SetWriteDeadline(t time.Time) error {
	c.mu.Lock()
	defer c.mu.Unlock()
	if c.closedLocal {
		return errClosed
	}
	c.wrDeadline = t
	if c.wrTimer != nil {
		c.wrTimer.Stop()
		c.wrTimer = nil
	}
	if !t.IsZero() {
		d := time.Until(t)
		if d < 0 {
			d = 0
		}
		c.wrTimer = time.AfterFunc(d, c.wake)
	}
	c.cond.Broadcast()
	return nil
}

// ---- listener --------------------------------------------------------------------------------------------------------

type Listener struct {
	k       *Kernel
	addr    Addr
	mu      sync.Mutex
	cond    *sync.Cond
	backlog []*Conn // connections the driver has let through: Accept returns them
	waiting []*Conn // connections made by actors, not yet let through (one "accept" action each)
	closed  bool
	nconn   int
}

func normAddr(network, addr string) (Addr, error) {
	host, portStr, err := net.SplitHostPort(addr)
	if err != nil {
		return Addr{}, err
	}
	port := 0
	_, err = fmt.Sscanf(portStr, "%d", &port)
	if err != nil {
		return Addr{}, err
	}
	if host == "" || host == "0.0.0.0" || host == "::" || host == "localhost" {
		host = "127.0.0.1"
	}
	return Addr{Net: "tcp", Host: host, Port: port}, nil
}

func (k *Kernel) netListen(network, addr string) (net.Listener, error) {
	a, err := normAddr(network, addr)
	if err != nil {
		return nil, err
	}
	k.mu.Lock()
	defer k.mu.Unlock()
	key := fmt.Sprintf("%d", a.Port)
	if a.Port == 0 {
		return nil, errors.New("simnet: listen on port 0 not supported")
	}
	if l, ok := k.listeners[key]; ok && !l.closed {
		return nil, &net.OpError{Op: "listen", Net: "tcp", Err: syscall.EADDRINUSE}
	}
	l := &Listener{k: k, addr: a}
	l.cond = sync.NewCond(&l.mu)
	k.listeners[key] = l
	return l, nil
}

func (l *Listener) Accept() (net.Conn, error) {
	l.k.nameGoroutine(fmt.Sprintf("accept:%d", l.addr.Port))
	l.mu.Lock()
	defer l.mu.Unlock()
	for {
		if l.closed {
			return nil, &net.OpError{Op: "accept", Net: "tcp", Err: net.ErrClosed}
		}
		if len(l.backlog) > 0 {
			c := l.backlog[0]
			l.backlog = l.backlog[1:]
			return c, nil
		}
		l.cond.Wait()
	}
}

func (l *Listener) Close() error {
	l.mu.Lock()
	defer l.mu.Unlock()
	l.closed = true
	l.cond.Broadcast()
	return nil
}

func (l *Listener) Addr() net.Addr { return l.addr }

// Connect makes an actor connect to lal's listener on port; it returns nil if nothing listens there.
// The client's address is 10.0.<ipk>.1:<ephemeral>.
func (k *Kernel) Connect(port int, clientName string, ipk int, h ConnHandler) *Conn {
	k.mu.Lock()
	l := k.listeners[fmt.Sprintf("%d", port)]
	k.mu.Unlock()
	if l == nil {
		return nil
	}
	l.mu.Lock()
	if l.closed {
		l.mu.Unlock()
		return nil
	}
	l.nconn++
	n := l.nconn
	l.mu.Unlock()
	c := k.newConn(clientName, l.addr, Addr{Net: "tcp", Host: fmt.Sprintf("10.0.%d.1", ipk), Port: 30000 + n}, h)
	l.mu.Lock()
	l.waiting = append(l.waiting, c)
	l.mu.Unlock()
	return c
}

// letOneThrough hands the oldest waiting connection to Accept (a driver action: connections are
// accepted one per step, so that lal's per-connection set-up never runs concurrently).
func (l *Listener) letOneThrough() {
	l.mu.Lock()
	if len(l.waiting) > 0 {
		l.backlog = append(l.backlog, l.waiting[0])
		l.waiting = l.waiting[1:]
		l.cond.Broadcast()
	}
	l.mu.Unlock()
}

// Listening reports whether lal listens on port.
func (k *Kernel) Listening(port int) bool {
	k.mu.Lock()
	defer k.mu.Unlock()
	l := k.listeners[fmt.Sprintf("%d", port)]
	if l == nil {
		return false
	}
	l.mu.Lock()
	defer l.mu.Unlock()
	return !l.closed
}

// ---- outbound connections of lal (relay pull / push): stub servers ------------------------------------------------------

// StubFactory is consulted when lal dials addr. Returning nil refuses the connection.
// hangFor > 0 makes the dial block that long (simulated) before it fails with a timeout.
type StubFactory func(c *Conn) (h ConnHandler, hangFor time.Duration)

// RegisterStub installs a stub server at host:port (as lal will dial it).
func (k *Kernel) RegisterStub(hostport string, f StubFactory) {
	k.mu.Lock()
	k.stubs[hostport] = f
	k.mu.Unlock()
}

func (k *Kernel) netDial(network, addr string) (net.Conn, error) {
	return k.netDialTimeout(network, addr, 0)
}

func (k *Kernel) netDialTimeout(network, addr string, timeout time.Duration) (net.Conn, error) {
	k.nameGoroutine("dial:" + addr)
	k.parkDial(addr)
	k.mu.Lock()
	f := k.stubs[addr]
	n := len(k.conns)
	k.mu.Unlock()
	k.nameGoroutine("dial:" + addr)
	if f == nil {
		return nil, &net.OpError{Op: "dial", Net: "tcp", Err: syscall.ECONNREFUSED}
	}
	host, portStr, _ := net.SplitHostPort(addr)
	port := 0
	fmt.Sscanf(portStr, "%d", &port)
	c := k.newConn(fmt.Sprintf("out%d->%s", n, addr), Addr{Net: "tcp", Host: "127.0.0.1", Port: 40000 + n}, Addr{Net: "tcp", Host: host, Port: port}, nil)
	h, hang := f(c)
	if hang > 0 {
		if timeout > 0 && timeout < hang {
			hang = timeout
		}
		time.Sleep(hang)
		c.closedLocal = true
		return nil, &net.OpError{Op: "dial", Net: "tcp", Err: os.ErrDeadlineExceeded}
	}
	if h == nil {
		c.closedLocal = true
		c.closeSeen = true
		return nil, &net.OpError{Op: "dial", Net: "tcp", Err: syscall.ECONNREFUSED}
	}
	c.handler = h
	k.nameGoroutine("conn:" + c.name)
	return c, nil
}

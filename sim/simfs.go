package sim

import (
	"errors"
	"fmt"
	"io"
	"os"
	"path"
	"sort"
	"strings"
	"sync"
	"syscall"

	"github.com/q191201771/lal/pkg/zzsim"
	"github.com/q191201771/naza/pkg/filesystemlayer"
)

// FS is the simulated disk. It backs (a) lal's HLS muxer through naza's IFileSystemLayer seam and
// (b) the FLV / TS recorders and dump files through the os.Create / os.MkdirAll link seams.
// It keeps an operation log, can report the tree after every operation (crash points) and injects
// faults on chosen operations. State survives a simulated crash of the server (Kernel.Crash).
type FS struct {
	k     *Kernel
	mu    sync.Mutex
	files map[string]*fsNode // cleaned absolute path -> node
	dirs  map[string]bool
	Ops   []FsOp
	// OnOp is called synchronously after every operation (in the calling lal goroutine, with the FS
	// locked: use the *Locked accessors). It must not panic; record problems and let the driver report.
	OnOp func(op *FsOp)
	// faults: operation ordinal (1-based, counted per kind) -> fault
	faults   []*FsFault
	Problems []string // oracle problems recorded by OnOp
	opCount  map[string]int
	handles  int // open handles
	osFiles  []string
}

type fsNode struct {
	data   []byte
	open   int
	Closed bool
}

type FsOp struct {
	Seq   int
	Kind  string // create | write | close | rename | remove | removeall | mkdirall | readfile | writefile | open
	Path  string
	Path2 string
	N     int
	Err   string
	Fault string
}

// FsFault makes the nth operation of a kind (optionally restricted to paths with a suffix) fail.
type FsFault struct {
	Kind   string `json:"kind"` // create | write | close | rename | writefile | remove
	Suffix string `json:"suffix,omitempty"`
	Nth    int    `json:"nth"`  // 1-based among matching operations
	Mode   string `json:"mode"` // "error" | "short" (write: half the bytes then error) | "enospc"
	seen   int
	Fired  bool `json:"-"`
}

func newFS(k *Kernel) *FS {
	return &FS{k: k, files: map[string]*fsNode{}, dirs: map[string]bool{"/": true}, opCount: map[string]int{}}
}

func cleanPath(p string) string {
	if !strings.HasPrefix(p, "/") {
		p = "/cwd/" + p
	}
	return path.Clean(p)
}

func (fs *FS) AddFault(f *FsFault) { fs.faults = append(fs.faults, f) }

func (fs *FS) checkFault(kind, p string) *FsFault {
	for _, f := range fs.faults {
		if f.Fired || f.Kind != kind || !strings.HasSuffix(p, f.Suffix) {
			continue
		}
		f.seen++
		if f.seen == f.Nth {
			f.Fired = true
			fs.k.mu.Lock()
			fs.k.Stats.Faults["fs_"+kind+"_"+f.Mode]++
			fs.k.mu.Unlock()
			return f
		}
	}
	return nil
}

func (fs *FS) logOp(op FsOp) {
	op.Seq = len(fs.Ops) + 1
	fs.Ops = append(fs.Ops, op)
	fs.opCount[op.Kind]++
	if fs.k != nil && fs.k.TraceOn {
		fs.k.traceFs(fmt.Sprintf("  fs #%d %s %s %s n=%d err=%s", op.Seq, op.Kind, op.Path, op.Path2, op.N, op.Err))
	}
	if fs.OnOp != nil {
		fs.OnOp(&fs.Ops[len(fs.Ops)-1])
	}
}

func (fs *FS) mkdirAllLocked(p string) {
	for p != "/" && p != "." {
		fs.dirs[p] = true
		p = path.Dir(p)
	}
}

var errInjected = errors.New("simfs: injected I/O error")

// ---- operations (shared by both seams) ----

func (fs *FS) create(name string) (*fsFile, error) {
	p := cleanPath(name)
	fs.mu.Lock()
	defer fs.mu.Unlock()
	if f := fs.checkFault("create", p); f != nil {
		fs.logOp(FsOp{Kind: "create", Path: p, Err: "injected", Fault: f.Mode})
		return nil, &os.PathError{Op: "open", Path: name, Err: errInjected}
	}
	if !fs.dirs[path.Dir(p)] {
		fs.logOp(FsOp{Kind: "create", Path: p, Err: "ENOENT"})
		return nil, &os.PathError{Op: "open", Path: name, Err: syscall.ENOENT}
	}
	n := &fsNode{open: 1}
	fs.files[p] = n
	fs.handles++
	fs.logOp(FsOp{Kind: "create", Path: p})
	return &fsFile{fs: fs, path: p, node: n}, nil
}

type fsFile struct {
	fs     *FS
	path   string
	node   *fsNode
	closed bool
	rdOff  int
}

func (f *fsFile) Write(b []byte) (int, error) {
	fs := f.fs
	fs.mu.Lock()
	defer fs.mu.Unlock()
	if f.closed {
		return 0, os.ErrClosed
	}
	if ft := fs.checkFault("write", f.path); ft != nil {
		n := 0
		if ft.Mode == "short" {
			n = len(b) / 2
			f.node.data = append(f.node.data, b[:n]...)
		}
		fs.logOp(FsOp{Kind: "write", Path: f.path, N: n, Err: "injected", Fault: ft.Mode})
		if ft.Mode == "enospc" {
			return n, &os.PathError{Op: "write", Path: f.path, Err: syscall.ENOSPC}
		}
		return n, &os.PathError{Op: "write", Path: f.path, Err: errInjected}
	}
	f.node.data = append(f.node.data, b...)
	fs.logOp(FsOp{Kind: "write", Path: f.path, N: len(b)})
	return len(b), nil
}

func (f *fsFile) Read(b []byte) (int, error) {
	fs := f.fs
	fs.mu.Lock()
	defer fs.mu.Unlock()
	if f.rdOff >= len(f.node.data) {
		return 0, io.EOF
	}
	n := copy(b, f.node.data[f.rdOff:])
	f.rdOff += n
	return n, nil
}

func (f *fsFile) Close() error {
	fs := f.fs
	fs.mu.Lock()
	defer fs.mu.Unlock()
	if f.closed {
		return os.ErrClosed
	}
	f.closed = true
	f.node.open--
	f.node.Closed = true
	fs.handles--
	if ft := fs.checkFault("close", f.path); ft != nil {
		fs.logOp(FsOp{Kind: "close", Path: f.path, Err: "injected", Fault: ft.Mode})
		return &os.PathError{Op: "close", Path: f.path, Err: errInjected}
	}
	fs.logOp(FsOp{Kind: "close", Path: f.path})
	return nil
}

func (fs *FS) Rename(oldpath, newpath string) error {
	o, n := cleanPath(oldpath), cleanPath(newpath)
	fs.mu.Lock()
	defer fs.mu.Unlock()
	if ft := fs.checkFault("rename", n); ft != nil {
		fs.logOp(FsOp{Kind: "rename", Path: o, Path2: n, Err: "injected", Fault: ft.Mode})
		return &os.LinkError{Op: "rename", Old: oldpath, New: newpath, Err: errInjected}
	}
	node, ok := fs.files[o]
	if !ok {
		fs.logOp(FsOp{Kind: "rename", Path: o, Path2: n, Err: "ENOENT"})
		return &os.LinkError{Op: "rename", Old: oldpath, New: newpath, Err: syscall.ENOENT}
	}
	delete(fs.files, o)
	fs.files[n] = node
	fs.logOp(FsOp{Kind: "rename", Path: o, Path2: n})
	return nil
}

func (fs *FS) MkdirAll(p string, perm uint32) error {
	c := cleanPath(p)
	fs.mu.Lock()
	defer fs.mu.Unlock()
	fs.mkdirAllLocked(c)
	fs.logOp(FsOp{Kind: "mkdirall", Path: c})
	return nil
}

func (fs *FS) Remove(name string) error {
	p := cleanPath(name)
	fs.mu.Lock()
	defer fs.mu.Unlock()
	if ft := fs.checkFault("remove", p); ft != nil {
		fs.logOp(FsOp{Kind: "remove", Path: p, Err: "injected", Fault: ft.Mode})
		return &os.PathError{Op: "remove", Path: name, Err: errInjected}
	}
	if _, ok := fs.files[p]; !ok {
		fs.logOp(FsOp{Kind: "remove", Path: p, Err: "ENOENT"})
		return &os.PathError{Op: "remove", Path: name, Err: syscall.ENOENT}
	}
	delete(fs.files, p)
	fs.logOp(FsOp{Kind: "remove", Path: p})
	return nil
}

func (fs *FS) RemoveAll(name string) error {
	p := cleanPath(name)
	fs.mu.Lock()
	defer fs.mu.Unlock()
	for f := range fs.files {
		if f == p || strings.HasPrefix(f, p+"/") {
			delete(fs.files, f)
		}
	}
	for d := range fs.dirs {
		if d == p || strings.HasPrefix(d, p+"/") {
			delete(fs.dirs, d)
		}
	}
	fs.logOp(FsOp{Kind: "removeall", Path: p})
	return nil
}

func (fs *FS) ReadFile(filename string) ([]byte, error) {
	p := cleanPath(filename)
	fs.mu.Lock()
	defer fs.mu.Unlock()
	n, ok := fs.files[p]
	if !ok {
		fs.logOp(FsOp{Kind: "readfile", Path: p, Err: "ENOENT"})
		return nil, &os.PathError{Op: "open", Path: filename, Err: syscall.ENOENT}
	}
	fs.logOp(FsOp{Kind: "readfile", Path: p, N: len(n.data)})
	return append([]byte(nil), n.data...), nil
}

func (fs *FS) WriteFile(filename string, data []byte, perm uint32) error {
	p := cleanPath(filename)
	fs.mu.Lock()
	defer fs.mu.Unlock()
	if ft := fs.checkFault("writefile", p); ft != nil {
		if ft.Mode == "short" {
			fs.files[p] = &fsNode{data: append([]byte(nil), data[:len(data)/2]...), Closed: true}
		}
		fs.logOp(FsOp{Kind: "writefile", Path: p, Err: "injected", Fault: ft.Mode})
		return &os.PathError{Op: "write", Path: filename, Err: errInjected}
	}
	if !fs.dirs[path.Dir(p)] {
		fs.logOp(FsOp{Kind: "writefile", Path: p, Err: "ENOENT"})
		return &os.PathError{Op: "open", Path: filename, Err: syscall.ENOENT}
	}
	fs.files[p] = &fsNode{data: append([]byte(nil), data...), Closed: true}
	fs.logOp(FsOp{Kind: "writefile", Path: p, N: len(data)})
	return nil
}

// ---- naza IFileSystemLayer adapter ----

type fslAdapter struct{ fs *FS }

func (a fslAdapter) Type() filesystemlayer.FslType { return filesystemlayer.FslTypeMemory }
func (a fslAdapter) Create(name string) (filesystemlayer.IFile, error) {
	f, err := a.fs.create(name)
	if err != nil {
		return nil, err
	}
	return f, nil
}
func (a fslAdapter) Rename(o, n string) error                 { return a.fs.Rename(o, n) }
func (a fslAdapter) MkdirAll(p string, perm uint32) error     { return a.fs.MkdirAll(p, perm) }
func (a fslAdapter) Remove(name string) error                 { return a.fs.Remove(name) }
func (a fslAdapter) RemoveAll(p string) error                 { return a.fs.RemoveAll(p) }
func (a fslAdapter) ReadFile(filename string) ([]byte, error) { return a.fs.ReadFile(filename) }
func (a fslAdapter) WriteFile(filename string, data []byte, perm uint32) error {
	return a.fs.WriteFile(filename, data, perm)
}

// Fsl returns the adapter to install into lal's hls package.
func (fs *FS) Fsl() filesystemlayer.IFileSystemLayer { return fslAdapter{fs} }

// ---- accessors for oracles (driver goroutine; or *Locked from OnOp) ----

func (fs *FS) FileLocked(p string) ([]byte, bool) {
	n, ok := fs.files[p]
	if !ok {
		return nil, false
	}
	return n.data, true
}

func (fs *FS) ListLocked(prefix string) []string {
	var out []string
	for f := range fs.files {
		if strings.HasPrefix(f, prefix) {
			out = append(out, f)
		}
	}
	sort.Strings(out)
	return out
}

func (fs *FS) File(p string) ([]byte, bool) {
	fs.mu.Lock()
	defer fs.mu.Unlock()
	d, ok := fs.FileLocked(cleanPath(p))
	return append([]byte(nil), d...), ok
}

func (fs *FS) List(prefix string) []string {
	fs.mu.Lock()
	defer fs.mu.Unlock()
	return fs.ListLocked(prefix)
}

func (fs *FS) OpenHandles() int {
	fs.mu.Lock()
	defer fs.mu.Unlock()
	return fs.handles
}

func (fs *FS) OpsLen() int {
	fs.mu.Lock()
	defer fs.mu.Unlock()
	return len(fs.Ops)
}

func (fs *FS) AddProblemLocked(format string, a ...interface{}) {
	if len(fs.Problems) < 5 {
		fs.Problems = append(fs.Problems, fmt.Sprintf(format, a...))
	}
}

func (fs *FS) FirstProblem() string {
	fs.mu.Lock()
	defer fs.mu.Unlock()
	if len(fs.Problems) > 0 {
		return fs.Problems[0]
	}
	return ""
}

// ---- os.* seams (recordings, dump files) -----------------------------------------------------------------------------------

// The os.Create / os.Open seams must return *os.File. Recordings are therefore kept on the real disk
// inside a per-run sandbox directory, while every path is accounted for in the FS op log (so that
// path-confinement oracles see them). No fault injection on this path.

func (k *Kernel) installFS() {
	if k.FS == nil {
		k.FS = newFS(k)
	}
	zzsim.OsCreate = func(name string) (*os.File, error) {
		p := cleanPath(name)
		k.FS.mu.Lock()
		k.FS.logOp(FsOp{Kind: "oscreate", Path: p})
		k.FS.mu.Unlock()
		real := k.sandboxPath(p)
		if err := os.MkdirAll(path.Dir(real), 0o755); err != nil {
			return nil, err
		}
		k.FS.mu.Lock()
		k.FS.osFiles = append(k.FS.osFiles, p)
		k.FS.mu.Unlock()
		return os.Create(real)
	}
	zzsim.OsOpen = func(name string) (*os.File, error) {
		p := cleanPath(name)
		k.FS.mu.Lock()
		k.FS.logOp(FsOp{Kind: "osopen", Path: p})
		k.FS.mu.Unlock()
		return os.Open(k.sandboxPath(p))
	}
	// the rest of the os file API lal (or a changed lal) may use: same sandbox, same operation log
	sbx := func(kind, name string) string {
		p := cleanPath(name)
		k.FS.mu.Lock()
		k.FS.logOp(FsOp{Kind: kind, Path: p})
		k.FS.mu.Unlock()
		return k.sandboxPath(p)
	}
	zzsim.OsOpenFile = func(name string, flag int, perm os.FileMode) (*os.File, error) {
		kind := "osopen"
		if flag&os.O_CREATE != 0 {
			kind = "oscreate"
		}
		real := sbx(kind, name)
		if flag&os.O_CREATE != 0 {
			if err := os.MkdirAll(path.Dir(real), 0o755); err != nil {
				return nil, err
			}
			k.FS.mu.Lock()
			k.FS.osFiles = append(k.FS.osFiles, cleanPath(name))
			k.FS.mu.Unlock()
		}
		return os.OpenFile(real, flag, perm)
	}
	zzsim.OsRemove = func(name string) error { return os.Remove(sbx("osremove", name)) }
	zzsim.OsRemoveAll = func(name string) error { return os.RemoveAll(sbx("osremoveall", name)) }
	zzsim.OsRename = func(a, b string) error { return os.Rename(sbx("osrename", a), sbx("osrename-to", b)) }
	zzsim.OsWriteFile = func(name string, data []byte, perm os.FileMode) error {
		real := sbx("oscreate", name)
		_ = os.MkdirAll(path.Dir(real), 0o755)
		return os.WriteFile(real, data, perm)
	}
	zzsim.OsReadFile = func(name string) ([]byte, error) { return os.ReadFile(sbx("osopen", name)) }
	zzsim.OsStat = func(name string) (os.FileInfo, error) { return os.Stat(sbx("osstat", name)) }
	zzsim.OsMkdir = func(name string, perm os.FileMode) error { return os.Mkdir(sbx("osmkdirall", name), perm) }
	zzsim.OsMkdirAll = func(name string, perm os.FileMode) error {
		p := cleanPath(name)
		k.FS.mu.Lock()
		k.FS.logOp(FsOp{Kind: "osmkdirall", Path: p})
		k.FS.mu.Unlock()
		return os.MkdirAll(k.sandboxPath(p), 0o755)
	}
}

func (k *Kernel) sandboxPath(clean string) string {
	if k.sandbox == "" {
		d, err := os.MkdirTemp("", "simlal-sbx-")
		if err != nil {
			panic(err)
		}
		k.sandbox = d
	}
	return k.sandbox + clean
}

// SandboxFile reads a file the os.Create seam wrote (recordings).
func (k *Kernel) SandboxFile(p string) ([]byte, error) {
	return os.ReadFile(k.sandboxPath(cleanPath(p)))
}

// OsFiles lists the (virtual) paths created through the os.Create seam.
func (fs *FS) OsFiles() []string {
	fs.mu.Lock()
	defer fs.mu.Unlock()
	return append([]string(nil), fs.osFiles...)
}

func (k *Kernel) cleanupSandbox() {
	if k.sandbox != "" {
		_ = os.RemoveAll(k.sandbox)
	}
}

// SandboxDir is the real directory backing the os.* seams of this run ("" if nothing was created).
func (k *Kernel) SandboxDir() string {
	if k.sandbox == "" {
		return "/nonexistent-sandbox/"
	}
	return k.sandbox
}

// OpsSnapshot returns a copy of the operation log.
func (fs *FS) OpsSnapshot() []FsOp {
	fs.mu.Lock()
	defer fs.mu.Unlock()
	return append([]FsOp(nil), fs.Ops...)
}

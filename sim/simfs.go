package sim

func (k *Kernel) installFS() {}

// Package tsc is the harness's independent MPEG-TS demultiplexer (ISO/IEC 13818-1): 188-byte packets,
// PAT / PMT with CRC-32, continuity counters, adaptation field, PCR, PES header with PTS/DTS, plus
// Annex-B NAL splitting and ADTS frame parsing. It imports nothing from lal.
package tsc

import (
	"fmt"
)

type Packet struct {
	Index      int
	PID        int
	PUSI       bool
	CC         int
	HasPayload bool
	HasAF      bool
	RandomAcc  bool
	Discont    bool
	HasPCR     bool
	PCR        uint64
	Payload    []byte
	AFLen      int
}

// Pes is one reassembled PES packet.
type Pes struct {
	PID        int
	StreamType int
	StreamID   int
	HasPTS     bool
	HasDTS     bool
	PTS        uint64
	DTS        uint64
	RandomAcc  bool // random_access_indicator on the packet that started it
	PCR        uint64
	HasPCR     bool
	Data       []byte
	FirstPkt   int // packet index of the first TS packet
	DeclLen    int // PES_packet_length field
	HdrLen     int // bytes between the length field and the payload (3 + PES_header_data_length)
	Complete   bool
}

type Program struct {
	PmtPID  int
	PcrPID  int
	Streams map[int]int // pid -> stream_type
	Order   []int       // elementary PIDs in PMT order
}

type Demux struct {
	buf       []byte
	NPackets  int
	Err       error
	Pat       map[int]int // program number -> PMT pid
	PatCount  int
	PmtCount  int
	FirstPat  int // packet index of the first PAT (-1)
	FirstPmt  int
	Prog      *Program
	lastCC    map[int]int
	CCErrors  []string
	Notes     []string // deviations that do not affect what a decoder recovers
	cur       map[int]*Pes
	Out       []*Pes
	PsiErrors []string
	// DataBeforePsi: index of the first elementary packet seen before both PAT and PMT (-1: none)
	DataBeforePsi int
	Events        []Event // order of PSI and PES starts, for segment-structure checks
}

type Event struct {
	Pkt  int
	Kind string // "pat" | "pmt" | "pes"
	PID  int
}

func New() *Demux {
	return &Demux{Pat: map[int]int{}, lastCC: map[int]int{}, cur: map[int]*Pes{}, FirstPat: -1, FirstPmt: -1, DataBeforePsi: -1}
}

func crc32mpeg(b []byte) uint32 {
	crc := uint32(0xffffffff)
	for _, x := range b {
		crc ^= uint32(x) << 24
		for i := 0; i < 8; i++ {
			if crc&0x80000000 != 0 {
				crc = crc<<1 ^ 0x04C11DB7
			} else {
				crc <<= 1
			}
		}
	}
	return crc
}

// Feed consumes bytes; whole packets are processed, a remainder stays buffered.
func (d *Demux) Feed(b []byte) {
	if d.Err != nil {
		return
	}
	d.buf = append(d.buf, b...)
	for len(d.buf) >= 188 {
		if err := d.packet(d.buf[:188]); err != nil {
			d.Err = fmt.Errorf("packet %d: %v", d.NPackets, err)
			return
		}
		d.buf = d.buf[188:]
		d.NPackets++
	}
}

// Remainder is the number of buffered bytes that do not form a whole packet.
func (d *Demux) Remainder() int { return len(d.buf) }

// Flush completes the PES packets still being assembled (end of stream / segment).
func (d *Demux) Flush() {
	for pid, p := range d.cur {
		if p != nil {
			d.finishPes(p, true)
			d.cur[pid] = nil
		}
	}
	// keep output in order of first packet
	for i := 1; i < len(d.Out); i++ {
		for j := i; j > 0 && d.Out[j].FirstPkt < d.Out[j-1].FirstPkt; j-- {
			d.Out[j], d.Out[j-1] = d.Out[j-1], d.Out[j]
		}
	}
}

func (d *Demux) finish(p *Pes) { d.finishPes(p, false) }

// finishPes: atEnd = the capture ended here (the last PES may simply be cut short by the end of the capture).
func (d *Demux) finishPes(p *Pes, atEnd bool) {
	p.Complete = true
	if p.DeclLen != 0 && p.DeclLen != p.HdrLen+len(p.Data) && !(atEnd && p.HdrLen+len(p.Data) < p.DeclLen) {
		// PES_packet_length counts the bytes after the length field; 0 (unbounded) is only allowed for video
		d.PsiErrors = append(d.PsiErrors, fmt.Sprintf("PES starting at packet %d (pid %d) declares PES_packet_length %d but carries %d bytes up to the next unit start", p.FirstPkt, p.PID, p.DeclLen, p.HdrLen+len(p.Data)))
	}
	d.Out = append(d.Out, p)
}

func (d *Demux) packet(b []byte) error {
	if b[0] != 0x47 {
		return fmt.Errorf("sync byte %02x", b[0])
	}
	if b[1]&0x80 != 0 {
		return fmt.Errorf("transport_error_indicator set")
	}
	p := Packet{Index: d.NPackets}
	p.PUSI = b[1]&0x40 != 0
	p.PID = int(b[1]&0x1f)<<8 | int(b[2])
	if b[3]&0xc0 != 0 {
		return fmt.Errorf("scrambled packet")
	}
	afc := (b[3] >> 4) & 3
	p.CC = int(b[3] & 0xf)
	p.HasAF = afc&2 != 0
	p.HasPayload = afc&1 != 0
	if afc == 0 {
		return fmt.Errorf("adaptation_field_control 00 (reserved)")
	}
	i := 4
	if p.HasAF {
		afl := int(b[4])
		p.AFLen = afl
		if p.HasPayload && afl > 182 {
			return fmt.Errorf("adaptation_field_length %d with payload", afl)
		}
		if !p.HasPayload && afl != 183 {
			return fmt.Errorf("adaptation_field_length %d without payload", afl)
		}
		if afl > 0 {
			fl := b[5]
			p.Discont = fl&0x80 != 0
			p.RandomAcc = fl&0x40 != 0
			if fl&0x10 != 0 {
				if afl < 7 {
					return fmt.Errorf("PCR flag with adaptation_field_length %d", afl)
				}
				base := uint64(b[6])<<25 | uint64(b[7])<<17 | uint64(b[8])<<9 | uint64(b[9])<<1 | uint64(b[10])>>7
				ext := uint64(b[10]&1)<<8 | uint64(b[11])
				p.PCR = base*300 + ext
				p.HasPCR = true
			}
			if fl&0x0f != 0 {
				return fmt.Errorf("unsupported adaptation flags %02x", fl)
			}
			// the rest must be stuffing
			hdr := 1
			if p.HasPCR {
				hdr += 6
			}
			for _, x := range b[5+hdr : 5+afl] {
				if x != 0xff {
					d.Notes = append(d.Notes, fmt.Sprintf("packet %d: adaptation field stuffing byte %02x", d.NPackets, x))
					break
				}
			}
		}
		i = 5 + afl
	}
	if p.HasPayload {
		p.Payload = b[i:]
	}
	// continuity
	if p.PID != 0x1fff {
		if last, ok := d.lastCC[p.PID]; ok {
			want := last
			if p.HasPayload {
				want = (last + 1) & 0xf
			}
			if p.CC != want && !p.Discont {
				d.CCErrors = append(d.CCErrors, fmt.Sprintf("pid %d packet %d: continuity_counter %d, expected %d", p.PID, p.Index, p.CC, want))
			}
		}
		d.lastCC[p.PID] = p.CC
	}
	switch {
	case p.PID == 0:
		return d.psi(&p, true)
	case d.isPmt(p.PID):
		return d.psi(&p, false)
	case p.PID == 0x1fff:
		return nil
	default:
		return d.es(&p)
	}
}

func (d *Demux) isPmt(pid int) bool {
	for _, v := range d.Pat {
		if v == pid {
			return true
		}
	}
	return false
}

func (d *Demux) psi(p *Packet, pat bool) error {
	if !p.PUSI || !p.HasPayload {
		return fmt.Errorf("PSI packet without payload_unit_start (multi-packet sections not expected)")
	}
	b := p.Payload
	ptr := int(b[0])
	if 1+ptr+3 > len(b) {
		return fmt.Errorf("PSI pointer_field %d", ptr)
	}
	s := b[1+ptr:]
	tableID := s[0]
	if s[1]&0x80 == 0 {
		return fmt.Errorf("section_syntax_indicator 0")
	}
	slen := int(s[1]&0x0f)<<8 | int(s[2])
	if 3+slen > len(s) || slen < 9 {
		return fmt.Errorf("section_length %d", slen)
	}
	sec := s[:3+slen]
	if crc32mpeg(sec) != 0 {
		d.PsiErrors = append(d.PsiErrors, fmt.Sprintf("packet %d: CRC-32 mismatch in table %d", p.Index, tableID))
		return nil
	}
	for _, x := range s[3+slen:] {
		if x != 0xff {
			return fmt.Errorf("bytes after PSI section are not stuffing")
		}
	}
	body := sec[8 : len(sec)-4]
	if pat {
		if tableID != 0 {
			return fmt.Errorf("table_id %d on PID 0", tableID)
		}
		if len(body)%4 != 0 {
			return fmt.Errorf("PAT body length %d", len(body))
		}
		d.Pat = map[int]int{}
		for i := 0; i+4 <= len(body); i += 4 {
			prog := int(body[i])<<8 | int(body[i+1])
			pid := int(body[i+2]&0x1f)<<8 | int(body[i+3])
			if prog != 0 {
				d.Pat[prog] = pid
			}
		}
		d.PatCount++
		if d.FirstPat < 0 {
			d.FirstPat = p.Index
		}
		d.Events = append(d.Events, Event{p.Index, "pat", 0})
		return nil
	}
	if tableID != 2 {
		return fmt.Errorf("table_id %d on PMT PID", tableID)
	}
	if len(body) < 4 {
		return fmt.Errorf("PMT too short")
	}
	pr := &Program{PmtPID: p.PID, Streams: map[int]int{}}
	pr.PcrPID = int(body[0]&0x1f)<<8 | int(body[1])
	pil := int(body[2]&0x0f)<<8 | int(body[3])
	i := 4 + pil
	for i+5 <= len(body) {
		st := int(body[i])
		pid := int(body[i+1]&0x1f)<<8 | int(body[i+2])
		eil := int(body[i+3]&0x0f)<<8 | int(body[i+4])
		pr.Streams[pid] = st
		pr.Order = append(pr.Order, pid)
		i += 5 + eil
	}
	if i != len(body) {
		return fmt.Errorf("PMT stream loop does not end at the section end")
	}
	d.Prog = pr
	d.PmtCount++
	if d.FirstPmt < 0 {
		d.FirstPmt = p.Index
	}
	d.Events = append(d.Events, Event{p.Index, "pmt", p.PID})
	return nil
}

func (d *Demux) es(p *Packet) error {
	if d.Prog == nil || d.PatCount == 0 {
		if d.DataBeforePsi < 0 {
			d.DataBeforePsi = p.Index
		}
	}
	st := -1
	if d.Prog != nil {
		if v, ok := d.Prog.Streams[p.PID]; ok {
			st = v
		}
	}
	if p.PUSI {
		if cur := d.cur[p.PID]; cur != nil {
			d.finish(cur)
		}
		if !p.HasPayload {
			return fmt.Errorf("payload_unit_start without payload")
		}
		b := p.Payload
		if len(b) < 9 || b[0] != 0 || b[1] != 0 || b[2] != 1 {
			return fmt.Errorf("pid %d: payload_unit_start but no PES start code", p.PID)
		}
		pes := &Pes{PID: p.PID, StreamType: st, StreamID: int(b[3]), FirstPkt: p.Index, RandomAcc: p.RandomAcc, PCR: p.PCR, HasPCR: p.HasPCR}
		pes.DeclLen = int(b[4])<<8 | int(b[5])
		if b[6]&0xc0 != 0x80 {
			return fmt.Errorf("pid %d: PES header marker bits %02x", p.PID, b[6])
		}
		flags := b[7] >> 6
		hlen := int(b[8])
		if 9+hlen > len(b) {
			return fmt.Errorf("pid %d: PES_header_data_length %d exceeds the packet", p.PID, hlen)
		}
		rd := func(x []byte) uint64 {
			return uint64(x[0]>>1&7)<<30 | uint64(x[1])<<22 | uint64(x[2]>>1)<<15 | uint64(x[3])<<7 | uint64(x[4]>>1)
		}
		switch flags {
		case 2:
			if hlen < 5 {
				return fmt.Errorf("pid %d: PTS flag with header length %d", p.PID, hlen)
			}
			if b[9]>>4 != 2 || b[9]&1 != 1 || b[11]&1 != 1 || b[13]&1 != 1 {
				return fmt.Errorf("pid %d: PTS marker bits", p.PID)
			}
			pes.PTS, pes.HasPTS = rd(b[9:]), true
			pes.DTS = pes.PTS
		case 3:
			if hlen < 10 {
				return fmt.Errorf("pid %d: PTS+DTS flags with header length %d", p.PID, hlen)
			}
			if b[9]>>4 != 3 || b[14]>>4 != 1 {
				return fmt.Errorf("pid %d: PTS/DTS prefix bits", p.PID)
			}
			pes.PTS, pes.HasPTS = rd(b[9:]), true
			pes.DTS, pes.HasDTS = rd(b[14:]), true
		case 1:
			return fmt.Errorf("pid %d: PTS_DTS_flags 01 is forbidden", p.PID)
		}
		pes.HdrLen = 3 + hlen
		pes.Data = append(pes.Data, b[9+hlen:]...)
		d.cur[p.PID] = pes
		d.Events = append(d.Events, Event{p.Index, "pes", p.PID})
		return nil
	}
	cur := d.cur[p.PID]
	if cur == nil {
		// continuation without a start: data we joined in the middle of
		if p.HasPayload {
			return fmt.Errorf("pid %d: continuation packet without a PES start", p.PID)
		}
		return nil
	}
	if p.HasPayload {
		cur.Data = append(cur.Data, p.Payload...)
	}
	return nil
}

// ---- elementary stream helpers -------------------------------------------------------------------------------------------

// SplitAnnexB splits an Annex-B byte stream into NAL units (start codes removed; trailing zero bytes
// before a start code belong to the start code).
func SplitAnnexB(b []byte) [][]byte {
	var nals [][]byte
	start := -1
	i := 0
	for i+3 <= len(b) {
		if b[i] == 0 && b[i+1] == 0 && b[i+2] == 1 {
			if start >= 0 {
				end := i
				for end > start && b[end-1] == 0 {
					end--
				}
				nals = append(nals, b[start:end])
			}
			start = i + 3
			i += 3
			continue
		}
		i++
	}
	if start >= 0 && start <= len(b) {
		nals = append(nals, b[start:])
	}
	return nals
}

type AdtsFrame struct {
	Profile  int // audio object type - 1
	SrIndex  int
	Channels int
	Data     []byte
}

// SplitAdts parses a sequence of ADTS frames.
func SplitAdts(b []byte) ([]AdtsFrame, error) {
	var out []AdtsFrame
	for len(b) > 0 {
		if len(b) < 7 {
			return out, fmt.Errorf("adts: %d trailing bytes", len(b))
		}
		if b[0] != 0xff || b[1]&0xf0 != 0xf0 {
			return out, fmt.Errorf("adts: bad syncword %02x%02x", b[0], b[1])
		}
		if b[1]&0x06 != 0 {
			return out, fmt.Errorf("adts: layer != 0")
		}
		protAbsent := b[1]&1 == 1
		f := AdtsFrame{Profile: int(b[2] >> 6), SrIndex: int(b[2]>>2) & 0xf, Channels: int(b[2]&1)<<2 | int(b[3]>>6)}
		flen := int(b[3]&3)<<11 | int(b[4])<<3 | int(b[5]>>5)
		hl := 7
		if !protAbsent {
			hl = 9
		}
		if flen < hl || flen > len(b) {
			return out, fmt.Errorf("adts: frame length %d with %d bytes left", flen, len(b))
		}
		f.Data = b[hl:flen]
		out = append(out, f)
		b = b[flen:]
	}
	return out, nil
}

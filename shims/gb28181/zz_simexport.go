package gb28181

// Export shim added by the simulation build overlay (never present in /repo).

import "github.com/q191201771/naza/pkg/nazanet"

// ZzResetUdpPool gives every simulated run the same UDP port allocation history.
func ZzResetUdpPool() {
	defaultUdpConnPoll = nazanet.NewAvailUdpConnPool(defaultPubSessionPortMin, defaultPubSessionPortMax)
}

package rtsp

// Export shim added by the simulation build overlay (never present in /repo).

import "github.com/q191201771/naza/pkg/nazanet"

// ZzResetUdpPool gives every simulated run the same UDP port allocation history.
func ZzResetUdpPool() {
	availUdpConnPool = nazanet.NewAvailUdpConnPool(minServerPort, maxServerPort)
}

// ZzSetWChanSize sets the size of the asynchronous write queue of RTSP command connections.
func ZzSetWChanSize(n int) { serverCommandSessionWriteChanSize = n }

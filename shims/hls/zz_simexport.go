package hls

import "github.com/q191201771/naza/pkg/filesystemlayer"

// ZzSetFsl installs the file system layer the HLS muxer and file server use (overlay-added export shim).
func ZzSetFsl(f filesystemlayer.IFileSystemLayer) { fslCtx = f }

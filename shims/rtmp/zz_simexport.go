package rtmp

// ZzSetWChanSize sets the size of the server session's asynchronous write queue (overlay-added export
// shim: a tuning knob the simulation randomises) and returns the previous value.
func ZzSetWChanSize(n int) int {
	old := wChanSize
	wChanSize = n
	return old
}

package rtmp

import "github.com/q191201771/lal/pkg/base"

// ZzSetWChanSize sets the size of the server session's asynchronous write queue (overlay-added export
// shim: a tuning knob the simulation randomises) and returns the previous value.
func ZzSetWChanSize(n int) int {
	old := wChanSize
	wChanSize = n
	return old
}

// ZzMessage2Chunks exposes the chunk serialiser with an explicit chunk size and previous header.
func ZzMessage2Chunks(message []byte, header *base.RtmpHeader, prev *base.RtmpHeader, chunkSize int) []byte {
	return message2Chunks(message, header, prev, chunkSize)
}

// ZzStreamToMsg exposes the message a ChunkComposer callback receives (the payload is only valid during the callback).
func ZzStreamToMsg(s *Stream) base.RtmpMsg { return s.toAvMsg() }
